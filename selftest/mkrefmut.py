#!/usr/bin/env python3
"""Author self-test patches that break a property *on top of* one of the independent benign
refactorings (seeded/benign-Rk): the generalised rules must stay quiet on the refactoring and still
fire once the refactored code is broken.

  mkrefmut.py            regenerate every patch listed in MUTANTS (verifies that each variant compiles)

Each patch is a diff against /repo's HEAD (refactoring + mutation), written to
selftest/violations/ref-<name>.patch or selftest/benign/ref-<name>.patch.
"""
import difflib
import os
import shutil
import subprocess
import sys
import tempfile

HERE = os.path.dirname(os.path.abspath(__file__))
VERIF = os.path.dirname(HERE)
REPO = "/repo"

# (name, bank, base refactoring, properties, expect, note, [(file, old, new), ...])
MUTANTS = [
    ("r1-flush-removed", "violations", "R1", "C15", "R15.1", "helper-split main: the per-input flush is dropped",
     [("src/main.rs", "\t\tif let Err(err) = translator.flush() {\n\t\t\txt_bail!(\"{err}\");\n\t\t}\n", "")]),
    ("r1-replace-false", "violations", "R1", "C14", "R14.3", "mem::replace guard re-arms itself: stdin can be read twice",
     [("src/main.rs", "mem::replace(&mut stdin_used, true)", "mem::replace(&mut stdin_used, false)")]),
    ("r1-usage-exit-1", "violations", "R1", "C13", "R13.1", "usage-error helper exits 1 instead of 2",
     [("src/main.rs", "\twrite_short_help(stderr);\n\tprocess::exit(2);", "\twrite_short_help(stderr);\n\tprocess::exit(1);")]),
    ("r1-open-error-skipped", "violations", "R1", "C13", "R13.1", "an input that cannot be opened is skipped silently",
     [("src/main.rs", "\t\tlet input = path\n\t\t\t.open()\n\t\t\t.unwrap_or_else(|err| xt_bail_path!(path, \"{err}\"));\n", "\t\tlet Ok(input) = path.open() else { continue };\n")]),
    ("r1-precedence-swapped", "violations", "R1", "C14", "R14.1", "extension wins over -f",
     [("src/main.rs", "let from = args.from.or_else(|| path.extension_format());", "let from = path.extension_format().or(args.from);")]),
    ("r2-dup-guard-removed", "violations", "R2", "C13", "R13.5", "set_format_once no longer refuses a repeated option",
     [("src/main.rs", "\t\tif slot.is_some() {\n\t\t\treturn Err(duplicate_message.into());\n\t\t}\n", "\t\tlet _ = duplicate_message;\n")]),
    ("r2-lowercase-dropped", "violations", "R2", "C14", "R14.2", "extension compared case-sensitively",
     [("src/main.rs", "path.extension()?.to_str()?.to_ascii_lowercase()", "path.extension()?.to_str()?.to_string()")]),
    ("r2-t-writes-from", "violations", "R2", "C14", "R14.1", "-t stores into the -f accumulator",
     [("src/main.rs", "\t\t\t\t\t\t&mut to,\n", "\t\t\t\t\t\t&mut from,\n")]),
    ("r3-wrong-kind", "violations", "R3", "C16", "R16.2", "helper predicate tests the wrong ErrorKind",
     [("src/pipecheck.rs", "err.kind() == io::ErrorKind::BrokenPipe", "err.kind() == io::ErrorKind::WriteZero")]),
    ("r3-no-terminate", "violations", "R3", "C16", "R16.2", "broken pipe detected but the process is not terminated",
     [("src/pipecheck.rs", "\t\tif is_broken_pipe(err) {\n\t\t\tterminate_by_sigpipe();\n\t\t}\n", "\t\tlet _ = is_broken_pipe(err);\n")]),
    ("r3-replace-false", "violations", "R3", "C08", "R08.1", "TOML one-shot flag re-armed through mem::replace",
     [("src/toml.rs", "mem::replace(&mut self.used, true)", "mem::replace(&mut self.used, false)")]),
    ("r3-cap-removed", "violations", "R3", "C05", "R05.3", "TOML detection parses a prefix truncated at the cap",
     [("src/toml.rs", "Ok((prefix.len() < READER_SIZE_CUTOFF).then_some(prefix))", "Ok(Some(prefix))")]),
    ("r4-newline-skipped", "violations", "R4", "C03", "R03.1", "transcode_value forgets the document terminator",
     [("src/json.rs", "\t\tserde_json::to_writer(&mut self.writer, &value)?;\n\t\tself.end_document()?;\n", "\t\tserde_json::to_writer(&mut self.writer, &value)?;\n")]),
    ("r4-map32-dropped", "violations", "R4", "C10", "R10.2", "helper predicate drops Map32",
     [("src/msgpack.rs", "\t\t\t| Marker::Map16\n\t\t\t| Marker::Map32\n\t)", "\t\t\t| Marker::Map16\n\t)")]),
    ("r4-empty-is-one", "violations", "R4", "C04", "R04.2", "size of an empty input reported as 1: split_at would panic",
     [("src/msgpack.rs", "\tlet Some(&first) = input.first() else {\n\t\treturn Ok(0);\n\t};", "\tlet Some(&first) = input.first() else {\n\t\treturn Ok(1);\n\t};")]),
    ("r5-capture-as-de", "violations", "R5", "C11", "R11.2", "capture helper records the deserializer as source",
     [("src/transcode/stream.rs", "\t\tself.capture_error(ErrorSource::Ser, ser_err);\n\t\tde::Error::custom(TRANSLATION_FAILED)", "\t\tself.capture_error(ErrorSource::De, ser_err);\n\t\tde::Error::custom(TRANSLATION_FAILED)")]),
    ("r5-unwrap-or-eager", "benign", "R5", "C11", "", "unwrap_or with an eagerly built synthetic error: same behaviour as unwrap_or_else",
     [("src/transcode/stream.rs", "\t\t\t\t\t.unwrap_or_else(|| ser::Error::custom(TRANSLATION_FAILED)))", "\t\t\t\t\t.unwrap_or(ser::Error::custom(TRANSLATION_FAILED)))")]),
    ("r6-chain-swapped", "violations", "R6", "C09", "R09.4", "source chained before the captured prefix",
     [("src/input.rs", "Input::Reader(Box::new(FusedReader::new(cursor).chain(source)))", "Input::Reader(Box::new(source.chain(FusedReader::new(cursor))))")]),
    ("r6-no-rewind", "violations", "R6", "C09", "R09.1", "renamed accessor forgets to rewind",
     [("src/input.rs", "\tfn rewound_mut(&mut self) -> &mut CaptureReader<R> {\n\t\tself.0.rewind();\n", "\tfn rewound_mut(&mut self) -> &mut CaptureReader<R> {\n")]),
    ("r7-bom-unguarded", "violations", "R7", "C07", "R07.4", "every U+FEFF is dropped, not only the leading one",
     [("src/yaml/encoding.rs", "Some(Ok('\\u{FEFF}')) if first => self.source.next(),", "Some(Ok('\\u{FEFF}')) => self.source.next(),"),
      ("src/yaml/encoding.rs", "\t\tlet first = !self.started;\n", "")]),
    ("r7-16-before-32", "violations", "R7", "C07", "R07.2", "single slice match with the UTF-16 arms first",
     [("src/yaml/encoding.rs", "\t\t\t[0, 0, 0xFE, 0xFF, ..] | [0, 0, 0, _, ..] => Encoding::Utf32Big,\n\t\t\t[0xFF, 0xFE, 0, 0, ..] | [_, 0, 0, 0, ..] => Encoding::Utf32Little,\n\t\t\t[0xFE, 0xFF, ..] | [0, _, ..] => Encoding::Utf16Big,\n\t\t\t[0xFF, 0xFE, ..] | [_, 0, ..] => Encoding::Utf16Little,\n",
       "\t\t\t[0xFE, 0xFF, ..] | [0, _, ..] => Encoding::Utf16Big,\n\t\t\t[0xFF, 0xFE, ..] | [_, 0, ..] => Encoding::Utf16Little,\n\t\t\t[0, 0, 0xFE, 0xFF, ..] | [0, 0, 0, _, ..] => Encoding::Utf32Big,\n\t\t\t[0xFF, 0xFE, 0, 0, ..] | [_, 0, 0, 0, ..] => Encoding::Utf32Little,\n")]),
    ("r7-exact-length", "violations", "R7", "C07", "R07.2", "UTF-16 arms match only inputs of exactly two bytes",
     [("src/yaml/encoding.rs", "[0xFE, 0xFF, ..] | [0, _, ..] => Encoding::Utf16Big,", "[0xFE, 0xFF] | [0, _] => Encoding::Utf16Big,")]),
    ("r8-kind-overwritten", "violations", "R8", "C10", "R10.2", "a later scalar overwrites the document kind",
     [("src/yaml/chunker.rs", "self.current_kind.get_or_insert(DocumentKind::Scalar);", "self.current_kind = Some(DocumentKind::Scalar);")]),
    ("r8-len-guard-removed", "violations", "R8", "C17", "R17.2", "hoisted copy no longer guarded by read_len <= buffer_size",
     [("src/yaml/chunker/parser.rs", "\t\t\tOk(read_len) if read_len <= buffer_size => read_len,\n\t\t\tOk(_) => {\n\t\t\t\tread_state.error = Some(io::Error::new(io::ErrorKind::Other, \"misbehaving reader\"));\n\t\t\t\treturn READ_FAILURE;\n\t\t\t}\n", "\t\t\tOk(read_len) => read_len,\n")]),
    ("r9-rows-reordered", "violations", "R9", "C10", "R10.1", "table rows: YAML before JSON",
     [("src/detect.rs", "\t(Format::Json, json::input_matches),", "\t(Format::Yaml, yaml::input_matches),  "),
      ("src/detect.rs", "\t(Format::Yaml, yaml::input_matches),\n\t// Finally", "\t(Format::Json, json::input_matches),\n\t// Finally")]),
    ("r9-table-reversed", "violations", "R9", "C05,C10", "", "table walked back to front",
     [("src/detect.rs", "in TRIALS {", "in TRIALS.into_iter().rev() {")]),
    ("r9-pairs-crossed", "violations", "R9", "C09", "R09.2", "table pairs Format::Json with the YAML trial",
     [("src/detect.rs", "(Format::Json, json::input_matches)", "(Format::Json, yaml::input_matches)"),
      ("src/detect.rs", "(Format::Yaml, yaml::input_matches),\n\t// Finally", "(Format::Yaml, json::input_matches),\n\t// Finally")]),
    ("r10-detect-always", "violations", "R10", "C14", "R14.1", "detection helper runs even when a source format was given",
     [("src/lib.rs", "\t\tlet source_format = if let Some(format) = from {\n\t\t\tformat\n\t\t} else {\n\t\t\tdetect_or_fail(&mut input)?\n\t\t};", "\t\tlet detected = detect_or_fail(&mut input)?;\n\t\tlet source_format = from.unwrap_or(detected);")]),
    ("r10-undetected-is-json", "violations", "R10", "C09", "R09.5", "undetected input silently treated as JSON",
     [("src/lib.rs", "\tlet Some(format) = detect::detect_format(input)? else {\n\t\treturn Err(\"unable to detect input format\".into());\n\t};\n\tOk(format)", "\tOk(detect::detect_format(input)?.unwrap_or(Format::Json))")]),
    ("r11-marker-after", "violations", "R11", "C03", "R03.1", "document marker written after the document",
     [("src/yaml.rs", "\t\tself.start_document()?;\n\t\tserde_yaml::to_writer(&mut self.writer, &value)?;\n\t\tOk(())", "\t\tserde_yaml::to_writer(&mut self.writer, &value)?;\n\t\tself.start_document()?;\n\t\tOk(())")]),
    ("r11-fast-path-any-utf8", "violations", "R11", "C07,C02", "R02.1", "helper no longer consults the encoding detector: ASCII-only UTF-16 takes the UTF-8 fast path",
     [("src/yaml.rs", "\tlet text = str::from_utf8(bytes).ok()?;\n\tmatch Encoding::detect(bytes) {\n\t\tEncoding::Utf8 => Some(text),\n\t\t_ => None,\n\t}", "\tstr::from_utf8(bytes).ok()")]),
    ("r12-countdown-unguarded", "violations", "R12", "C04", "R04.1", "countdown decremented before the test: underflow panic in debug builds / endless loop",
     [("src/msgpack.rs", "\twhile remaining > 0 {\n\t\tif rest.is_empty() {", "\tloop {\n\t\tremaining -= 1;\n\t\tif remaining == u32::MAX { break; }\n\t\tif rest.is_empty() {"),
      ("src/msgpack.rs", "\t\trest = &rest[size..];\n\t\tremaining -= 1;\n", "\t\trest = &rest[size..];\n")]),
    ("r12-size-check-dropped", "violations", "R12", "C04", "R04.2", "early-return size check removed",
     [("src/msgpack.rs", "\tif total_size > input.len() {\n\t\treturn Err(ReadSizeError::Truncated);\n\t}\n\tOk(total_size)", "\tOk(total_size)")]),
    ("r13-split-unbounded", "violations", "R13", "C04", "R04.1", "split point no longer bounded by the buffer length",
     [("src/input.rs", "let prefix_size = buf.len().min(self.captured_unread_size());", "let prefix_size = self.captured_unread_size();")]),
    ("r13-capture-to-translator", "violations", "R13", "C05", "R05.2", "capture reader itself boxed for the translator",
     [("src/input.rs", "\t\tlet fully_buffered = capture.is_source_eof();\n\t\tlet (captured, source) = capture.into_inner();\n\t\tif fully_buffered {\n\t\t\treturn Input::Slice(Cow::Owned(captured.into_inner()));\n\t\t}\n\t\tInput::Reader(if captured.get_ref().is_empty() {\n\t\t\tsource\n\t\t} else {\n\t\t\tBox::new(FusedReader::new(captured).chain(source))\n\t\t})",
       "\t\tif capture.is_source_eof() {\n\t\t\tlet (captured, _source) = capture.into_inner();\n\t\t\treturn Input::Slice(Cow::Owned(captured.into_inner()));\n\t\t}\n\t\tInput::Reader(Box::new(capture))")]),
    ("r14-capture-as-de", "violations", "R14", "C11", "R11.2", "capture helper records the deserializer as origin",
     [("src/transcode/stream.rs", "\t\tself.capture_error(ErrorSource::Ser, ser_err);\n\t\tde::Error::custom(TRANSLATION_FAILED)", "\t\tself.capture_error(ErrorSource::De, ser_err);\n\t\tde::Error::custom(TRANSLATION_FAILED)")]),
    ("r15-dup-guard-removed", "violations", "R15", "C13", "R13.5", "set_format_once overwrites silently",
     [("src/main.rs", "\t\tif slot.is_some() {\n\t\t\treturn Err(duplicate_message.into());\n\t\t}\n", "\t\tlet _ = duplicate_message;\n")]),
    ("r15-yml-alias", "violations", "R15", "C13", "R13.4", "undocumented format name accepted",
     [("src/main.rs", "\t\t\"y\" | \"yaml\" => Format::Yaml,\n\t\t_ => return Err", "\t\t\"y\" | \"yaml\" | \"yml\" => Format::Yaml,\n\t\t_ => return Err")]),
    ("r16-end-error-is-eof", "violations", "R16", "C12", "R12.1", "reader loop stops on any end() outcome other than trailing data",
     [("src/json.rs", "\t\tif de.end().is_ok() {\n\t\t\treturn Ok(());\n\t\t}\n\t\toutput.transcode_from(&mut de)?;", "\t\tif de.end().is_ok() {\n\t\t\treturn Ok(());\n\t\t}\n\t\tlet _ = output.transcode_from(&mut de);")]),
    ("r16-entries-reversed", "violations", "R16", "C01", "", "map entries serialized value-first",
     [("src/transcode/value.rs", "\t\tmap.serialize_entry(key, value)?;", "\t\tmap.serialize_entry(value, key)?;")]),
    ("r17-kind-overwritten", "violations", "R17", "C10", "R10.2", "helper overwrites the document kind",
     [("src/yaml/chunker.rs", "\t\tif self.current_document_kind.is_none() {\n\t\t\tself.current_document_kind = Some(kind);\n\t\t}", "\t\tself.current_document_kind = Some(kind);")]),
    ("r17-len-guard-removed", "violations", "R17", "C17", "R17.2", "early-return read handler loses its length guard",
     [("src/yaml/chunker/parser.rs", "Ok(read_len) if read_len <= buffer_size => read_len,", "Ok(read_len) if read_len <= read_state.bounce_buffer.capacity() => read_len,")]),
    ("r18-flag-not-set", "violations", "R18", "C08", "R08.1", "renamed one-shot flag never set",
     [("src/toml.rs", "\t\tself.consumed = true;\n", "")]),
    ("r18-wrong-kind", "violations", "R18", "C16", "R16.2", "renamed check compares the wrong ErrorKind",
     [("src/pipecheck.rs", "err.kind() == io::ErrorKind::BrokenPipe => die_by_sigpipe()", "err.kind() == io::ErrorKind::ConnectionReset => die_by_sigpipe()")]),
    ("r18-detect-despite-request", "violations", "R18", "C14", "R14.1", "resolve_format detects first and only then looks at the request",
     [("src/detect.rs", "\tif let Some(format) = requested {\n\t\treturn Ok(format);\n\t}\n\tmatch detect_format(input)? {\n\t\tSome(format) => Ok(format),", "\tmatch detect_format(input)? {\n\t\tSome(format) => Ok(requested.unwrap_or(format)),")]),
    ("r13-short-read-is-eof", "violations", "R13", "C09,C03", "R09.6", "short read taken for end of input (on the split_at_mut form of read)",
     [("src/input.rs", "self.source_eof = source_size == 0;", "self.source_eof = source_size < buf.len();")]),
    ("r16-newline-error-ignored", "violations", "R16", "C03", "R03.1", "document terminator's write error swallowed in transcode_value",
     [("src/json.rs", "\t\tserde_json::to_writer(&mut self.writer, &value)?;\n\t\tself.finish_document()", "\t\tserde_json::to_writer(&mut self.writer, &value)?;\n\t\tlet _ = self.finish_document();\n\t\tOk(())")]),
    ("r22-json-always-hard", "violations", "R22", "C09", "R09.3", "the JSON trial's closure turns every parser error into a hard error",
     [("src/json.rs", "trial_verdict(trial, |err| err.is_io().then(|| err.into()))", "trial_verdict(trial, |err| Some(io::Error::from(err)))")]),
    ("r22-msgpack-eof-hard", "violations", "R22", "C09", "R09.3", "the MessagePack closure no longer exempts UnexpectedEof",
     [("src/msgpack.rs", "\t\tInvalidMarkerRead(err) | InvalidDataRead(err)\n\t\t\tif err.kind() != io::ErrorKind::UnexpectedEof =>\n\t\t{\n\t\t\tSome(err)\n\t\t}", "\t\tInvalidMarkerRead(err) | InvalidDataRead(err) => Some(err),")]),
    ("r22-verdict-none-is-error", "violations", "R22", "C09", "R09.3", "shared verdict helper reports 'no match' as an error",
     [("src/detect.rs", "\t\tErr(None) => Ok(false),", "\t\tErr(None) => Err(io::Error::new(io::ErrorKind::InvalidData, \"no match\")),")]),
    ("r22-depth-unconfigured", "violations", "R22", "C18", "R18.2", "shared ignore_value helper forgets set_max_depth",
     [("src/msgpack.rs", "\tde.set_max_depth(DEPTH_LIMIT);\n\tde::IgnoredAny::deserialize(&mut de).map(drop)", "\tlet _ = DEPTH_LIMIT;\n\tde::IgnoredAny::deserialize(&mut de).map(drop)")]),
    ("r21-never-spent", "violations", "R21", "C08", "R08.1", "enum one-shot state never leaves Fresh",
     [("src/toml.rs", "mem::replace(&mut self.usage, Usage::Spent)", "mem::replace(&mut self.usage, Usage::Fresh)")]),
    ("r21-marker-error-ignored", "violations", "R21", "C03", "R03.1", "YAML document marker's write error swallowed in the helper",
     [("src/yaml.rs", "\t\twriteln!(&mut self.writer, \"---\")?;\n\t\tOk(&mut self.writer)", "\t\tlet _ = writeln!(&mut self.writer, \"---\");\n\t\tOk(&mut self.writer)")]),
    ("r29-exit-code-zero", "violations", "R29", "C13", "R13.1", "shared diagnostic helper exits 0",
     [("src/bail.rs", "const FAILURE_EXIT_CODE: i32 = 1;", "const FAILURE_EXIT_CODE: i32 = 0;")]),
    ("r29-write-unguarded", "violations", "R29", "C16", "R16.1", "one wrapper method bypasses the guarded helper",
     [("src/pipecheck.rs", "\t\tself.guarded(|w| w.write_all(buf))", "\t\tself.inner.write_all(buf)")]),
    ("r29-wrong-kind", "violations", "R29", "C16", "R16.2", "extension trait tests the wrong ErrorKind",
     [("src/pipecheck.rs", "if err.kind() == io::ErrorKind::BrokenPipe {", "if err.kind() == io::ErrorKind::WriteZero {")]),
    ("r23-usage-exit-1", "violations", "R23", "C13", "R13.1", "central exit-code table maps usage errors to 1",
     [("src/bail.rs", "\t\t\tSelf::Usage(_) => 2,", "\t\t\tSelf::Usage(_) => 1,")]),
    ("r23-translate-unnamed", "violations", "R23", "C13", "R13.1", "translate failures lose the input's name in the central message table",
     [("src/bail.rs", "Self::Translate(path, err) => writeln!(w, \"xt error in {path}: {err}\"),", "Self::Translate(_path, err) => writeln!(w, \"xt error: {err}\"),")]),
    ("r23-flush-dropped", "violations", "R23", "C15", "R15.1", "flush result discarded in the session method",
     [("src/main.rs", "\t\tself.translator.flush().map_err(Failure::Flush)", "\t\tlet _ = self.translator.flush();\n\t\tOk(())")]),
    ("r23-stdin-not-claimed", "violations", "R23", "C14", "R14.3", "claim_stdin forgets to record the use",
     [("src/main.rs", "\t\tself.stdin_used = true;\n", "")]),
    ("r23-failure-ignored", "violations", "R23", "C13", "R13.1", "main drops the session's failure: exit status 0",
     [("src/main.rs", "\tif let Err(failure) = session.translate_all(input_paths(input_pathnames)) {\n\t\tfailure.exit();\n\t}", "\tlet _ = session.translate_all(input_paths(input_pathnames));")]),
    ("r23-extension-first", "violations", "R23", "C14", "R14.1", "extension wins over the forced format",
     [("src/main.rs", "let from = self.forced_from.or_else(|| path.extension_format());", "let from = path.extension_format().or(self.forced_from);")]),
    ("r9-result-ignored", "violations", "R9", "C09", "R09.2", "the first row's format is returned whatever its trial says",
     [("src/detect.rs", "\t\tif input_matches(input.borrow_mut())? {\n\t\t\treturn Ok(Some(format));\n\t\t}\n", "\t\tlet _ = input_matches(input.borrow_mut())?;\n\t\treturn Ok(Some(format));\n")]),
    # ---- round 5: idiom-conversion refactorings R31..R39
    ("r31-toml-first", "violations", "R31", "C05", "R05.4", "format table starts with the buffering TOML trial",
     [("src/detect.rs", "\tFormat::Msgpack,\n", "\tFormat::Toml,\n"), ("src/detect.rs", "\tFormat::Toml,\n];", "\tFormat::Msgpack,\n];")]),
    ("r31-dispatch-mispaired", "violations", "R31", "C09", "R09.2", "dispatcher runs the msgpack trial for the Json entry and vice versa",
     [("src/detect.rs", "\t\tFormat::Json => crate::json::input_matches(input),\n\t\tFormat::Msgpack => crate::msgpack::input_matches(input),", "\t\tFormat::Json => crate::msgpack::input_matches(input),\n\t\tFormat::Msgpack => crate::json::input_matches(input),")]),
    ("r31-fixed-answer", "violations", "R31", "C09", "R09.2", "whatever entry matched, detection answers Json",
     [("src/detect.rs", "\t\t\treturn Ok(Some(candidate));", "\t\t\treturn Ok(Some(Format::Json));")]),
    ("r31-none-is-json", "violations", "R31", "C09", "R09.5", "undetected input silently falls back to JSON instead of the documented error",
     [("src/lib.rs", "detect::detect_format(input)?.ok_or_else(|| \"unable to detect input format\".into())", "Ok(detect::detect_format(input)?.unwrap_or(Format::Json))")]),
    ("r32-skip-one", "violations", "R32", "C03", "R03.4", "try_for_each closure can finish an iteration without forwarding its document",
     [("src/json.rs", "\t\t\tde.into_iter::<transcode::Value>()\n\t\t\t\t.try_for_each(|value| output.transcode_value(value?))?;", "\t\t\tlet mut skip = b.starts_with(b\" \");\n\t\t\tde.into_iter::<transcode::Value>().try_for_each(|value| {\n\t\t\t\tlet value = value?;\n\t\t\t\tif std::mem::take(&mut skip) {\n\t\t\t\t\treturn Ok(());\n\t\t\t\t}\n\t\t\t\toutput.transcode_value(value)\n\t\t\t})?;")]),
    ("r32-for-each-swallows", "violations", "R32", "C03", "R03.4", "for_each cannot stop at a failed document",
     [("src/json.rs", "\t\t\tde.into_iter::<transcode::Value>()\n\t\t\t\t.try_for_each(|value| output.transcode_value(value?))?;", "\t\t\tde.into_iter::<transcode::Value>().for_each(|value| {\n\t\t\t\tif let Ok(value) = value {\n\t\t\t\t\toutput.transcode_value(value).ok();\n\t\t\t\t}\n\t\t\t});")]),
    ("r32-io-inverted", "violations", "R32", "C09", "R09.3", "nested if inverted: syntax errors become hard detection errors",
     [("src/json.rs", "\t\t\tif err.is_io() {\n\t\t\t\tErr(err.into())\n\t\t\t} else {\n\t\t\t\tOk(false)\n\t\t\t}", "\t\t\tif err.is_io() {\n\t\t\t\tOk(false)\n\t\t\t} else {\n\t\t\t\tErr(err.into())\n\t\t\t}")]),
    ("r32-eof-inverted", "violations", "R32", "C09", "R09.3", "UnexpectedEof becomes the hard error, real I/O errors are swallowed",
     [("src/msgpack.rs", "if err.kind() == io::ErrorKind::UnexpectedEof {", "if err.kind() != io::ErrorKind::UnexpectedEof {")]),
    ("r33-kind-match-wrong", "violations", "R33", "C09", "R09.7", "nested match skips UnexpectedEof instead of InvalidData",
     [("src/yaml.rs", "\t\t\tio::ErrorKind::InvalidData => Ok(false),", "\t\t\tio::ErrorKind::UnexpectedEof => Ok(false),")]),
    ("r33-cap-removed", "violations", "R33", "C05", "R05.3", "bounded_input no longer gives up at the cap",
     [("src/toml.rs", "Ok((prefix.len() < SIZE_CUTOFF).then_some(prefix))", "Ok(Some(prefix))")]),
    ("r33-fast-path-ungated", "violations", "R33", "C02", "R02.1", "UTF-8 fast path no longer asks the encoding detector",
     [("src/yaml.rs", "Ok(s) if matches!(Encoding::detect(&b), Encoding::Utf8) => {", "Ok(s) => {")]),
    ("r33-replace-false", "violations", "R33", "C08", "R08.1", "one-shot flag re-armed",
     [("src/toml.rs", "mem::replace(&mut self.used, true)", "mem::replace(&mut self.used, false)")]),
    ("r34-guard-flipped", "violations", "R34", "C04", "R04.1", "early return taken on the wrong side: the subtraction can underflow",
     [("src/input.rs", "\t\tif size <= already_captured {", "\t\tif size >= already_captured {")]),
    ("r34-eof-unconditional", "violations", "R34", "C09", "R09.6", "end-of-input recorded after every bounded capture",
     [("src/input.rs", "\t\tif stopped_short {\n\t\t\tself.source_eof = true;\n\t\t}", "\t\tlet _ = stopped_short;\n\t\tself.source_eof = true;")]),
    ("r34-take-without-rewind", "violations", "R34", "C09", "R09.1", "rewind_and_take forgets to rewind",
     [("src/input.rs", "\t\tlet Self(mut inner) = self;\n\t\tinner.rewind();\n\t\tinner", "\t\tlet Self(inner) = self;\n\t\tinner")]),
    ("r34-prefix-dropped", "violations", "R34", "C09", "R09.4", "captured prefix is not replayed in front of the source",
     [("src/input.rs", "\t\t\t(false, true) => Input::Reader(source),", "\t\t\t(false, _) => Input::Reader(source),")]),
    ("r34-split-unbounded", "violations", "R34", "C04", "R04.1", "split point no longer capped by the buffer length",
     [("src/input.rs", "let prefix_size = buf.len().min(self.captured_unread_size());", "let prefix_size = self.captured_unread_size();")]),
    ("r35-utf16-first", "violations", "R35", "C07", "R07.2", "UTF-16 patterns tried before the UTF-32 ones",
     [("src/yaml/encoding.rs", "\t\t\t[0, 0, 0xFE, 0xFF, ..] | [0, 0, 0, _, ..] => Encoding::Utf32Big,\n\t\t\t[0xFF, 0xFE, 0, 0, ..] | [_, 0, 0, 0, ..] => Encoding::Utf32Little,\n\t\t\t[0xFE, 0xFF, ..] | [0, _, ..] => Encoding::Utf16Big,\n\t\t\t[0xFF, 0xFE, ..] | [_, 0, ..] => Encoding::Utf16Little,", "\t\t\t[0xFE, 0xFF, ..] | [0, _, ..] => Encoding::Utf16Big,\n\t\t\t[0xFF, 0xFE, ..] | [_, 0, ..] => Encoding::Utf16Little,\n\t\t\t[0, 0, 0xFE, 0xFF, ..] | [0, 0, 0, _, ..] => Encoding::Utf32Big,\n\t\t\t[0xFF, 0xFE, 0, 0, ..] | [_, 0, 0, 0, ..] => Encoding::Utf32Little,")]),
    ("r35-bom-anywhere", "violations", "R35", "C07", "R07.4", "a U+FEFF anywhere in the text is dropped",
     [("src/yaml/encoding.rs", "if at_start && matches!(next, Some(Ok('\\u{FEFF}'))) {", "if matches!(next, Some(Ok('\\u{FEFF}'))) {")]),
    ("r35-started-rearmed", "violations", "R35", "C07", "R07.4", "start flag re-armed on every call",
     [("src/yaml/encoding.rs", "!std::mem::replace(&mut self.started, true)", "!std::mem::replace(&mut self.started, false)")]),
    ("r35-trail-as-lead", "violations", "R35", "C07", "R07.5", "part of the trailing-surrogate range is accepted as a leading unit",
     [("src/yaml/encoding.rs", "if matches!(lead, 0xDC00..=0xDFFF) {", "if matches!(lead, 0xDD00..=0xDFFF) {")]),
    ("r35-surrogate-unchecked", "violations", "R35", "C07", "R07.3", "trailing surrogates reach from_u32_unchecked",
     [("src/yaml/encoding.rs", "if !matches!(lead, 0xD800..=0xDFFF) {", "if !matches!(lead, 0xD800..=0xDBFF) {")]),
    ("r35-prefix-short", "violations", "R35", "C07", "R07.6", "detection prefix helper reads only two bytes",
     [("src/yaml/encoding.rs", "reader.by_ref().take(Encoding::DETECT_LEN as u64)", "reader.by_ref().take(2)")]),
    ("r36-helper-captures-de", "violations", "R36", "C11", "R11.2", "shared helper records the deserializer as the failing side",
     [("src/transcode/stream.rs", "\t\tself.0.capture_error(ErrorSource::Ser, ser_err);\n\t\tde::Error::custom(TRANSLATION_FAILED)", "\t\tself.0.capture_error(ErrorSource::De, ser_err);\n\t\tde::Error::custom(TRANSLATION_FAILED)")]),
    ("r36-arms-swapped", "violations", "R36", "C11", "R11.1|R11.2|R11.3", "map_err closure builds the two-sided error on the deserializer arm",
     [("src/transcode/stream.rs", "\t\t\tErrorSource::Ser => Error::Ser(visitor.0.into_error().unwrap(), de_err),\n\t\t\tErrorSource::De => Error::De(de_err),", "\t\t\tErrorSource::De => Error::Ser(visitor.0.into_error().unwrap(), de_err),\n\t\t\tErrorSource::Ser => Error::De(de_err),")]),
    ("r37-replace-false", "violations", "R37", "C14", "R14.3", "stdin flag re-armed by the short-circuit guard",
     [("src/main.rs", "mem::replace(&mut stdin_used, true)", "mem::replace(&mut stdin_used, false)")]),
    ("r37-guard-negated", "violations", "R37", "C14", "R14.3", "guard looks at every input except stdin",
     [("src/main.rs", "let stdin_reused = matches!(input, Input::Stdin) &&", "let stdin_reused = !matches!(input, Input::Stdin) &&")]),
    ("r37-mmap-ignores-from", "violations", "R37", "C14", "R14.1", "mapped files are always auto-detected",
     [("src/main.rs", "Input::Mmap(map) => translator.translate_slice(&map, from),", "Input::Mmap(map) => translator.translate_slice(&map, None),")]),
    ("r37-usage-exit-1", "violations", "R37", "C13", "R13.1", "usage-error helper exits 1",
     [("src/main.rs", "\twrite_short_help(stderr);\n\tprocess::exit(2);", "\twrite_short_help(stderr);\n\tprocess::exit(1);")]),
    ("r37-t-into-from", "violations", "R37", "C14", "R14.1", "-t stores into the -f slot",
     [("src/main.rs", "Self::set_format_once(&mut to, &mut parser, repeated)?;", "Self::set_format_once(&mut from, &mut parser, repeated)?;")]),
    ("r37-dup-guard-removed", "violations", "R37", "C13", "R13.5", "a repeated option is accepted",
     [("src/main.rs", "\t\tif slot.is_some() {\n\t\t\treturn Err(repeated.into());\n\t\t}\n", "\t\tlet _ = repeated;\n")]),
    ("r38-end-event-ignored", "violations", "R38", "C05", "R05.5", "DOCUMENT_END no longer cuts the captured bytes",
     [("src/yaml/chunker.rs", "YAML_DOCUMENT_END_EVENT => self.finish_document(event.end_offset()),", "YAML_DOCUMENT_END_EVENT => {}")]),
    ("r38-wrap-kind-other", "violations", "R38", "C09", "R09.7", "wrapping helper uses ErrorKind::Other",
     [("src/yaml/chunker.rs", "io::Error::new(io::ErrorKind::InvalidData, err)", "io::Error::new(io::ErrorKind::Other, err)")]),
    ("r38-wrap-replaces", "violations", "R38", "C12", "R12.2", "wrapping helper drops the underlying error",
     [("src/yaml/chunker.rs", "io::Error::new(io::ErrorKind::InvalidData, err)", "{\n\t\tdrop(err);\n\t\tio::Error::new(io::ErrorKind::InvalidData, \"invalid YAML stream\")\n\t}")]),
    ("r38-kind-overwritten", "violations", "R38", "C10", "R10.2", "every content event overwrites the document kind",
     [("src/yaml/chunker.rs", "\t\tif self.current_document_kind.is_none() {\n\t\t\tself.current_document_kind = Some(kind);\n\t\t}", "\t\tself.current_document_kind = Some(kind);")]),
    ("r38-stash-ignored", "violations", "R38", "C12", "R12.2", "the reader's own error is discarded in favour of libyaml's",
     [("src/yaml/chunker/parser.rs", "\t\t\tSome(read_err) => read_err,\n\t\t\tNone => io::Error::new(io::ErrorKind::InvalidData, parser_err),", "\t\t\t_ => io::Error::new(io::ErrorKind::InvalidData, parser_err),")]),
    ("r39-wrong-kind", "violations", "R39", "C16", "R16.2", "matches! tests the wrong ErrorKind",
     [("src/pipecheck.rs", "matches!(err.kind(), io::ErrorKind::BrokenPipe)", "matches!(err.kind(), io::ErrorKind::WriteZero)")]),
    ("r39-two-kinds", "violations", "R39", "C16", "R16.2", "a full device is treated like a broken pipe",
     [("src/pipecheck.rs", "matches!(err.kind(), io::ErrorKind::BrokenPipe)", "matches!(err.kind(), io::ErrorKind::BrokenPipe | io::ErrorKind::WriteZero)")]),
    ("r39-no-terminate", "violations", "R39", "C16", "R16.2", "broken pipe detected but the process is not terminated",
     [("src/pipecheck.rs", "\t\tif is_broken_pipe(err) {\n\t\t\tterminate_by_sigpipe();\n\t\t}\n", "\t\tlet _ = is_broken_pipe(err);\n")]),
    ("r39-bail-exit-0", "violations", "R39", "C13", "R13.1", "shared bail macro exits 0",
     [("src/bail.rs", "\t\t::std::process::exit(1);", "\t\t::std::process::exit(0);")]),
    # ---- round 6: module moves, type-level changes, error plumbing R41..R49
    ("r41-eof-on-short", "violations", "R41", "C09", "R09.6", "moved capture reader takes a short read for EOF",
     [("src/input/capture.rs", "self.source_eof = source_size == 0;", "self.source_eof = source_size < tail_len(buf, prefix_size);"),
      ("src/input/capture.rs", "impl<R> Read for CaptureReader<R>", "fn tail_len(buf: &[u8], taken: usize) -> usize {\n\tbuf.len().saturating_sub(taken)\n}\n\nimpl<R> Read for CaptureReader<R>")]),
    ("r41-fused-drops-early", "violations", "R41", "C09", "R09.11", "moved fused reader lets go of the prefix after any short read",
     [("src/input/fused.rs", "\t\tif n == 0 && !buf.is_empty() {", "\t\tif n < buf.len() {")]),
    ("r41-borrow-without-rewind", "violations", "R41", "C09", "R09.1", "moved guard forgets to rewind on borrow",
     [("src/input/capture.rs", "\t\tself.0.rewind();\n\t\t&mut self.0", "\t\t&mut self.0")]),
    ("r41-new-unwrap", "violations", "R41", "C04", "R04.1", "a new panic edge in the moved file is not covered by the old file's budget",
     [("src/input/capture.rs", "\t\t\tself.source.read_to_end(self.prefix.get_mut())?;\n\t\t\tself.source_eof = true;", "\t\t\tself.source.read_to_end(self.prefix.get_mut()).unwrap();\n\t\t\tself.source_eof = true;")]),
    ("r43-budget-not-decreased", "violations", "R43", "C18", "R18.3", "moved size calculator recurses with the same budget",
     [("src/msgpack/size.rs", "\t\tlet size = next_value_size(seq, depth_limit - 1)?;", "\t\tlet size = next_value_size(seq, depth_limit)?;")]),
    ("r44-lowercase-dropped", "violations", "R44", "C14", "R14.2", "moved extension lookup compares case-sensitively",
     [("src/cli_input.rs", "\t\t\t.map(|ext| ext.to_ascii_lowercase())\n", "\t\t\t.map(|ext| ext.to_string())\n")]),
    ("r44-dash-is-a-file", "violations", "R44", "C14", "R14.3", "moved path conversion no longer maps `-` to stdin",
     [("src/cli_input.rs", "\t\tif path == Path::new(\"-\") {", "\t\tif path == Path::new(\"--\") {")]),
    ("r44-second-unsafe", "violations", "R44", "C17", "R17.1", "a second mmap in the moved file exceeds what moved with the function",
     [("src/cli_input.rs", "\t\t\t// Per memmap2 docs, it's safe to drop the original file now.\n\t\t\treturn Ok(Input::Mmap(map));", "\t\t\tdrop(map);\n\t\t\tlet map = unsafe { memmap2::Mmap::map(&file)? };\n\t\t\treturn Ok(Input::Mmap(map));")]),
    ("r45-toml-first", "violations", "R45", "C05", "R05.4", "fn-pointer table starts with the buffering TOML trial",
     [("src/detect.rs", "\t(Format::Msgpack, crate::msgpack::input_matches),", "\t(Format::Toml, crate::toml::input_matches),"), ("src/detect.rs", "\t(Format::Toml, crate::toml::input_matches),\n];", "\t(Format::Msgpack, crate::msgpack::input_matches),\n];")]),
    ("r46-map-err-replaces", "violations", "R46", "C11", "R11.3", "explicit map_err builds a fresh message instead of converting",
     [("src/msgpack.rs", "\t\ttranscode::transcode(&mut ser, de).map_err(crate::Error::from)", "\t\ttranscode::transcode(&mut ser, de).map_err(|_| crate::Error::from(\"translation failed\"))")]),
    ("r46-flag-not-set", "violations", "R46", "C08", "R08.1", "one-shot flag never set",
     [("src/toml.rs", "\t\tself.used = true;\n", "")]),
    ("r47-entries-reversed", "violations", "R47", "C01", "R01.3", "helper hands the map entries over in reverse order",
     [("src/transcode/value.rs", "\t\t\tNone => return Ok(entries),", "\t\t\tNone => {\n\t\t\t\tentries.reverse();\n\t\t\t\treturn Ok(entries);\n\t\t\t}")]),
    ("r47-f32-widened", "violations", "R47", "C01", "R01.3", "f32 leaves as f64",
     [("src/transcode/value.rs", "Value::F32(f) => s.serialize_f32(f),", "Value::F32(f) => s.serialize_f64(f64::from(f)),")]),
    ("r48-marks-swapped", "equivalent", "R48", "C03", "R03.5", "DOCUMENT_END cuts at the event's start index",
     [("src/yaml/chunker.rs", "\t\t\t\t\tlet offset = Event::end_index(&event);", "\t\t\t\t\tlet offset = Event::start_index(&event);")]),
    ("c04-table-yaml-before-json", "violations", "C04", "C10", "R10.1", "table rows reordered: the YAML trial runs before the JSON trial",
     [("src/detect.rs", "\t(crate::json::input_matches, Format::Json),", "\t(crate::yaml::input_matches, Format::Yaml), // (moved up)"),
      ("src/detect.rs", "\t(crate::yaml::input_matches, Format::Yaml),\n\t// Finally", "\t(crate::json::input_matches, Format::Json),\n\t// Finally")]),
    ("c04-table-wrong-pair", "violations", "C04", "C09", "R09.1|R09.2|R09.4|R10", "the JSON trial is paired with Format::Yaml in the table",
     [("src/detect.rs", "\t(crate::json::input_matches, Format::Json),", "\t(crate::json::input_matches, Format::Yaml),")]),
    ("c04-table-match-inverted", "violations", "C04", "C09", "R09", "the closure selects the row's format when the trial answered false",
     [("src/detect.rs", ".map(|matched| matched.then_some(format))", ".map(|matched| (!matched).then_some(format))")]),
    ("c01-known-also-detects", "violations", "C01", "C05", "R05.7", "Source::Known runs detection too (result ignored)",
     [("src/lib.rs", "\t\t\tSource::Known(format) => Ok(format),", "\t\t\tSource::Known(format) => detect::detect_format(input).map(|_| format).map_err(Into::into),")]),
    ("c03-finish-ignores-eof-flag", "violations", "C03", "C09", "R09.6", "finish_capture records EOF for every successful drain, bounded ones included",
     [("src/input.rs", "\t\t\tOk(_) if eof => {", "\t\t\tOk(_) if eof || true => {")]),
    ("c08-claim-never-marks", "violations", "C08", "C08", "R08.1", "Usage::claim() no longer marks the output as used",
     [("src/toml.rs", "\t\t\t\t*self = Usage::Used;\n", "")]),
    ("c14-first-keeps-pos", "violations", "C14", "C04", "R04.2", "the cursor pair is rebuilt with pos = 1",
     [("src/yaml/encoding.rs", "\t\tSelf { pos: 0, len }", "\t\tSelf { pos: 1, len }")]),
    ("c17-position-without-start", "violations", "C17", "C09", "R09.1", "the hand-written replay step moves the cursor to the copied length, not start + length: a second partial replay repeats bytes",
     [("src/input.rs", "self.prefix.set_position((start + prefix_size) as u64);", "self.prefix.set_position(prefix_size as u64);")]),
    ("c17-copy-ignores-start", "violations", "C17", "C09", "R09.1", "the hand-written replay step copies from the start of the captured bytes, not from the cursor's position",
     [("src/input.rs", "let unread = &self.prefix.get_ref()[start..];", "let unread = &self.prefix.get_ref()[..];\n\t\tlet _ = start;")]),
    ("c17-stale-end", "violations", "C17", "C09", "R09.1", "the end of the capture buffer is measured before the fresh bytes are appended: the cursor stays in front of them and the next read replays them",
     [("src/input.rs", "\t\tcaptured.extend_from_slice(&buf[..source_size]);\n\t\tlet end = captured.len();\n", "\t\tlet end = captured.len();\n\t\tcaptured.extend_from_slice(&buf[..source_size]);\n")]),
    # ---- round 17: on top of correct feature additions
    ("d07-override-starts-as-utf8", "violations", "D07", "C07", "R02.1", "the new explicit-encoding option starts as Some(Utf8) instead of None: detection is bypassed for everybody",
     [("src/lib.rs", "\t\tTranslator(Dispatcher::new(output, to), None)", "\t\tTranslator(Dispatcher::new(output, to), Some(yaml::Encoding::Utf8))")]),
    ("d07-no-override-means-utf8", "violations", "D07", "C07", "R02.1", "without an explicit encoding the fast path assumes UTF-8 instead of asking the detector",
     [("src/yaml.rs", "\tlet from = |b: &[u8]| encoding.unwrap_or_else(|| Encoding::detect(b));", "\tlet from = |_b: &[u8]| encoding.unwrap_or(Encoding::Utf8);")]),
    ("d18-setter-unclamped", "violations", "D18", "C18", "R18.1", "the new depth setter no longer clamps to the built-in maximum: a caller can raise the limit past 1024 and the recursion guard with it",
     [("src/lib.rs", "\t\tself.max_depth = Some(depth.min(msgpack::MAX_DEPTH));", "\t\tself.max_depth = Some(depth);")]),
    ("d18-parser-keeps-builtin-limit", "violations", "D18", "C18", "R18.3", "the size calculator gets the adjustable budget while one rmp_serde deserializer keeps the built-in limit: slice and reader input are judged by different limits",
     [("src/msgpack.rs", "\t\t\t\tlet mut de = rmp_serde::Deserializer::from_read_ref(next);\n\t\t\t\tde.set_max_depth(depth_limit);", "\t\t\t\tlet mut de = rmp_serde::Deserializer::from_read_ref(next);\n\t\t\t\tde.set_max_depth(DEPTH_LIMIT);")]),
    ("d09-default-lookahead-1mib", "violations", "D09", "C10", "R10.4", "the now adjustable TOML look-ahead defaults to 1 MiB: xt's own TOML output between 1 and 2 MiB is no longer recognised from a pipe",
     [("src/input.rs", "pub(crate) const DEFAULT_LOOKAHEAD: usize = 2 * 1024_usize.pow(2);", "pub(crate) const DEFAULT_LOOKAHEAD: usize = 1024_usize.pow(2);")]),
    ("d13-final-exit-removed", "violations", "D13", "C13", "R13.1", "keep-going mode: the exit(1) behind the failed flag is gone, a run with failed inputs ends with status 0",
     [("src/main.rs", "\tif failed {\n\t\tprocess::exit(1);\n\t}\n", "\tlet _ = failed;\n")]),
    ("d13-open-failure-not-flagged", "violations", "D13", "C13", "R13.1", "keep-going mode: an input that cannot be opened is reported but does not set the failed flag",
     [("src/main.rs", "\t\t\t\txt_report_path!(path, \"{err}\");\n\t\t\t\tfailed = true;\n\t\t\t\tif keep_going {\n\t\t\t\t\tcontinue;", "\t\t\t\txt_report_path!(path, \"{err}\");\n\t\t\t\tif keep_going {\n\t\t\t\t\tcontinue;")]),
    # ---- round 18: on top of bug fixes done right
    ("e07-fill-count-overwritten", "violations", "E07", "C07", "R07.8", "the hand-written read_exact keeps only the last read's count (`filled = n`): after a short read the unit is decoded from fewer fresh bytes than its width",
     [("src/yaml/encoding.rs", "\t\t\tOk(n) => filled += n,", "\t\t\tOk(n) => filled = n,")]),
    ("e07-fill-stops-one-short", "violations", "E07", "C07", "R07.8", "the hand-written read_exact stops one byte early",
     [("src/yaml/encoding.rs", "\twhile filled < unit.len() {", "\twhile filled + 1 < unit.len() {")]),
    # ---- round 19: on top of type / signature ripples done right
    ("f07-lead-range-too-wide", "violations", "F07", "C07", "R07.5", "the classifying constructor calls 0xDC00..=0xDCFF leading surrogates as well: the payload the decoder trusts is no longer 10 bits",
     [("src/yaml/encoding.rs", "\t\t\t0xD800..=0xDBFF => Self::Lead(unit),\n\t\t\t0xDC00..=0xDFFF => Self::Trail(unit),", "\t\t\t0xD800..=0xDCFF => Self::Lead(unit),\n\t\t\t0xDD00..=0xDFFF => Self::Trail(unit),")]),
    ("f07-surrogate-as-scalar", "violations", "F07", "C17", "R07.3", "the classifying constructor lets 0xDFFF through as a scalar: an invalid char is made by the unchecked conversion",
     [("src/yaml/encoding.rs", "\t\t\t0xDC00..=0xDFFF => Self::Trail(unit),", "\t\t\t0xDC00..=0xDFFE => Self::Trail(unit),")]),
    ("f08-claim-does-not-mark", "violations", "F08", "C08", "R08.1", "the test-and-set helper reads the state without marking the output as used",
     [("src/toml.rs", "\t\tmem::replace(&mut self.usage, Usage::Spent)", "\t\tself.usage")]),
    ("e18-enter-returns-same-budget", "violations", "E18", "C18", "R18.3", "the checked-decrement helper tests the budget but hands back the undecremented value: nesting no longer uses up depth",
     [("src/msgpack.rs", "\t\tSome(inner_limit) => Ok(inner_limit),", "\t\tSome(_) => Ok(depth_limit),")]),
    ("f04-descend-wraps", "violations", "F04", "C18", "R18.3", "the newtype's descend() uses wrapping_sub and never fails: the recursion is unbounded",
     [("src/msgpack.rs", "\t\tmatch self.0.checked_sub(1) {\n\t\t\tSome(remaining) => Ok(Depth(remaining)),\n\t\t\tNone => Err(ReadSizeError::DepthLimitExceeded),\n\t\t}", "\t\tOk(Depth(self.0.wrapping_sub(1)))")]),
    ("r48-stash-ignored", "violations", "R48", "C12", "R12.2", "the reader's own error is discarded in favour of libyaml's",
     [("src/yaml/chunker/parser.rs", "Some(read_err) => read_err,", "Some(_) => io::Error::new(io::ErrorKind::InvalidData, \"read failed\"),")]),
    ("r49-scratch-tail", "violations", "R49", "C07", "R07.7", "remainder taken from the whole scratch array",
     [("src/yaml/encoding.rs", "let (emitted, kept) = tmp[..char_len].split_at(emit_len);", "let (emitted, kept) = tmp.split_at(emit_len);")]),
    ("r49-error-skipped", "violations", "R49", "C12", "R12.1", "a failing chunk is skipped instead of ending the translation",
     [("src/yaml.rs", "\t\t\tSome(doc) => doc?,\n", "\t\t\tSome(Ok(doc)) => doc,\n\t\t\tSome(Err(_)) => continue,\n")]),
    # ---- round 7: on top of repaired "refactoring accident" variants
    ("t13-flag-not-set", "violations", "T13", "C14", "R14.3", "the stdin flag lent as &mut bool is tested but never set",
     [("src/main.rs", "\t\t*stdin_used = true;\n", "")]),
    ("t13-name-lost", "violations", "T13", "C13", "R13.1", "translate failures are reported without the input's name",
     [("src/main.rs", "\tresult.map_err(|err| Failure::input(path, err))?;", "\tresult.map_err(|err| Failure::Other(err.to_string()))?;")]),
    ("t14-stdin-ignores-f", "violations", "T14", "C14", "R14.1", "source_format answers None for standard input instead of the -f value",
     [("src/main.rs", "\t\tlet Self::File(path) = self else {\n\t\t\treturn requested;\n\t\t};", "\t\tlet Self::File(path) = self else {\n\t\t\treturn None;\n\t\t};")]),
    ("t15-check-dropped", "violations", "T15", "C16", "R16.1", "checked() no longer looks at the error's kind",
     [("src/pipecheck.rs", "\t\t\tif is_broken_pipe(&err) {\n\t\t\t\tterminate_for_broken_pipe();\n\t\t\t}\n", "")]),
    ("t10-gate-too-wide", "violations", "T10", "C10", "R10.2", "raw-byte gate also lets str8..str32 markers through",
     [("src/msgpack.rs", "matches!(marker, 0x80..=0x9f | 0xdc..=0xdf)", "matches!(marker, 0x80..=0x9f | 0xd9..=0xdf)")]),
    ("t04-end-error-unrecorded", "violations", "T04", "C11", "R11.2", "end() failure replaced by the generic error without capturing it",
     [("src/transcode/stream.rs", "\t\tseq.end().map_err(|ser_err| {\n\t\t\tself.0.capture_error(ErrorSource::Ser, ser_err);\n\t\t\tde::Error::custom(TRANSLATION_FAILED)\n\t\t})", "\t\tseq.end().map_err(|_| de::Error::custom(TRANSLATION_FAILED))")]),
    # round 8: mutants on top of the repaired refactorings benign-Uxx
    ("u11-merge-on-ok", "violations", "U11", "C11", "R11.4", "finish_step merges the seed's state when the step succeeded instead of when it failed",
     [("src/transcode/stream.rs", "\t\tif outcome.is_err() {\n\t\t\tself.0.capture_child_error(seed);", "\t\tif outcome.is_ok() {\n\t\t\tself.0.capture_child_error(seed);")]),
    ("u13-check-inverted", "violations", "U13", "C16", "R16.2", "checked() terminates on every error except a broken pipe",
     [("src/pipecheck.rs", "\t\t\tif is_broken_pipe(err) {\n\t\t\t\tsys::terminate();", "\t\t\tif !is_broken_pipe(err) {\n\t\t\t\tsys::terminate();")]),
    ("u13-flush-forwards-to-write", "violations", "U13", "C15", "R16.1", "flush() hands the inner writer's write_all (of nothing) to checked(): buffered output is never flushed",
     [("src/pipecheck.rs", "self.checked(Write::flush)", "self.checked(|w| w.write_all(&[]))")]),
    ("u18-closure-budget-reset", "violations", "U18", "C18", "R18.3", "the try_fold closure recurses with a fresh budget",
     [("src/msgpack.rs", "rest => Ok(total + next_value_size(rest, depth_limit)?),", "rest => Ok(total + next_value_size(rest, DEPTH_LIMIT)?),")]),
    ("u10-replay-unbounded", "violations", "U10", "C04", "R04.2", "read_captured no longer limits the replayed prefix to the caller's buffer",
     [("src/input.rs", "let size = std::cmp::min(buf.len(), self.captured_unread_size());", "let size = self.captured_unread_size();")]),
    ("u09-utf16-endianness-swapped", "violations", "U09", "C07", "R07.2", "from_utf16 ignores the endianness it is given",
     [("src/yaml/encoding.rs", "let decoder = Utf16Decoder::new(reader, endianness);", "let _ = endianness;\n\t\tlet decoder = Utf16Decoder::new(reader, Endianness::Big);")]),
    ("u16-reader-no-flush", "violations", "U16", "C15", "R15.1", "the reader helper returns without flushing the translator",
     [("src/main.rs", "\t\t.translate_reader(reader, from)\n\t\t.map_err(Failure::Translate)?;\n\ttranslator.flush().map_err(Failure::Flush)", "\t\t.translate_reader(reader, from)\n\t\t.map_err(Failure::Translate)?;\n\tOk(())")]),
    ("u06-ext8-narrow", "violations", "U06", "C06", "R04.6", "ext 8 header added to the length in u8",
     [("src/msgpack.rs", "Marker::Ext8 => 3 + widen(read_length::<u8>(input)?),", "Marker::Ext8 => widen(3 + read_length::<u8>(input)?),")]),
    ("u02-unit-not-exact", "violations", "U02", "C02", "R07.8", "read_code_unit takes whatever one read returns",
     [("src/yaml/encoding.rs", "\tsource.read_exact(&mut unit)?;\n\tOk(Some(unit))", "\tlet _ = source.read(&mut unit)?;\n\tOk(Some(unit))")]),
    ("u01-trail-range-wide", "violations", "U01", "C07", "R07.3|R07.5", "TRAIL_SURROGATES starts one unit early",
     [("src/yaml/encoding.rs", "const TRAIL_SURROGATES: RangeInclusive<u16> = 0xDC00..=0xDFFF;", "const TRAIL_SURROGATES: RangeInclusive<u16> = 0xDBFF..=0xDFFF;")]),
    ("u12-position-double", "violations", "U12", "C07", "R07.8", "the shared unit reader advances the position twice per unit",
     [("src/yaml/encoding.rs", "\t\tself.pos += unit.len() as u64;\n\t\tSome(Ok(unit))", "\t\tself.pos += 2 * unit.len() as u64;\n\t\tSome(Ok(unit))")]),
    ("u12-error-as-eof", "violations", "U12", "C12", "R12.1", "a failing fill_buf ends the stream quietly",
     [("src/yaml/encoding.rs", "\t\t\tErr(err) => return Some(Err(err)),\n\t\t};\n\t\tlet mut unit", "\t\t\tErr(_) => return None,\n\t\t};\n\t\tlet mut unit")]),
]


def sh(cmd, cwd=None, env=None):
    r = subprocess.run(cmd, shell=True, cwd=cwd, env=env, stdout=subprocess.PIPE, stderr=subprocess.STDOUT, text=True, errors="replace")
    return r.returncode, r.stdout


def main():
    only = sys.argv[1:]
    sys.path.insert(0, os.path.join(VERIF, "tools"))
    import scratch

    d = tempfile.mkdtemp(prefix="xtrefmut-")
    tgt = scratch.fresh_target()
    bad = 0
    try:
        clean = os.path.join(d, "clean")
        os.makedirs(clean)
        sh(f"git -C {REPO} archive HEAD | tar -x -C {clean}")
        bases = {}
        for name, bank, base, props, expect, note, edits in MUTANTS:
            if only and not any(o in name for o in only):
                continue
            if base not in bases:
                bd = os.path.join(d, base)
                shutil.copytree(clean, bd)
                rc, out = sh(f"git apply --whitespace=nowarn {VERIF}/seeded/benign-{base}/patch.diff", cwd=bd)
                if rc != 0:
                    print("cannot apply base", base, out)
                    return 1
                bases[base] = bd
            md = os.path.join(d, "m")
            shutil.rmtree(md, ignore_errors=True)
            shutil.copytree(bases[base], md)
            ok = True
            for f, old, new in edits:
                p = os.path.join(md, f)
                s = open(p).read()
                if s.count(old) != 1:
                    print(f"ERROR {name}: OLD occurs {s.count(old)} times in {f}: {old[:60]!r}")
                    ok = False
                    break
                open(p, "w").write(s.replace(old, new))
            if not ok:
                bad += 1
                continue
            env = dict(os.environ, CARGO_NET_OFFLINE="true", CARGO_TARGET_DIR=tgt)
            rc, out = sh("cargo build --offline 2>&1 | grep -E '^error' -A6 | head -20", cwd=md, env=env)
            rc2, out2 = sh("cargo build --offline >/dev/null 2>&1", cwd=md, env=env)
            if rc2 != 0:
                print(f"ERROR {name}: does not compile\n{out}")
                bad += 1
                continue
            lines = [f"# property: {props}"]
            if expect:
                lines.append(f"# expect: {expect}")
            lines.append(f"# note: on top of the independent refactoring benign-{base}: {note}")
            rc, diff = sh(f"diff -ruN --label a --label b clean m | sed -e 's#^--- clean/#--- a/#' -e 's#^+++ m/#+++ b/#' -e 's#^diff -ruN.* clean/\\(.*\\) m/.*#diff --git a/\\1 b/\\1#'", cwd=d)
            # regenerate with proper labels per file
            out_lines = []
            for root, _, fs in os.walk(md):
                for f in sorted(fs):
                    p2 = os.path.join(root, f)
                    rel = os.path.relpath(p2, md)
                    p1 = os.path.join(clean, rel)
                    if rel.startswith("target") or rel.startswith(".git"):
                        continue
                    if not os.path.exists(p1):
                        # a file the refactoring created
                        try:
                            b = open(p2).read()
                        except UnicodeDecodeError:
                            continue
                        bl = b.splitlines(True)
                        out_lines.append(f"diff --git a/{rel} b/{rel}\nnew file mode 100644\n--- /dev/null\n+++ b/{rel}\n@@ -0,0 +1,{len(bl)} @@\n")
                        out_lines.extend("+" + l for l in bl)
                        if bl and not bl[-1].endswith("\n"):
                            out_lines.append("\n\\ No newline at end of file\n")
                        continue
                    try:
                        a = open(p1).read()
                        b = open(p2).read()
                    except UnicodeDecodeError:
                        continue
                    if a != b:
                        out_lines.append(f"diff --git a/{rel} b/{rel}\n")
                        out_lines.extend(difflib.unified_diff(a.splitlines(True), b.splitlines(True), f"a/{rel}", f"b/{rel}"))
            # files the refactoring removed
            for root, _, fs in os.walk(clean):
                for f in sorted(fs):
                    p1 = os.path.join(root, f)
                    rel = os.path.relpath(p1, clean)
                    if rel.startswith("target") or rel.startswith(".git") or os.path.exists(os.path.join(md, rel)):
                        continue
                    try:
                        al = open(p1).read().splitlines(True)
                    except UnicodeDecodeError:
                        continue
                    out_lines.append(f"diff --git a/{rel} b/{rel}\ndeleted file mode 100644\n--- a/{rel}\n+++ /dev/null\n@@ -1,{len(al)} +0,0 @@\n")
                    out_lines.extend("-" + l for l in al)
            path = os.path.join(HERE, bank, f"ref-{name}.patch")
            with open(path, "w") as fh:
                fh.write("\n".join(lines) + "\n" + "".join(out_lines))
            print("wrote", path)
    finally:
        shutil.rmtree(d, ignore_errors=True)
        shutil.rmtree(tgt, ignore_errors=True)
    return 1 if bad else 0


if __name__ == "__main__":
    sys.exit(main())
