#!/usr/bin/env python3
"""Author a self-test patch by exact string replacement against /repo's current tree.

  mkpatch.py --bank violations --name NAME --prop C08[,C15] [--expect R08.1] [--note TEXT]
             --edit FILE OLD NEW [--edit FILE OLD NEW ...]

Each OLD must occur exactly once in FILE. The patch is written to selftest/<bank>/<NAME>.patch.
"""
import difflib
import os
import sys

HERE = os.path.dirname(os.path.abspath(__file__))
REPO = "/repo"


def main():
    a = sys.argv[1:]
    bank = name = prop = None
    expect = note = ""
    edits = []
    i = 0
    while i < len(a):
        if a[i] == "--bank":
            bank = a[i + 1]; i += 2
        elif a[i] == "--name":
            name = a[i + 1]; i += 2
        elif a[i] == "--prop":
            prop = a[i + 1]; i += 2
        elif a[i] == "--expect":
            expect = a[i + 1]; i += 2
        elif a[i] == "--note":
            note = a[i + 1]; i += 2
        elif a[i] == "--edit":
            edits.append((a[i + 1], a[i + 2], a[i + 3])); i += 4
        else:
            print("bad arg", a[i]); return 2
    files = {}
    for f, old, new in edits:
        p = os.path.join(REPO, f)
        if f not in files:
            files[f] = [open(p).read(), None]
            files[f][1] = files[f][0]
        cur = files[f][1]
        old = old.encode().decode("unicode_escape") if "\\t" in old or "\\n" in old else old
        new = new.encode().decode("unicode_escape") if "\\t" in new or "\\n" in new else new
        if cur.count(old) != 1:
            print(f"ERROR: OLD occurs {cur.count(old)} times in {f}: {old!r}")
            return 1
        files[f][1] = cur.replace(old, new)
    out = []
    out.append(f"# property: {prop}")
    if expect:
        out.append(f"# expect: {expect}")
    if note:
        out.append(f"# note: {note}")
    for f, (orig, new) in files.items():
        d = difflib.unified_diff(orig.splitlines(True), new.splitlines(True), f"a/{f}", f"b/{f}")
        out.append("".join(d).rstrip("\n"))
    path = os.path.join(HERE, bank, name + ".patch")
    os.makedirs(os.path.dirname(path), exist_ok=True)
    with open(path, "w") as fh:
        fh.write("\n".join(out) + "\n")
    print("wrote", path)
    return 0


if __name__ == "__main__":
    sys.exit(main())
