#!/usr/bin/env python3
"""Checker self-test: apply each seeded patch to a scratch copy of /repo and run the checks there.

  selftest/run.py [--bank violations|benign|all] [--jobs N] [name-substring ...]

Patch header lines (before the diff):
  # property: C08[,C15]      properties whose check must fire (violations) / stay quiet (benign)
  # expect: R08.1            (optional) rule id that must be named in the report
  # note: free text

A violating patch passes the self-test when `./check <prop>` exits 1 with a VIOLATION line (and names
the expected rule); a benign patch passes when every listed check exits 0. Scratch copies live under
$TMPDIR (outside /repo and /verif) and are removed immediately.
"""
import concurrent.futures
import json
import os
import re
import shutil
import subprocess
import sys
import tempfile

HERE = os.path.dirname(os.path.abspath(__file__))
VERIF = os.path.dirname(HERE)
REPO = "/repo"


def parse_header(path):
    meta = {"property": [], "expect": [], "note": ""}
    for line in open(path):
        if not line.startswith("#"):
            break
        m = re.match(r"#\s*(\w+):\s*(.*)", line)
        if m:
            k, v = m.group(1), m.group(2).strip()
            if k == "property":
                meta["property"] = [x.strip() for x in v.split(",") if x.strip()]
            elif k == "expect":
                meta["expect"] = [x.strip() for x in v.split(",") if x.strip()]
            elif k == "note":
                meta["note"] = v
    return meta


def scratch_copy():
    d = tempfile.mkdtemp(prefix="xtself-")
    dst = os.path.join(d, "repo")
    shutil.copytree(REPO, dst, ignore=shutil.ignore_patterns("target", ".git", "fuzz", "benches"))
    return d, dst


import queue

SLOTS = queue.Queue()


def run_one(bank, path, only=None):
    slot = SLOTS.get()
    try:
        return run_one_slot(bank, path, slot, only)
    finally:
        SLOTS.put(slot)


def run_one_slot(bank, path, slot, only=None):
    """`only`: run just that property's check (the thorough tier of one property asks for its own verdict only)."""
    meta = parse_header(path)
    if only is not None:
        meta = dict(meta, property=[p_ for p_ in meta["property"] if p_ == only])
    name = os.path.basename(path)
    d, dst = scratch_copy()
    try:
        r = subprocess.run(["patch", "-p1", "-s", "--no-backup-if-mismatch", "-i", path], cwd=dst, capture_output=True, text=True)
        if r.returncode != 0:
            return {"name": name, "bank": bank, "status": "skipped", "why": "patch does not apply: " + (r.stdout + r.stderr)[-300:]}
        env = dict(os.environ)
        env["XT_REPO"] = dst
        env["XT_SELFTEST"] = "1"
        env["XT_SLOT"] = f"-s{slot}"
        results = {}
        ok = True
        for pid in meta["property"]:
            evdir = tempfile.mkdtemp(prefix="xtev-", dir=d)
            env["XT_EVIDENCE_DIR"] = evdir
            c = subprocess.run([os.path.join(VERIF, "check"), pid], env=env, capture_output=True, text=True)
            out = c.stdout + c.stderr
            fired = c.returncode == 1 and "VIOLATION property=" + pid in out
            results[pid] = {"rc": c.returncode, "fired": fired, "rules": sorted(set(re.findall(r"^  rule (R[0-9]+\.[0-9]+)", out, re.M)))}
            if bank == "violations":
                # the expected rule must be named on a violation line ("  rule R08.1 instance ..." / anchor-lost /
                # floor), not merely listed among the rules that passed
                vio = "\n".join(l for l in out.splitlines() if l.startswith("  rule "))
                named = all(any(re.search(r"^  rule " + re.escape(alt), vio, re.M) for alt in e.split("|")) for e in meta["expect"]) if meta["expect"] else True
                build_failed = "build-failed" in out
                if not fired or not named or build_failed:
                    ok = False
                    results[pid]["out"] = out[-1500:]
            else:
                if c.returncode != 0:
                    ok = False
                    results[pid]["out"] = out[-1500:]
        return {"name": name, "bank": bank, "status": "pass" if ok else "FAIL", "results": results, "expect": meta["expect"]}
    finally:
        shutil.rmtree(d, ignore_errors=True)


def verify_tests(path, slot):
    """Does the patched tree still compile and pass the repository's 142 tests?"""
    d, dst = scratch_copy()
    try:
        r = subprocess.run(["patch", "-p1", "-s", "--no-backup-if-mismatch", "-i", path], cwd=dst, capture_output=True, text=True)
        if r.returncode != 0:
            return {"applies": False}
        sys.path.insert(0, os.path.join(VERIF, "tools"))
        import scratch

        tgt = scratch.fresh_target()
        env = dict(os.environ, CARGO_NET_OFFLINE="true", CARGO_TARGET_DIR=tgt)
        c = subprocess.run("cargo test --offline 2>&1 | grep -E '^test result|^error' | head -8", shell=True, cwd=dst, env=env, capture_output=True, text=True)
        out = c.stdout
        passed = sum(int(x) for x in re.findall(r"(\d+) passed", out))
        failed = sum(int(x) for x in re.findall(r"(\d+) failed", out))
        return {"applies": True, "compiles": "could not compile" not in out, "passed": passed, "failed": failed, "tests_pass": passed == 142 and failed == 0 and "error" not in out}
    finally:
        shutil.rmtree(d, ignore_errors=True)
        try:
            shutil.rmtree(tgt, ignore_errors=True)
        except NameError:
            pass


def main_verify(subs, jobs):
    work = []
    bd = os.path.join(HERE, "violations")
    for f in sorted(os.listdir(bd)):
        if f.endswith(".patch") and (not subs or any(s in f for s in subs)):
            work.append(os.path.join(bd, f))
    status_path = os.path.join(HERE, "tests_status.json")
    status = json.load(open(status_path)) if os.path.exists(status_path) else {}
    for k in range(jobs):
        SLOTS.put(k)

    def one(path):
        slot = SLOTS.get()
        try:
            return os.path.basename(path), verify_tests(path, slot)
        finally:
            SLOTS.put(slot)

    with concurrent.futures.ThreadPoolExecutor(max_workers=jobs) as ex:
        for name, st in ex.map(one, work):
            status[name] = st
            print(name, st, flush=True)
            with open(status_path, "w") as fh:
                json.dump(status, fh, indent=1, sort_keys=True)
    return 0


def main():
    args = sys.argv[1:]
    if args and args[0] == "--verify-tests":
        rest = [a for a in args[1:] if not a.startswith("--")]
        return main_verify(rest, 6)
    bank = "all"
    jobs = 8
    subs = []
    i = 0
    while i < len(args):
        if args[i] == "--bank":
            bank = args[i + 1]
            i += 2
        elif args[i] == "--jobs":
            jobs = int(args[i + 1])
            i += 2
        else:
            subs.append(args[i])
            i += 1
    work = []
    for b in ("violations", "benign"):
        if bank not in ("all", b):
            continue
        bd = os.path.join(HERE, b)
        if not os.path.isdir(bd):
            continue
        for f in sorted(os.listdir(bd)):
            if not f.endswith(".patch"):
                continue
            if subs and not any(s in f for s in subs):
                continue
            work.append((b, os.path.join(bd, f)))
    for k in range(jobs):
        SLOTS.put(k)
    res = []
    with concurrent.futures.ThreadPoolExecutor(max_workers=jobs) as ex:
        for r in ex.map(lambda w: run_one(*w), work):
            res.append(r)
            extra = ""
            if r["status"] == "FAIL":
                extra = "\n" + json.dumps(r["results"], indent=1)[:2500]
            elif r["status"] == "skipped":
                extra = " " + r["why"]
            print(f"{r['status']:7} {r['bank']:10} {r['name']}{extra}", flush=True)
    summary = {
        "fired": len([r for r in res if r["bank"] == "violations" and r["status"] == "pass"]),
        "violations_total": len([r for r in res if r["bank"] == "violations" and r["status"] != "skipped"]),
        "quiet": len([r for r in res if r["bank"] == "benign" and r["status"] == "pass"]),
        "benign_total": len([r for r in res if r["bank"] == "benign" and r["status"] != "skipped"]),
        "skipped": len([r for r in res if r["status"] == "skipped"]),
    }
    if bank in ("all", "violations") and not subs:
        # which rule is exercised by which seeded violation (a full run only): a rule no mutant makes fire has never
        # been seen to fire, whatever it claims
        cov = {}
        for r in res:
            if r["bank"] != "violations":
                continue
            for pid, v in r.get("results", {}).items():
                for rid in v.get("rules", []):
                    cov.setdefault(rid, []).append(r["name"])
        with open(os.path.join(HERE, "rule_coverage.json"), "w") as fh:
            json.dump({k: sorted(set(v)) for k, v in sorted(cov.items())}, fh, indent=1)
    print("SELFTEST " + json.dumps(summary))
    return 0 if all(r["status"] != "FAIL" for r in res) else 1


if __name__ == "__main__":
    sys.exit(main())
