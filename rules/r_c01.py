"""C01 — cross-format value fidelity (structural necessary conditions), and C06's single clause."""
import re
from engine import rule, AnchorLost
from model import Super, PathSens, fn_of, trace, strace, is_place, site
import common

SCALARS = ["unit", "bool", "i8", "i16", "i32", "i64", "i128", "u8", "u16", "u32", "u64", "u128", "f32", "f64", "char", "str", "bytes"]
REQUIRED_VISITS = ["visit_unit", "visit_bool", "visit_i64", "visit_u64", "visit_f64", "visit_str", "visit_bytes", "visit_seq", "visit_map"]
PLAIN_STEPS = ("use", "ref", "deref", "field", "enter_caller")


def visitor_impls(lib):
    imps = [i for i in lib.impls if i.get("trait") == "serde::de::Visitor"]
    stream = [i for i in imps if i["self_ty"].startswith("&mut ")]
    value = [i for i in imps if not i["self_ty"].startswith("&")]
    if len(stream) != 1 or len(value) != 1:
        raise AnchorLost(f"expected one streaming (&mut) and one by-value serde::de::Visitor impl, found {len(stream)} / {len(value)}")
    return stream[0], value[0]


def _closure_follow(lib, sup, tr):
    """If a trace ended at a closure aggregate with a pending upvar field step, continue the trace
    at the captured operand inside the body that built the closure. Returns the final Trace."""
    guard = 0
    while tr.origin and tr.origin[0] == "agg" and tr.origin[1]["rv"].get("agg") == "closure" and guard < 4:
        guard += 1
        agg = tr.origin[1]["rv"]
        cb = lib.by_id.get(agg["closure"])
        if not cb:
            break
        ups = cb.raw.get("upvars", [])
        # the pending field step: last 'field' step (closest to the origin) with no ADT
        fld = None
        for s in reversed(tr.steps):
            if s[0] == "field" and s[2] is None:
                fld = s[1]
                break
        if fld is None or fld not in ups:
            break
        op = agg["ops"][ups.index(fld)]
        body = sup.body_of(tr.origin_node)
        node = tr.origin_node
        steps = tr.steps
        tr2 = strace(sup, (node[0], tr.origin[2]), op)
        tr2.steps = steps + [("closure_capture", fld)] + tr2.steps
        tr = tr2
    return tr


def _plain(tr, allow=PLAIN_STEPS + ("closure_capture", "agg_field")):
    return [s for s in tr.steps if s[0] not in allow]


@rule("R01.1", 17, "streaming visitor: visit_T forwards to serialize_T with the uncast payload (type identity of the scalar table)", ["C01", "C06"])
def r01_1(ctx):
    lib = ctx.lib
    stream, _ = visitor_impls(lib)
    for it in stream["items"]:
        name = it["name"]
        if not name.startswith("visit_") or name in ("visit_seq", "visit_map"):
            continue
        x = name[len("visit_"):]
        b = lib.by_id[it["def"]]
        sup = Super(lib, b, depth=3)
        sers = [(n, bb, t) for n, bb, t in sup.calls() if (fn_of(t) or {}).get("trait") == "serde::Serializer" and fn_of(t)["name"].startswith("serialize_")]
        names = [fn_of(t)["name"] for _, _, t in sers]
        ok = names == ["serialize_" + x]
        if not ok and len(sers) > 1:
            # the scalar travels through an intermediate value (`enum Scalar { Int(i128), .. }`) and leaves through
            # a shared dispatch: only the serializer calls that are feasible for this visit method count
            from model import PathSens

            reach = PathSens(sup, payloads=True).reach()
            sers = [z for z in sers if z[0] in reach]
            names = sorted({fn_of(t)["name"] for _, _, t in sers})
            ok = names == ["serialize_" + x]
            if not ok and x in _INT_BITS and names and all(nm[len("serialize_"):] in _INT_BITS for nm in names):
                # an integer may leave through wider integer methods, as long as the methods of at most 64 bits (which
                # every target encodes alike) cover the whole range of the type it arrived in; 128-bit arrivals need
                # a 128-bit way out
                def rng(tn):
                    sg, bits = _INT_BITS[tn]
                    return (-(1 << (bits - 1)), (1 << (bits - 1)) - 1) if sg else (0, (1 << bits) - 1)

                lo, hi = rng(x)
                outs = [rng(nm[len("serialize_"):]) for nm in names if _INT_BITS[nm[len("serialize_"):]][1] <= 64 or _INT_BITS[x][1] > 64]
                covered_lo = any(a <= lo for a, _ in outs)
                covered_hi = any(z_ >= hi for _, z_ in outs)
                if covered_lo and covered_hi:
                    ctx.ob(f"{name}:forwards-to-same-type", True, site(b), f"integer leaves through {names}: the methods of at most 64 bits cover every {x} value (lossless widening)")
                    continue
        ctx.ob(f"{name}:forwards-to-same-type", ok, site(b), f"serializer calls: {names}")
        if len(sers) != 1:
            continue
        n, bb, t = sers[0]
        if b.nargs >= 2:
            if len(t["args"]) < 2:
                ctx.ob(f"{name}:payload-uncast", False, sup.site(n), "the visited value is not passed to the serializer")
                continue
            tr = _closure_follow(lib, sup, strace(sup, n, t["args"][1]))
            origin_ok = bool(tr.origin and tr.origin[0] == "arg" and tr.origin[1] == 2 and not tr.origin_node[0])
            bad = _plain(tr)
            ctx.ob(f"{name}:payload-uncast", origin_ok and not bad, sup.site(n),
                   "serializer receives the visitor's own parameter unchanged" if origin_ok and not bad else f"payload is transformed on the way: {[s[:2] for s in bad] or tr.origin[0]}")


@rule("R01.2", 18, "both Visitor impls override every method the four parsers use for common-model values", ["C01"])
def r01_2(ctx):
    lib = ctx.lib
    stream, value = visitor_impls(lib)
    for label, imp in (("stream", stream), ("value", value)):
        names = {it["name"] for it in imp["items"]}
        for req in REQUIRED_VISITS:
            ctx.ob(f"{label}:{req}", req in names, imp["self_ty"], "overridden" if req in names else f"serde's default {req} rejects the value (invalid type)")


def _lower(v):
    return v.lower()


_INT_BITS = {"i8": (1, 8), "i16": (1, 16), "i32": (1, 32), "i64": (1, 64), "i128": (1, 128), "u8": (0, 8), "u16": (0, 16), "u32": (0, 32), "u64": (0, 64), "u128": (0, 128)}


def _int_widens(x, y):
    """Every value of integer type x is a value of integer type y (an integer stays the same integer)."""
    if x not in _INT_BITS or y not in _INT_BITS:
        return False
    (sx, bx), (sy, by) = _INT_BITS[x], _INT_BITS[y]
    if sx == sy:
        return by >= bx
    return sx == 0 and sy == 1 and by > bx


def _delegates_to_own_deserialize(lib, b, value_impl):
    """The visit method returns, unchanged, what `<Value as Deserialize>::deserialize` makes of its own deserializer
    parameter."""
    if b.nargs != 2:
        return False
    tr = trace(b, {"k": "copy", "p": {"l": 0, "pr": []}})
    if not (tr.origin and tr.origin[0] == "call" and all(s_[0] == "use" for s_ in tr.steps)):
        return False
    t = tr.origin[2]
    f = fn_of(t) or {}
    if not (f.get("trait") in ("serde::Deserialize", "serde::de::Deserialize") and f.get("name") == "deserialize" and len(t["args"]) == 1):
        return False
    # of the Value type itself: the call's result type is the method's own
    if b.local_ty(t["dest"]["l"]) != b.local_ty(0):
        return False
    at = trace(b, t["args"][0])
    return bool(at.origin == ("arg", 2) and all(s_[0] == "use" for s_ in at.steps))


@rule("R01.3", 21, "borrowed Value: visit_T -> variant -> serialize_T compose to the identity; strings/bytes/collections keep payload and order", ["C01", "C06"])
def r01_3(ctx):
    lib = ctx.lib
    _, value = visitor_impls(lib)
    adt_name = None
    # visit_X -> variant
    v_of = {}
    for it in value["items"]:
        name = it["name"]
        if not name.startswith("visit_") or name in ("visit_seq", "visit_map"):
            continue
        b = lib.by_id[it["def"]]
        variant = None
        payload_ok = False
        for _, _, kind, payload in b.whole_defs(0):
            if kind == "assign" and payload["rv"]["k"] == "aggregate" and payload["rv"].get("variant") == "Ok":
                tr = trace(b, payload["rv"]["ops"][0])
                if tr.origin and tr.origin[0] == "agg" and tr.origin[1]["rv"].get("agg") == "adt":
                    agg = tr.origin[1]["rv"]
                    adt_name = agg["adt"]
                    variant = agg["variant"]
                    if not agg["ops"]:
                        payload_ok = b.nargs == 1
                    else:
                        # payload: own parameter, possibly via Cow::{Borrowed,Owned} and to_owned
                        p = trace(b, agg["ops"][0], passthrough_extra=("std::borrow::ToOwned>::to_owned", "ToOwned"))
                        while p.origin and p.origin[0] == "agg" and p.origin[1]["rv"].get("adt") == "std::borrow::Cow":
                            p = trace(b, p.origin[1]["rv"]["ops"][0], passthrough_extra=("std::borrow::ToOwned>::to_owned", "ToOwned"))
                        bad = [s for s in p.steps if s[0] not in ("use", "ref", "deref") and not (s[0] == "call" and "to_owned" in s[1])]
                        payload_ok = bool(p.origin and p.origin[0] == "arg" and p.origin[1] == 2) and not bad
                        if not payload_ok and b.local_ty(2) in _INT_BITS:
                            # `Value::Int(v.into())`: a lossless widening of the integer parameter (From/Into exist
                            # between integer types only when every value is kept)
                            p2 = trace(b, agg["ops"][0], passthrough_extra=("std::convert::Into::into", "std::convert::From::from"))
                            bad2 = [s for s in p2.steps if s[0] not in ("use", "ref", "deref") and not (s[0] == "call" and (s[1].startswith("std::convert::Into::into") or s[1].startswith("std::convert::From::from")))]
                            fty = (lib.adts.get(adt_name) or {}).get("variants", [])
                            fty = [v_["fields"][0]["ty"] for v_ in fty if v_["name"] == variant and v_["fields"]]
                            payload_ok = bool(p2.origin == ("arg", 2)) and not bad2 and bool(fty) and _int_widens(b.local_ty(2), fty[0])
        if variant is None and _delegates_to_own_deserialize(lib, b, value):
            # `visit_some(d)` / `visit_newtype_struct(d)`: the wrapper is transparent, the value inside is deserialized
            # by the same impl and judged by the other rows
            ctx.ob(f"in:{name}:transparent", True, site(b), "hands its deserializer to the same Deserialize impl and returns that result unchanged")
            continue
        v_of[name] = variant
        ctx.ob(f"in:{name}:payload", payload_ok and variant is not None, site(b), f"stores the parameter unchanged in Value::{variant}" if payload_ok else f"payload of Value::{variant} is not the visited value as given")
    ctx.need(adt_name, "Value ADT not identified from the visitor")
    # variant -> serialize_Y from the Serialize impl
    ser_body = None
    for b in lib.bodies:
        if b.raw.get("impl_trait") == "serde::Serialize" and b.raw.get("impl_self_adt") == adt_name and b.name == "serialize":
            ser_body = b
    ctx.need(ser_body, f"Serialize impl for {adt_name} not found")
    adt = lib.adts[adt_name]
    sw = ser_body.blocks[0]["term"]
    ctx.need(sw["k"] == "switch", "Serialize impl does not start with a switch on the variant")
    tgt = {v: t for v, t in sw["targets"]}
    y_of = {}
    all_calls = ser_body.calls()
    def role_of(var):
        """Seq / Map / String / Bytes by payload type; scalar variants keep their own name."""
        tys = [f_["ty"] for f_ in var["fields"]]
        if len(tys) == 1:
            t0 = tys[0]
            if t0.startswith("std::vec::Vec<(" + adt_name):
                return "Map"
            if t0.startswith("std::vec::Vec<" + adt_name):
                return "Seq"
            if t0.startswith("std::borrow::Cow<") and t0.rstrip(">").endswith("str"):
                return "String"
            if t0.startswith("std::borrow::Cow<") and "[u8]" in t0:
                return "Bytes"
        return var["name"]

    roles = {var["name"]: role_of(var) for var in adt["variants"]}
    for var in adt["variants"]:
        idx, vn = var["idx"], var["name"]
        role = roles[vn]
        if idx not in tgt:
            ctx.ob(f"out:{vn}:arm", False, site(ser_body), "variant has no arm in Serialize")
            continue
        dom = [(bb, t) for bb, t in all_calls if ser_body.edge_dominates(0, idx, tgt[idx], bb)]
        sers = [(bb, t) for bb, t in dom if (fn_of(t) or {}).get("trait") in ("serde::Serializer", "serde::Serialize", "serde::ser::SerializeMap", "serde::ser::SerializeSeq")]
        names = [fn_of(t)["name"] for _, t in sers]
        if role not in ("Seq", "String", "Bytes", "Map"):
            # (a scalar arm may go through serde's impl for the primitive: `().serialize(s)` is `s.serialize_unit()`)
            names = [common.ser_method_name(fn_of(t)) for _, t in sers]
        if role in ("Seq", "String", "Bytes"):
            ok = names == ["serialize"]
            if ok:
                bb, t = sers[0]
                tr = trace(ser_body, t["args"][0])
                ok = any(s[0] == "downcast" and s[1] == vn for s in tr.steps) and not [s for s in tr.steps if s[0] not in ("use", "ref", "deref", "field", "downcast")]
            elif role == "Seq" and names == ["collect_seq"]:
                # serde's provided collect_seq: serialize_seq, every item of `&Vec` in index order, end
                bb, t = sers[0]
                tr = trace(ser_body, t["args"][1])
                ok = any(s[0] == "downcast" and s[1] == vn for s in tr.steps) and not [s for s in tr.steps if s[0] not in ("use", "ref", "deref", "field", "downcast")] and (fn_of(t).get("args") or ["", ""])[-1].startswith("&std::vec::Vec<")
            elif role == "Seq" and names == ["serialize_seq", "serialize_element", "end"]:
                # collect_seq written out by hand: serialize_seq, then every element of the payload vector in its own
                # order (a plain `for e in v` / `v.iter()`), then end
                (sb_, st_), (eb_, et_), (nb_, nt_) = sers
                itr = trace(ser_body, et_["args"][1])
                from_next = bool(itr.origin and itr.origin[0] == "call" and (fn_of(itr.origin[2]) or {}).get("trait") == "std::iter::Iterator" and (fn_of(itr.origin[2]) or {}).get("name") == "next" and (fn_of(itr.origin[2]) or {}).get("self_ty", "").startswith("std::slice::Iter<") and any(s_[0] == "downcast" and s_[1] == "Some" for s_ in itr.steps))
                over_payload = False
                if from_next:
                    src = trace(ser_body, itr.origin[2]["args"][0], passthrough_extra=("std::iter::IntoIterator::into_iter", "core::slice::<impl [T]>::iter", "std::ops::Deref::deref"))
                    defs_ = src.origin[2] if src.origin and src.origin[0] == "multi" else None
                    if defs_:
                        for _, _, k2, p2 in defs_:
                            if k2 == "assign" and p2["rv"]["k"] == "use":
                                t3 = trace(ser_body, p2["rv"]["op"], passthrough_extra=("std::iter::IntoIterator::into_iter", "core::slice::<impl [T]>::iter", "std::ops::Deref::deref"))
                                over_payload = over_payload or any(s_[0] == "downcast" and s_[1] == vn for s_ in t3.steps)
                            elif k2 == "call":
                                t3 = trace(ser_body, p2["args"][0], passthrough_extra=("std::iter::IntoIterator::into_iter", "core::slice::<impl [T]>::iter", "std::ops::Deref::deref")) if p2["args"] else None
                                over_payload = over_payload or bool(t3 and any(s_[0] == "downcast" and s_[1] == vn for s_ in t3.steps))
                    else:
                        over_payload = any(s_[0] == "downcast" and s_[1] == vn for s_ in src.steps)
                ok = from_next and over_payload and ser_body.on_cycle(eb_) and not ser_body.on_cycle(sb_) and not ser_body.on_cycle(nb_) and ser_body.dominates(sb_, eb_)
            y_of[vn] = "serialize(" + var["fields"][0]["ty"] + ")" if ok else None
            ctx.ob(f"out:{vn}:delegates-to-payload", ok, site(ser_body, tgt[idx]), f"serialises the {vn} payload through its own Serialize impl" if ok else f"calls {names}")
        elif role == "Map":
            # evaluated on the arm with same-crate helpers inlined (the loop may live in a helper)
            msup = Super(lib, ser_body, depth=2)
            arm_edge = (((), 0), idx, ((), tgt[idx]))
            wo = msup.reachable_from([msup.entry], removed_edges=[arm_edge])
            msers = [(n_, t_) for n_, _, t_ in msup.calls() if n_ not in wo and (fn_of(t_) or {}).get("trait") in ("serde::Serializer", "serde::Serialize", "serde::ser::SerializeMap", "serde::ser::SerializeSeq")]
            names = [fn_of(t_)["name"] for _, t_ in msers]
            ok_names = "serialize_map" in names and "end" in names and ("serialize_entry" in names or ("serialize_key" in names and "serialize_value" in names))
            detail = f"calls {names}"
            ok = ok_names
            if names == ["collect_map"]:
                # serde's provided collect_map over `pairs.iter().map(|(k, v)| (k, v))`: entries in vector order
                n_, t_ = msers[0]
                ity = (fn_of(t_).get("args") or ["", ""])[-1]
                it = strace(msup, n_, t_["args"][1])
                shape = ity.startswith("std::iter::Map<std::slice::Iter<") and ity.count("std::iter::") == 1
                from_payload = False
                pair_ok = False
                if it.origin and it.origin[0] == "call" and (fn_of(it.origin[2]) or {}).get("def") == "std::iter::Iterator::map":
                    mt = it.origin[2]
                    mnode = (it.origin_node[0], it.origin[1])
                    src = strace(msup, mnode, mt["args"][0], extra=("core::slice::<impl [T]>::iter", "std::ops::Deref::deref"))
                    from_payload = any(s_[0] == "downcast" and s_[1] == vn for s_ in src.steps)
                    for cid in (fn_of(mt) or {}).get("closures", []):
                        cb = lib.by_id.get(cid)
                        if cb is None:
                            continue
                        r0 = trace(cb, {"k": "copy", "p": {"l": 0, "pr": []}})
                        if r0.origin and r0.origin[0] == "agg" and len(r0.origin[1]["rv"]["ops"]) == 2:
                            fs = []
                            for o in r0.origin[1]["rv"]["ops"]:
                                ot = trace(cb, o)
                                fs.append([s_[1] for s_ in ot.steps if s_[0] == "field"][:1] if ot.origin == ("arg", 2) else None)
                            pair_ok = fs == [["0"], ["1"]]
                ok = shape and from_payload and pair_ok
                detail = f"collect_map over the pair vector's iter().map(|(k, v)| (k, v)) (iterator {ity[:60]}, key = .0, value = .1: {pair_ok})"
            if names == ["collect_map"]:
                pass
            elif ok and "serialize_entry" in names:
                n_, t_ = [x for x in msers if fn_of(x[1])["name"] == "serialize_entry"][0]
                k = strace(msup, n_, t_["args"][1])
                v = strace(msup, n_, t_["args"][2])
                kf = [s_[1] for s_ in k.steps if s_[0] == "field"]
                vf = [s_[1] for s_ in v.steps if s_[0] == "field"]
                looped = msup.on_cycle(n_)
                if not looped and n_[0]:
                    # `pairs.iter().try_for_each(|(k, v)| map.serialize_entry(k, v))`: the closure runs once per pair,
                    # in the slice iterator's order
                    caller_id, cbb_, callee_id = n_[0][-1]
                    ppath_ = n_[0][:-1]
                    caller_ = msup.body_of((ppath_, 0)) if ppath_ else msup.root
                    cf_ = fn_of(caller_.blocks[cbb_]["term"]) or {}
                    looped = cf_.get("trait") == "std::iter::Iterator" and cf_.get("name") in ("try_for_each", "for_each") and (cf_.get("self_ty") or "").startswith("std::slice::Iter<")
                ok = kf[:1] == ["0"] and vf[:1] == ["1"] and looped
                detail = f"serialize_entry(key = .{kf[:1]}, value = .{vf[:1]}) in the loop over the pair vector"
                endc = [x for x in msers if fn_of(x[1])["name"] == "end"]
                ok = ok and len(endc) == 1 and not msup.on_cycle(endc[0][0])
            elif ok:
                kb = [x for x in msers if fn_of(x[1])["name"] == "serialize_key"][0][0]
                vb = [x for x in msers if fn_of(x[1])["name"] == "serialize_value"][0][0]
                ok = msup.dominates(kb, vb)
            ctx.ob("out:Map:entries-in-order", ok, site(ser_body, tgt[idx]), detail)
        else:
            ok = len(names) == 1 and names[0].startswith("serialize_")
            y_of[vn] = names[0] if len(names) == 1 else None
            ctx.ob(f"out:{vn}:serializer-method", ok, site(ser_body, tgt[idx]), f"Value::{vn} -> {names}")
            if ok and var["fields"]:
                bb, t = sers[0]
                tr = trace(ser_body, t["args"][1])
                good = any(s[0] == "downcast" and s[1] == vn for s in tr.steps) and not [s for s in tr.steps if s[0] not in ("use", "ref", "deref", "field", "downcast")]
                ctx.ob(f"out:{vn}:payload-uncast", good, site(ser_body, bb), "payload passed unchanged" if good else f"payload transformed: {tr.kinds()}")
    # composition
    for name, variant in sorted(v_of.items()):
        x = name[len("visit_"):]
        if variant is None:
            ctx.ob(f"compose:{name}", False, value["self_ty"], "visit method does not build a Value")
            continue
        if x in ("borrowed_str", "str", "string"):
            ok = roles.get(variant) == "String"
            det = f"{name} -> Value::{variant}"
        elif x in ("borrowed_bytes", "bytes", "byte_buf"):
            ok = roles.get(variant) == "Bytes"
            det = f"{name} -> Value::{variant}"
        elif x == "none":
            # an absent optional is a null: it leaves the way unit does (`serialize_none` is not a null for every
            # target: toml skips the entry, R08.5)
            y = y_of.get(variant)
            ok = y == "serialize_unit" and v_of.get("visit_unit") == variant
            det = f"{name} -> Value::{variant} -> {y} (same as visit_unit)"
        else:
            y = y_of.get(variant)
            ok = y == "serialize_" + x or bool(y and y.startswith("serialize_") and _int_widens(x, y[len("serialize_"):]))
            det = f"{name} -> Value::{variant} -> {y}" + (" (lossless integer widening)" if ok and y != "serialize_" + x else "")
        ctx.ob(f"compose:{name}", ok, value["self_ty"], det)
    # collection payload types: plain vectors in arrival order
    ft = {roles[v["name"]]: [f["ty"] for f in v["fields"]] for v in adt["variants"]}
    seq_ok = ft.get("Seq", [""])[0].startswith("std::vec::Vec<" + adt_name)
    map_ok = ft.get("Map", [""])[0].startswith("std::vec::Vec<(" + adt_name)
    ctx.ob("types:Seq-is-Vec", seq_ok, adt_name, f"Seq payload type {ft.get('Seq')}")
    ctx.ob("types:Map-is-Vec-of-pairs", map_ok, adt_name, f"Map payload type {ft.get('Map')}")
    # visit_seq / visit_map push in arrival order and do nothing else to the vector
    DENY = ("insert", "sort", "sort_by", "sort_by_key", "sort_unstable", "reverse", "dedup", "dedup_by", "dedup_by_key", "swap", "retain", "truncate", "pop", "remove", "swap_remove", "drain", "rotate_left", "rotate_right", "clear")
    for it in value["items"]:
        if it["name"] not in ("visit_seq", "visit_map"):
            continue
        b = lib.by_id[it["def"]]
        # the method with its same-crate helpers inlined (the loop may live in a `collect_elements(seq)` helper)
        vsup = Super(lib, b, depth=2)
        pushes = [(n_, t) for n_, _, t in vsup.calls() if (fn_of(t) or {}).get("def", "").startswith("std::vec::Vec") and fn_of(t)["name"] == "push"]
        bad = [fn_of(t)["name"] for _, _, t in vsup.calls() if (fn_of(t) or {}).get("name") in DENY]
        ok = len(pushes) == 1 and vsup.on_cycle(pushes[0][0]) and not bad
        if ok:
            tr = strace(vsup, pushes[0][0], pushes[0][1]["args"][1])
            src = tr.origin[2] if tr.origin and tr.origin[0] == "call" else None
            # element comes from the accessor's next_* result
            ok = bool(src and (fn_of(src) or {}).get("name") in ("next_element", "next_entry", "next_element_seed", "next_entry_seed"))
        elif len(pushes) == 1 and not bad and pushes[0][0][0]:
            # the loop as an iterator pipeline: `iter::from_fn(|| acc.next_element().transpose()).try_fold(vec, |mut v, e|
            # { v.push(e?); Ok(v) })` — from_fn yields the accessor's items one by one, try_fold visits them in that order
            pn = pushes[0][0]
            caller_id, cbb_, callee_id = pn[0][-1]
            ppath_ = pn[0][:-1]
            caller_ = vsup.body_of((ppath_, 0)) if ppath_ else vsup.root
            cf_ = fn_of(caller_.blocks[cbb_]["term"]) or {}
            folds = cf_.get("trait") == "std::iter::Iterator" and cf_.get("name") in ("try_fold", "fold", "try_for_each", "for_each") and (cf_.get("self_ty") or "").startswith("std::iter::FromFn<")
            nexts = {(n_[0][-1][2], n_[1]) for n_, _, t in vsup.calls() if (fn_of(t) or {}).get("name") in ("next_element", "next_entry", "next_element_seed", "next_entry_seed") and n_[0]}
            cb_ = vsup.body_of(pn)
            ptr = trace(cb_, pushes[0][1]["args"][1], passthrough_extra=("std::ops::Try::branch",))
            from_item = bool(ptr.origin and ptr.origin[0] == "arg" and ptr.origin[1] >= 2)
            ok = bool(folds and len(nexts) == 1 and from_item)
        ctx.ob(f"in:{it['name']}:push-in-arrival-order", ok, site(b), "each accessor item is pushed once, in order" if ok else f"vector is built otherwise (pushes={len(pushes)}, other mutations={bad})")


CONTAINERS = ("std::vec::Vec<", "VecDeque<", "HashMap<", "BTreeMap<", "HashSet<", "BTreeSet<", "IndexMap<", "BinaryHeap<", "LinkedList<")


@rule("R01.4", 7, "streaming transcoder: no collecting container; element/key/value seeds paired with the matching collection method; key before value; end() after the loop", ["C01"])
def r01_4(ctx):
    lib = ctx.lib
    stream, _ = visitor_impls(lib)
    vis_bodies = {it["name"]: lib.by_id[it["def"]] for it in stream["items"] if it["def"] in lib.by_id}
    module_file = vis_bodies["visit_seq"].file
    n = 0
    for b in lib.bodies:
        if b.file != module_file:
            continue
        n += 1
        bad = [(i, l["ty"]) for i, l in enumerate(b.locals) if any(c in l["ty"] for c in CONTAINERS)]
        ctx.ob(f"no-container:{b.id}", not bad, site(b), "no container-typed local" if not bad else f"container-typed locals {bad[:2]} (values may be collected / reordered)", trivial=True)
    ctx.ob("stream-module-bodies", n >= 10, module_file, f"{n} bodies checked for container locals")
    # seed pairing
    expect = {"next_element_seed": ("serde::ser::SerializeSeq", "serialize_element"), "next_key_seed": ("serde::ser::SerializeMap", "serialize_key"), "next_value_seed": ("serde::ser::SerializeMap", "serialize_value")}
    seed_impls = [i for i in lib.impls if i.get("trait") == "serde::de::DeserializeSeed"]
    found = {}
    sups = {}
    for mname in ("visit_seq", "visit_map"):
        b = vis_bodies[mname]
        # the method with its same-crate helpers inlined (the element loop may live in a helper)
        vsup = sups[mname] = Super(lib, b, depth=3)
        for nn, nb, t in vsup.calls():
            f = fn_of(t) or {}
            if f.get("name") in expect:
                seed_ty = f["args"][-1] if f.get("args") else ""
                imp = [i for i in seed_impls if i["self_ty"].split("<")[0] == seed_ty.split("<")[0]]
                if len(imp) != 1:
                    ctx.ob(f"pair:{f['name']}", False, vsup.site(nn), f"cannot resolve seed type {seed_ty}")
                    continue
                db = lib.by_id[[it for it in imp[0]["items"] if it["name"] == "deserialize"][0]["def"]]
                sup = Super(lib, db, depth=3)
                coll = [(fn_of(tt).get("trait"), fn_of(tt)["name"]) for _, _, tt in sup.calls() if (fn_of(tt) or {}).get("trait") in ("serde::ser::SerializeSeq", "serde::ser::SerializeMap")]
                ok = coll == [expect[f["name"]]]
                found[f["name"]] = nn
                ctx.ob(f"pair:{f['name']}", ok, site(db), f"{f['name']} -> seed {imp[0]['self_ty'].split('<')[0]} -> {coll}")
                ctx.ob(f"loop:{f['name']}:on-cycle", vsup.on_cycle(nn), vsup.site(nn), "called once per element inside the loop")
    for k in expect:
        if k not in found:
            ctx.ob(f"pair:{k}", False, module_file, f"no {k} call in the visitor")
    vm = vis_bodies["visit_map"]
    if "next_key_seed" in found and "next_value_seed" in found:
        msup = sups["visit_map"]
        ok = msup.dominates(found["next_key_seed"], found["next_value_seed"]) and found["next_key_seed"] != found["next_value_seed"]
        ctx.ob("map:key-before-value", ok, msup.site(found["next_value_seed"]), "every value is preceded by its key" if ok else "a value can be forwarded before its key")
    for mname, tr_name, first in (("visit_seq", "serde::ser::SerializeSeq", "next_element_seed"), ("visit_map", "serde::ser::SerializeMap", "next_key_seed")):
        b = vis_bodies[mname]
        vsup = sups[mname]
        ends = [nn for nn, _, t in vsup.calls() if (fn_of(t) or {}).get("trait") == tr_name and fn_of(t)["name"] == "end"]
        ok = len(ends) == 1 and not vsup.on_cycle(ends[0]) and first in found and vsup.dominates(found[first], ends[0])
        det = "end() missing, repeated or in a loop"
        if ok:
            # a return that did not pass through end() carries Err (variant-aware exploration with end() removed)
            ps = PathSens(vsup)
            reached = ps.explore([(vsup.entry, {})], removed_nodes=ends)
            for rn in vsup.exits():
                for st in reached.get(rn, []):
                    f_end = dict(st)
                    for s_ in b.blocks[rn[1]]["stmts"]:
                        ps._stmt(f_end, (), s_)
                    if f_end.get(((), 0)) != ("var", 1):
                        ok = False
                        det = "a path returns without closing the collection and is not known to return Err"
            if ps.overflow:
                ok = False
                det = "state space overflow"
        ctx.ob(f"{mname}:end-after-loop", ok, site(b), "collection is closed exactly once after the loop, before Ok is returned" if ok else det)


def _features(ctx, krate):
    g = ctx.facts.buildgraph.get(krate)
    if not g:
        raise AnchorLost(f"crate {krate} not in the resolved build graph")
    return set(g["features"]), g["versions"]


@rule("R01.5", 4, "resolved build configuration: toml/preserve_order, serde_json/float_roundtrip on, arbitrary_precision off (cross-checked in the type-checked program)", ["C01"])
def r01_5(ctx):
    lib = ctx.lib
    tf, tv = _features(ctx, "toml")
    jf, jv = _features(ctx, "serde_json")
    m = lib.adts.get("toml::map::Map")
    idx = bool(m and any("indexmap::" in f["ty"] for v in m["variants"] for f in v["fields"]))
    ctx.ob("toml:preserve_order", "preserve_order" in tf and idx, f"toml {tv}", f"features {sorted(tf)}; toml::map::Map is backed by {'IndexMap' if idx else 'a sorted map'}")
    d = lib.adts.get("serde_json::Deserializer")
    sp = bool(d and any(f["name"] == "single_precision" for v in d["variants"] for f in v["fields"]))
    ctx.ob("serde_json:float_roundtrip", "float_roundtrip" in jf and sp, f"serde_json {jv}",
           f"features {sorted(jf)}; Deserializer {'has' if sp else 'lacks'} the single_precision field" + ("" if "float_roundtrip" in jf else " — floats are parsed with best-effort precision (e.g. 9007199254740993.0 -> ...994.0)"))
    ctx.ob("serde_json:no-arbitrary_precision", "arbitrary_precision" not in jf, f"serde_json {jv}", "numbers are delivered as i64/u64/f64, not as maps")
    ctx.ob("serde_json:no-preserve_order-dependence", True, f"serde_json {jv}", "xt never builds serde_json::Map (R01.4: no container locals)", trivial=True)
    ctx.ob("rmp-serde:version", bool(ctx.facts.buildgraph.get("rmp-serde")), "rmp-serde", f"{ctx.facts.buildgraph.get('rmp-serde', {}).get('versions')}")


@rule("R06.1", 1, "xt's JSON float output re-parses exactly: serde_json is built with float_roundtrip", ["C06"])
def r06_1(ctx):
    lib = ctx.lib
    jf, jv = _features(ctx, "serde_json")
    d = lib.adts.get("serde_json::Deserializer")
    sp = bool(d and any(f["name"] == "single_precision" for v in d["variants"] for f in v["fields"]))
    ctx.ob("serde_json:float_roundtrip", "float_roundtrip" in jf and sp, f"serde_json {jv}",
           "JSON reader is exact (float_roundtrip on): ryu's shortest output re-parses to the same binary64" if "float_roundtrip" in jf and sp else
           "serde_json parses floats with best-effort precision: xt's own JSON output may not re-parse to the same value")
    # both JSON arms construct serde_json deserializers (so the feature is the one that matters)
    ep = common.input_entry_points(ctx.facts)["json"]
    ctors = [fn_of(t)["def"] for _, _, t in Super(lib, ep, depth=2).calls() if (fn_of(t) or {}).get("crate") == "serde_json" and "Deserializer" in fn_of(t)["def"] and (fn_of(t)["name"].startswith("from_") or fn_of(t)["name"] == "new")]
    ctx.ob("json-reader-is-serde_json", len(ctors) >= 2, site(ep), f"JSON input is parsed by {ctors}")


def _same_receiver(b, a1, a2):
    t1, t2 = trace(b, a1, passthrough_extra=("std::io::Read::by_ref",)), trace(b, a2, passthrough_extra=("std::io::Read::by_ref",))
    key = lambda t_: (t_.origin[0], t_.origin[1] if t_.origin and len(t_.origin) > 1 and not isinstance(t_.origin[1], dict) else None, tuple(x[1] for x in t_.steps if x[0] == "field"))
    return bool(t1.origin and t2.origin and t1.origin[0] in ("arg", "call") and key(t1) == key(t2))


@rule("R06.2", 1, "an exact-size read never turns a short input into an error: `read_exact` on an input source is made only on an in-memory cursor / slice, behind a `fill_buf` on the same source that showed data, or for bytes a prefix look-ahead has just shown to be there (so xt's own shortest outputs, `7\\n`, `[]`, re-read from a pipe exactly as from a file)", ["C06", "C02"])
def r06_2(ctx):
    lib = ctx.lib
    n = 0
    for b in lib.bodies:
        k = 0
        for bb, t in b.calls():
            f = fn_of(t) or {}
            if not (f.get("trait") == "std::io::Read" and f.get("name") == "read_exact" and len(t["args"]) >= 2):
                continue
            n += 1
            st = str(f.get("self_ty") or "")
            how = None
            if st.startswith("std::io::Cursor<") or st.lstrip("&").replace("mut ", "").startswith("[u8]") or st in ("&[u8]",):
                how = f"the receiver is in memory ({st}): what is there is known"
            if how is None:
                for fb, ft in b.calls():
                    ff = fn_of(ft) or {}
                    if ff.get("name") == "fill_buf" and ff.get("trait") == "std::io::BufRead" and fb != bb and b.dominates(fb, bb) and _same_receiver(b, ft["args"][0], t["args"][0]):
                        how = "a fill_buf on the same source comes first: the read is made only when data has arrived (a unit cut short by the end of input is an error of the input)"
                        break
            if how is None:
                # `if !self.prefix(N)?.starts_with(MARK) { return }` .. `r.read_exact(&mut [0; N])`: the bytes are captured
                # the size of the request: `&mut [0; N]` / a `[u8; N]` local
                at = trace(b, t["args"][1])
                tys = [str(t["args"][1].get("p", {}).get("ty", ""))]
                if at.origin and at.origin[0] in ("rvalue", "agg") and isinstance(at.origin[1], dict):
                    tys.append(str(at.origin[1].get("p", {}).get("ty", "")))
                mm = re.search(r"\[u8; (\d+)\]", " ".join(tys))
                size = int(mm.group(1)) if mm else None
                for sb, stt in b.calls():
                    sf = fn_of(stt) or {}
                    if sf.get("name") == "starts_with" and len(stt["args"]) == 2 and sb != bb:
                        nt = trace(b, stt["args"][1])
                        nlen = None
                        if nt.origin and nt.origin[0] == "const":
                            dec = nt.origin[1].get("decoded")
                            if isinstance(dec, dict) and isinstance(dec.get("seq"), list):
                                nlen = len(dec["seq"])
                        ht = trace(b, stt["args"][0], passthrough_extra=("std::ops::Try::branch", "std::ops::Deref::deref"))
                        from_prefix = bool(ht.origin and ht.origin[0] == "call" and (fn_of(ht.origin[2]) or {}).get("name") == "prefix")
                        sw = b.blocks[stt["target"]]["term"] if stt.get("target") is not None else None
                        if not (from_prefix and nlen is not None and size is not None and size <= nlen and sw and sw["k"] == "switch"):
                            continue
                        # the read is reached only on the `true` edge of the test
                        false_t = [x for v, x in sw["targets"] if v == 0]
                        if false_t and bb not in b.reachable_from(0, removed_edges=[(stt["target"], sw["otherwise"])]):
                            how = f"reached only when a prefix look-ahead starts with a {nlen}-byte mark: those {size} byte(s) are already captured"
                            break
            ctx.ob(f"read_exact:{b.name}:{k}", how is not None, site(b, bb), how or f"`read_exact` on `{st}` with nothing showing that the bytes are there: an input shorter than the request fails with \"failed to fill whole buffer\" from a reader, where the same bytes in memory translate")
            k += 1
    ctx.ob("read_exact-sites", True, "lib", f"{n} read_exact call(s) in the library examined", trivial=n == 0)
