"""Program model over the xtfacts JSON: bodies, CFG utilities, def-use tracing."""
import json
import re
import os
from collections import defaultdict


# --------------------------------------------------------------------------- facts


class Facts:
    """All facts of one configuration: lib + bin crate, build graph."""

    def __init__(self, directory):
        self.dir = directory
        self.crates = {}
        for kind in ("lib", "bin"):
            with open(os.path.join(directory, f"xt-{kind}.json")) as fh:
                self.crates[kind] = Crate(json.load(fh), kind)
        with open(os.path.join(directory, "buildgraph.json")) as fh:
            self.buildgraph = json.load(fh)
        self.lib = self.crates["lib"]
        self.bin = self.crates["bin"]
        self.lib.facts = self
        self.bin.facts = self
        cpath = os.path.join(directory, "xt_controls-lib.json")
        self.controls = None
        if os.path.exists(cpath):
            with open(cpath) as fh:
                self.controls = Crate(json.load(fh), "controls")

    def all_bodies(self):
        for c in (self.lib, self.bin):
            yield from c.bodies


class Crate:
    def __init__(self, raw, kind):
        self.raw = raw
        self.kind = kind
        self.bodies = [Body(b, self) for b in raw["bodies"]]
        self.by_id = {b.id: b for b in self.bodies}
        # initialisers of const / static items (not part of `bodies`: they never run at run time)
        self.const_bodies = {b["id"]: Body(b, self) for b in raw.get("const_bodies", [])}
        self.adts = {a["path"]: a for a in raw["adts"]}
        self.impls = raw["impls"]
        self.tables = raw["hir"]["tables"]
        self.unsafe_blocks = raw["hir"]["unsafe_blocks"]
        self.consts = {c["path"]: c for c in raw["consts"]}
        self._children = defaultdict(list)
        for b in self.bodies:
            if b.raw.get("parent"):
                self._children[b.raw["parent"]].append(b)

    def body(self, ident):
        return self.by_id.get(ident)

    def find(self, pred):
        return [b for b in self.bodies if pred(b)]

    def closures_of(self, body):
        return self._children.get(body.id, [])

    def tables_of(self, owner_id):
        return [t for t in self.tables if t["owner"] == owner_id]


def site(body, bb=None, line=None):
    f = body.raw["span"]["file"]
    if line is None and bb is not None:
        line = body.blocks[bb]["term"]["line"]
    if line is None:
        line = body.raw["span"]["line"]
    return f"{f}:{line} ({body.crate.kind}) {body.id}"


# --------------------------------------------------------------------------- bodies


class Body:
    def __init__(self, raw, crate):
        self.raw = raw
        self.crate = crate
        self.id = raw["id"]
        self.name = raw.get("name", "")
        self.blocks = raw["blocks"]
        self.locals = raw["locals"]
        self.nargs = raw["arg_count"]
        self._succ = None
        self._pred = None
        self._dom = None
        self._defs = None
        self._reach = {}

    def __repr__(self):
        return f"<Body {self.id}>"

    @property
    def file(self):
        return self.raw["span"]["file"]

    @property
    def module(self):
        """Module path derived from the file (src/yaml/encoding.rs -> yaml::encoding)."""
        f = self.file
        if f.startswith("src/"):
            f = f[4:]
        if f.endswith(".rs"):
            f = f[:-3]
        return f.replace("/", "::")

    # ---- CFG

    def edges(self, bb):
        """List of (label, target) for the out-edges of bb."""
        t = self.blocks[bb]["term"]
        k = t["k"]
        if k == "goto":
            return [("goto", t["target"])]
        if k == "switch":
            out = [(v, tgt) for v, tgt in t["targets"]]
            out.append(("otherwise", t["otherwise"]))
            return out
        if k == "call":
            out = []
            if t["target"] is not None:
                out.append(("ret", t["target"]))
            if isinstance(t.get("unwind"), int):
                out.append(("unwind", t["unwind"]))
            return out
        if k in ("assert", "drop"):
            return [("ok", t["target"])]
        return []

    def succ(self, bb):
        if self._succ is None:
            self._succ = [[t for _, t in self.edges(i)] for i in range(len(self.blocks))]
        return self._succ[bb]

    def pred(self, bb):
        if self._pred is None:
            p = [[] for _ in self.blocks]
            for i in range(len(self.blocks)):
                for s in self.succ(i):
                    p[s].append(i)
            self._pred = p
        return self._pred[bb]

    def reachable_from(self, start, removed_nodes=(), removed_edges=()):
        """Set of blocks reachable from `start` (inclusive) avoiding removed nodes/edges.
        removed_edges: iterable of (src, label, dst) or (src, dst)."""
        rn = set(removed_nodes)
        re2 = set()
        re3 = set()
        for e in removed_edges:
            if len(e) == 2:
                re2.add(tuple(e))
            else:
                re3.add(tuple(e))
        starts = start if isinstance(start, (list, set, tuple)) else [start]
        seen = set()
        stack = [s for s in starts if s not in rn]
        while stack:
            n = stack.pop()
            if n in seen:
                continue
            seen.add(n)
            for lab, t in self.edges(n):
                if t in rn or (n, t) in re2 or (n, lab, t) in re3:
                    continue
                if t not in seen:
                    stack.append(t)
        return seen

    def reach(self):
        if "entry" not in self._reach:
            self._reach["entry"] = self.reachable_from(0)
        return self._reach["entry"]

    def dominators(self):
        """dom[n] = set of blocks dominating n (including n), for reachable n."""
        if self._dom is not None:
            return self._dom
        nodes = sorted(self.reach())
        allset = set(nodes)
        dom = {n: set(allset) for n in nodes}
        dom[0] = {0}
        changed = True
        while changed:
            changed = False
            for n in nodes:
                if n == 0:
                    continue
                ps = [p for p in self.pred(n) if p in allset]
                new = set(allset)
                for p in ps:
                    new &= dom[p]
                new.add(n)
                if new != dom[n]:
                    dom[n] = new
                    changed = True
        self._dom = dom
        return dom

    def dominates(self, a, b):
        """Block a dominates block b (a == b counts)."""
        d = self.dominators()
        return b in d and a in d[b]

    def edge_dominates(self, src, label, dst, node):
        """Every path from entry to `node` takes edge src--label-->dst."""
        if node not in self.reach():
            return False
        return node not in self.reachable_from(0, removed_edges=[(src, label, dst)])

    def must_pass(self, start, targets, through):
        """Every path from `start` to any block in `targets` passes through a block in `through`
        (start itself in `through` counts)."""
        through = set(through)
        if start in through:
            return True
        r = self.reachable_from(start, removed_nodes=through)
        return not (r & set(targets))

    def on_cycle(self, bb):
        """bb lies on a CFG cycle."""
        for s in self.succ(bb):
            if bb in self.reachable_from(s):
                return True
        return False

    def back_edges(self):
        """Edges (u, v) where v dominates u."""
        out = []
        for u in self.reach():
            for v in self.succ(u):
                if self.dominates(v, u):
                    out.append((u, v))
        return out

    def live_in(self):
        """{bb: frozenset(locals possibly read on some path from the start of bb before being overwritten)}
        (classic backward liveness; a use through a projection or a borrow counts as a read of the base)."""
        if getattr(self, "_live", None) is not None:
            return self._live

        def op_locals(op, acc):
            if isinstance(op, dict) and op.get("k") in ("copy", "move"):
                acc.add(op["p"]["l"])
                for e in op["p"]["pr"]:
                    if e["k"] == "index":
                        acc.add(e["local"])

        def place_base(p, acc):
            acc.add(p["l"])
            for e in p["pr"]:
                if e["k"] == "index":
                    acc.add(e["local"])

        use, deff = {}, {}
        for bi, blk in enumerate(self.blocks):
            u, d = set(), set()
            for st in blk["stmts"]:
                acc = set()
                if st["k"] == "assign":
                    rv = st["rv"]
                    for key in ("op", "a", "b"):
                        if key in rv:
                            op_locals(rv[key], acc)
                    for o in rv.get("ops", []):
                        op_locals(o, acc)
                    if "p" in rv and isinstance(rv["p"], dict):
                        place_base(rv["p"], acc)
                    if st["p"]["pr"]:
                        place_base(st["p"], acc)
                elif st["k"] == "setdiscr":
                    place_base(st["p"], acc)
                u |= (acc - d)
                if st["k"] == "assign" and not st["p"]["pr"]:
                    d.add(st["p"]["l"])
            t = blk["term"]
            acc = set()
            k = t["k"]
            if k == "call":
                op_locals(t.get("func"), acc)
                for a in t["args"]:
                    op_locals(a, acc)
                if t["dest"]["pr"]:
                    place_base(t["dest"], acc)
            elif k == "switch":
                op_locals(t["discr"], acc)
            elif k == "assert":
                op_locals(t.get("cond"), acc)
            elif k == "drop":
                place_base(t["p"], acc)
            elif k == "return":
                acc.add(0)
            u |= (acc - d)
            if k == "call" and not t["dest"]["pr"]:
                d.add(t["dest"]["l"])
            use[bi], deff[bi] = u, d
        live = {bi: set() for bi in range(len(self.blocks))}
        changed = True
        while changed:
            changed = False
            for bi in range(len(self.blocks) - 1, -1, -1):
                out = set()
                for sx in self.succ(bi):
                    out |= live[sx]
                new = use[bi] | (out - deff[bi])
                if new != live[bi]:
                    live[bi] = new
                    changed = True
        self._live = {bi: frozenset(v) for bi, v in live.items()}
        return self._live

    def return_blocks(self):
        return [i for i in self.reach() if self.blocks[i]["term"]["k"] == "return"]

    # ---- calls

    def calls(self):
        """[(bb, term)] for every call terminator in reachable blocks."""
        return [(i, self.blocks[i]["term"]) for i in sorted(self.reach()) if self.blocks[i]["term"]["k"] == "call"]

    def calls_to(self, pred):
        out = []
        for bb, t in self.calls():
            f = t["func"]
            if f.get("k") == "fn" and pred(f):
                out.append((bb, t))
        return out

    # ---- def-use

    def defs(self):
        """local -> list of (bb, idx, kind, payload); idx = stmt index or 'term'."""
        if self._defs is not None:
            return self._defs
        d = defaultdict(list)
        for bi, blk in enumerate(self.blocks):
            for si, s in enumerate(blk["stmts"]):
                if s["k"] == "assign":
                    d[s["p"]["l"]].append((bi, si, "assign", s))
                elif s["k"] == "setdiscr":
                    d[s["p"]["l"]].append((bi, si, "setdiscr", s))
            t = blk["term"]
            if t["k"] == "call":
                d[t["dest"]["l"]].append((bi, "term", "call", t))
        self._defs = d
        return d

    def whole_defs(self, local):
        """Definitions that assign the whole local (no projection on the destination)."""
        out = []
        for bb, idx, kind, payload in self.defs().get(local, []):
            p = payload["p"] if kind != "call" else payload["dest"]
            if not p["pr"]:
                out.append((bb, idx, kind, payload))
        return out

    def local_ty(self, l):
        return self.locals[l]["ty"]

    def local_name(self, l):
        return self.locals[l].get("name")


# --------------------------------------------------------------------------- operands / tracing


def is_place(op):
    return op.get("k") in ("copy", "move")


def fn_of(term):
    f = term.get("func")
    if not f:
        return None
    return f if f.get("k") == "fn" else None


def callee(term):
    f = fn_of(term)
    return f["def"] if f else None


def callee_matches(term, *names):
    """Match by path suffix on either the declared or resolved callee."""
    f = fn_of(term)
    if not f:
        return False
    cands = [f["def"]]
    if f.get("resolved"):
        cands.append(f["resolved"])
    for n in names:
        for c in cands:
            if c == n or c.endswith("::" + n) or c.endswith(n):
                return True
    return False


# Callees that return (a view of / a conversion of) their first argument; used when tracing values
# back to their origin. Enumerated from what xt's code uses; each is a pure wrapper.
PASS_THROUGH = (
    "std::ops::Try>::branch",
    "std::ops::Deref>::deref",
    "std::ops::DerefMut>::deref_mut",
    "std::convert::Into<U>>::into",
    "std::convert::Into<",
    "std::convert::From<",
    "std::convert::AsRef<",
    "std::borrow::Borrow<",
    "std::string::String::as_bytes",
    "std::string::String::as_str",
    "core::str::<impl str>::as_bytes",
    "std::vec::Vec::<T, A>::as_slice",
    "std::option::Option::<T>::as_deref",
    "std::option::Option::<T>::as_ref",
    "std::option::Option::<T>::as_mut",
    "std::io::Read::by_ref",
    "std::clone::Clone>::clone",
    "std::iter::IntoIterator>::into_iter",
)


def is_pass_through(f, extra=()):
    d = f["def"]
    full = f.get("full", d)
    for p in PASS_THROUGH + tuple(extra):
        if p in d or p in full:
            return True
    return False


class Trace:
    """Result of tracing an operand back: `steps` (closest first) and `origin`."""

    def __init__(self):
        self.steps = []
        self.origin = None  # ('arg', n) | ('const', op) | ('call', bb, term) | ('agg', stmt) | ('multi', local) | ('other', x)

    def kinds(self):
        return [s[0] for s in self.steps]

    def has(self, kind):
        return any(s[0] == kind for s in self.steps)

    def calls(self):
        return [s[1] for s in self.steps if s[0] == "call"]

    def __repr__(self):
        return f"Trace(origin={self.origin!r}, steps={[s[0] + (':' + str(s[1]) if len(s) > 1 and isinstance(s[1], str) else '') for s in self.steps]})"


_GOOD_VARIANTS = {"Ok": ("Ok",), "Some": ("Some",), "Continue": ("Ok", "Some", "Continue"), "Err": ("Err",), "Break": ("Err", "None", "Break")}


def _variant_directed(steps, ds):
    """Among several definitions of a local, the single one that can yield the variant named by the nearest pending
    `downcast` step (looking back over plain moves and frame hops); None when no variant is pending or the choice
    is not unique."""
    want = None
    for st in reversed(steps):
        if st[0] in ("use", "enter_caller", "enter_callee"):
            continue
        if st[0] == "call" and st[1] == "std::ops::Try::branch":
            continue  # `?` keeps the variant: Continue(x) for Ok(x)/Some(x)
        if st[0] == "field":
            continue  # the `.0` that goes with the downcast
        if st[0] == "downcast":
            want = _GOOD_VARIANTS.get(st[1])
        break
    if not want:
        return None
    cands = []
    for d in ds:
        bb, idx, kind, payload = d
        if kind == "assign" and payload["rv"]["k"] == "aggregate" and payload["rv"].get("variant") is not None:
            if payload["rv"]["variant"] in want:
                cands.append(d)
            continue
        if kind == "call" and (fn_of(payload) or {}).get("def") == "std::ops::FromResidual::from_residual":
            if "Err" in want or "None" in want:
                cands.append(d)
            continue
        cands.append(d)  # anything else may yield any variant
    return cands[0] if len(cands) == 1 else None


def trace(body, op, passthrough_extra=(), through_calls=True, _depth=0, _tr=None):
    """Trace an operand (or a place dict with 'l') back to its origin through copies, moves,
    references, field projections, casts and pass-through calls."""
    tr = _tr or Trace()
    if _depth > 60:
        tr.origin = ("other", "depth")
        return tr
    if "l" in op and "k" not in op:
        place = op
    elif is_place(op):
        place = op["p"]
    elif op.get("k") in ("const", "fn"):
        tr.origin = ("const", op)
        return tr
    else:
        tr.origin = ("other", op)
        return tr
    for e in reversed(place["pr"]):
        k = e["k"]
        if k == "field":
            tr.steps.append(("field", e["name"], e.get("adt")))
        elif k == "downcast":
            tr.steps.append(("downcast", e["variant"]))
        elif k == "deref":
            tr.steps.append(("deref",))
        else:
            tr.steps.append((k,))
    l = place["l"]
    if 1 <= l <= body.nargs:
        tr.origin = ("arg", l)
        # arguments may still be reassigned, but xt never does; check
        if not body.whole_defs(l):
            return tr
    ds = body.whole_defs(l)
    if len(ds) == 0:
        if 1 <= l <= body.nargs:
            return tr
        # partial defs only (fields assigned separately)
        tr.origin = ("partial", l)
        return tr
    if len(ds) > 1:
        # several definitions. When the value is being read through `(x as V).0` (the nearest pending projection
        # names a variant), only a definition that can produce V can be its source: `_0 = Ok(t)` / `_0 = Err(e)` /
        # `_0 = from_residual(..)` read under `as Ok` comes from the first one
        sel = _variant_directed(tr.steps, ds)
        if sel is None:
            # drop flags and loop variables; report as multi
            tr.origin = ("multi", l, ds)
            return tr
        ds = [sel]
    bb, idx, kind, payload = ds[0]
    if kind == "call":
        f = fn_of(payload)
        if f and through_calls and is_pass_through(f, passthrough_extra) and payload["args"]:
            tr.steps.append(("call", f["def"], bb))
            return trace(body, payload["args"][0], passthrough_extra, through_calls, _depth + 1, tr)
        tr.origin = ("call", bb, payload)
        return tr
    if kind == "setdiscr":
        tr.origin = ("other", payload)
        return tr
    rv = payload["rv"]
    k = rv["k"]
    if k == "use":
        tr.steps.append(("use",))
        return trace(body, rv["op"], passthrough_extra, through_calls, _depth + 1, tr)
    if k in ("ref", "rawptr"):
        tr.steps.append(("ref",))
        return trace(body, rv["p"], passthrough_extra, through_calls, _depth + 1, tr)
    if k == "copyforderef":
        tr.steps.append(("use",))
        return trace(body, rv["p"], passthrough_extra, through_calls, _depth + 1, tr)
    if k == "cast":
        tr.steps.append(("cast", rv["cast"], rv["from_ty"], rv["ty"]))
        return trace(body, rv["op"], passthrough_extra, through_calls, _depth + 1, tr)
    if k == "aggregate":
        # a pending field projection selects one operand of a tuple / struct / variant aggregate
        st = tr.steps
        idx = None
        # the nearest projection still pending on the value, looking back over plain moves (and hops
        # into callers, which do not change the value)
        k_ = len(st) - 1
        open_refs = 0
        env_deref = None
        through_try = False
        while k_ >= 0:
            kind_ = st[k_][0]
            if kind_ in ("use", "enter_caller", "enter_callee"):
                k_ -= 1
            elif kind_ == "call" and st[k_][1] == "std::ops::Try::branch":
                # `?`: Continue(x) is the payload of Ok(x) / Some(x)
                through_try = True
                k_ -= 1
            elif kind_ == "ref":
                # `&x` taken closer to the origin ...
                open_refs += 1
                k_ -= 1
            elif kind_ == "deref" and open_refs > 0:
                # ... and dereferenced again closer to the use: the pair cancels
                open_refs -= 1
                k_ -= 1
            elif kind_ == "deref" and open_refs == 0 and rv["agg"] == "closure" and env_deref is None and k_ >= 1 and st[k_ - 1][0] == "field":
                # `(*_1).upvar` inside an Fn/FnMut closure body: the body sees its environment by reference, the
                # function that makes the closure holds it by value
                env_deref = k_
                k_ -= 1
            else:
                break
        if open_refs:
            k_ = -1
        name = None
        cut = None
        if k_ >= 0 and st[k_][0] == "field":
            name, cut = st[k_][1], (k_, k_ + 1)
        elif k_ >= 1 and st[k_][0] == "downcast" and st[k_ - 1][0] == "field" and (rv.get("variant") == st[k_][1] or (through_try and st[k_][1] == "Continue" and rv.get("variant") in ("Ok", "Some"))):
            name, cut = st[k_ - 1][1], (k_ - 1, k_ + 1)
        if name is not None:
            if rv["agg"] == "tuple" and name.isdigit() and int(name) < len(rv["ops"]):
                idx = int(name)
            elif rv["agg"] == "adt" and name in rv.get("fields", []):
                idx = rv["fields"].index(name)
            elif rv["agg"] == "closure":
                cb = body.crate.by_id.get(rv.get("closure"))
                ups = (cb.raw.get("upvars") or []) if cb else []
                if name in ups and ups.index(name) < len(rv["ops"]):
                    idx = ups.index(name)
                elif name.isdigit() and int(name) < len(rv["ops"]):
                    idx = int(name)
        if idx is not None:
            if env_deref is not None and env_deref >= cut[1]:
                del st[env_deref]
            del st[cut[0]:cut[1]]
            st.append(("agg_field", name))
            return trace(body, rv["ops"][idx], passthrough_extra, through_calls, _depth + 1, tr)
        tr.origin = ("agg", payload, bb)
        return tr
    if k == "discr":
        tr.steps.append(("discr",))
        return trace(body, rv["p"], passthrough_extra, through_calls, _depth + 1, tr)
    tr.origin = ("rvalue", payload, bb)
    return tr


def const_value(op):
    """Scalar value of a constant operand, or None."""
    if op.get("k") != "const":
        return None
    if "v" in op:
        return op["v"]
    if "str" in op:
        return op["str"]
    return None


def uses_of_local(body, local):
    """All (bb, idx, how) where `local` is read: how in {'stmt','callarg','callfunc','switch','assert','drop','ret'}."""
    out = []

    def op_mentions(op):
        return is_place(op) and op["p"]["l"] == local

    def place_mentions(p):
        if p["l"] == local:
            return True
        return any(e["k"] == "index" and e["local"] == local for e in p["pr"])

    def rv_mentions(rv):
        k = rv["k"]
        if k in ("use", "repeat"):
            return op_mentions(rv["op"])
        if k in ("ref", "rawptr", "discr", "copyforderef"):
            return place_mentions(rv["p"])
        if k == "cast":
            return op_mentions(rv["op"])
        if k == "binop":
            return op_mentions(rv["a"]) or op_mentions(rv["b"])
        if k == "unop":
            return op_mentions(rv["a"])
        if k == "aggregate":
            return any(op_mentions(o) for o in rv["ops"])
        return False

    for bi, blk in enumerate(body.blocks):
        for si, s in enumerate(blk["stmts"]):
            if s["k"] == "assign":
                if rv_mentions(s["rv"]):
                    out.append((bi, si, "stmt"))
                elif s["p"]["l"] == local and s["p"]["pr"]:
                    pass
        t = blk["term"]
        if t["k"] == "call":
            for ai, a in enumerate(t["args"]):
                if op_mentions(a):
                    out.append((bi, "term", ("callarg", ai)))
            if op_mentions(t["func"]):
                out.append((bi, "term", "callfunc"))
        elif t["k"] == "switch" and op_mentions(t["discr"]):
            out.append((bi, "term", "switch"))
        elif t["k"] == "assert" and op_mentions(t["cond"]):
            out.append((bi, "term", "assert"))
        elif t["k"] == "drop" and t["p"]["l"] == local:
            out.append((bi, "term", "drop"))
    if local == 0:
        pass
    return out


def forward_flows(body, local, max_steps=200):
    """Locals that (transitively) receive the value of `local` through use/ref/cast/pass-through
    calls/field projections. Returns dict local -> list of step kinds."""
    seen = {local: []}
    work = [local]
    steps = 0
    while work and steps < max_steps:
        steps += 1
        l = work.pop()
        for bi, blk in enumerate(body.blocks):
            for s in blk["stmts"]:
                if s["k"] != "assign" or s["p"]["pr"]:
                    continue
                rv = s["rv"]
                src = None
                kind = rv["k"]
                if kind in ("use", "cast") and is_place(rv["op"]):
                    src = rv["op"]["p"]["l"]
                elif kind in ("ref", "rawptr", "copyforderef", "discr"):
                    src = rv["p"]["l"]
                if src == l and s["p"]["l"] not in seen:
                    seen[s["p"]["l"]] = seen[l] + [kind]
                    work.append(s["p"]["l"])
            t = blk["term"]
            if t["k"] == "call":
                f = fn_of(t)
                if f and is_pass_through(f) and t["args"] and is_place(t["args"][0]) and t["args"][0]["p"]["l"] == l:
                    d = t["dest"]["l"]
                    if not t["dest"]["pr"] and d not in seen:
                        seen[d] = seen[l] + ["call:" + f["def"]]
                        work.append(d)
    return seen


# --------------------------------------------------------------------------- switch helpers


def enum_edge(body, sb, idx):
    """Edge (src, label, dst) taken by variant `idx` of a two-variant enum (Option / Result / ControlFlow)
    at the discriminant switch in block sb: its explicit target, or the otherwise edge when only the other
    variant is listed (`if let` / `let else` lower to `[1 -> .., otherwise -> ..]`). None if undecidable."""
    t = body.blocks[sb]["term"]
    if t["k"] != "switch":
        return None
    tg = dict((v, x) for v, x in t["targets"])
    if idx in tg:
        return (sb, idx, tg[idx])
    if (1 - idx) in tg and body.blocks[t["otherwise"]]["term"]["k"] != "unreachable":
        return (sb, "otherwise", t["otherwise"])
    return None


def switch_on(body, bb):
    """For a switch terminator, trace its discriminant: returns (trace, term)."""
    t = body.blocks[bb]["term"]
    if t["k"] != "switch":
        return None, t
    return trace(body, t["discr"]), t


def result_variant_edges(body, bb):
    """If bb switches on the discriminant of a Result/ControlFlow/Option-like local, return
    {variant_index: target}, with 'otherwise' included."""
    t = body.blocks[bb]["term"]
    if t["k"] != "switch":
        return None
    out = {v: tgt for v, tgt in t["targets"]}
    out["otherwise"] = t["otherwise"]
    return out


# --------------------------------------------------------------------------- interprocedural supergraph


CLOSURE_CALLS = ("std::ops::FnOnce::call_once", "std::ops::FnMut::call_mut", "std::ops::Fn::call")


class Super:
    """Context-sensitive inlined view of a root body and its same-crate callees.

    Nodes are (path, bb); `path` is a tuple of call sites ((body_id, bb), ...) leading from the root
    body to the body the block belongs to. Calls to same-crate functions (resolved through type
    information) are followed up to `depth`; recursion is cut (the call is treated as opaque).
    Closures: a call of `FnOnce::call_once` & co. on a type parameter inside a callee that was
    entered with exactly one closure among its generic arguments is bound to that closure; a foreign
    higher-order call that receives a local closure may or may not run it (both edges exist).
    """

    def __init__(self, crate, root, depth=3, follow=None):
        self.crate = crate
        self.root = root
        self.depth = depth
        self.follow = follow or (lambda f: True)
        self.entry = ((), 0)
        self._edges = {}

    def body_of(self, node):
        path, _ = node
        if not path:
            return self.root
        return self._callee_body(path[-1])

    def _callee_body(self, callsite):
        caller_id, bb, callee_id = callsite
        return self.crate.by_id[callee_id]

    def _local_target(self, node, term):
        """Body id to inline for this call terminator, or None."""
        f = fn_of(term)
        if not f:
            return None
        path, _ = node
        if len(path) >= self.depth:
            return None
        cand = None
        for key in ("resolved", "def"):
            d = f.get(key)
            if d and d in self.crate.by_id:
                cand = d
                break
        if cand is None and f["def"] in CLOSURE_CALLS:
            # closure bound through the enclosing call's generic arguments
            if path:
                caller_id, cbb, callee_id = path[-1]
                caller_body = self.crate.by_id.get(caller_id) or self.root
                if caller_id == self.root.id:
                    caller_body = self.root
                cterm = caller_body.blocks[cbb]["term"]
                cf = fn_of(cterm)
                cl = (cf or {}).get("closures", [])
                if len(cl) == 1 and cl[0] in self.crate.by_id and "closure" not in f.get("self_ty", ""):
                    cand = cl[0]
        if cand is None:
            return None
        # recursion cut
        if cand == self.root.id or any(cs[2] == cand for cs in path):
            return None
        if not self.follow(f):
            return None
        return cand

    def _inherited_closures(self, node, term):
        """Closures that reach a foreign higher-order call through a type parameter of the enclosing
        (inlined) function: an argument of the call is a parameter of the current body whose caller-side
        operand has a closure type (`fn helper<F: FnOnce(..)>(.., f: F) { x.map_err(f) }`)."""
        path, _ = node
        body = self.body_of(node)
        out = []
        for a in term["args"]:
            if not is_place(a) or a["p"]["pr"]:
                continue
            ty = body.local_ty(a["p"]["l"])
            if not re.match(r"^[A-Z][A-Za-z0-9]*$", ty):
                continue  # not a bare type parameter
            tr = trace(body, a)
            if not (tr.origin and tr.origin[0] == "arg" and all(s_[0] == "use" for s_ in tr.steps)):
                continue
            cur_path, param = path, tr.origin[1]
            for _ in range(4):
                if not cur_path:
                    break
                res = self.caller_operand((cur_path, 0), param)
                if not res:
                    break
                (ppath, cbb), caller, cop = res
                if not is_place(cop):
                    break
                cty = caller.local_ty(cop["p"]["l"])
                m = re.search(r"\{closure@", cty)
                if m:
                    cterm = caller.blocks[cbb]["term"]
                    cl = [c for c in (fn_of(cterm) or {}).get("closures", []) if c in self.crate.by_id]
                    # the closure built in the caller: match by the aggregate that defines the operand
                    ctr = trace(caller, cop)
                    if ctr.origin and ctr.origin[0] == "agg" and ctr.origin[1]["rv"].get("agg") == "closure" and ctr.origin[1]["rv"].get("closure") in self.crate.by_id:
                        out.append(ctr.origin[1]["rv"]["closure"])
                    elif len(cl) == 1:
                        out.append(cl[0])
                    break
                if re.match(r"^[A-Z][A-Za-z0-9]*$", cty):
                    ctr = trace(caller, cop)
                    if ctr.origin and ctr.origin[0] == "arg" and all(s_[0] == "use" for s_ in ctr.steps):
                        cur_path, param = ppath, ctr.origin[1]
                        continue
                break
        return out

    def edges(self, node):
        if node in self._edges:
            return self._edges[node]
        path, bb = node
        body = self.body_of(node)
        t = body.blocks[bb]["term"]
        out = []
        if t["k"] == "call":
            tgt = self._local_target(node, t)
            if tgt is not None:
                out.append(("call", (path + ((body.id, bb, tgt),), 0)))
            else:
                f = fn_of(t)
                # foreign higher-order function receiving local closures: may run them
                cls = [c for c in (f or {}).get("closures", []) if c in self.crate.by_id] if f else []
                # a same-crate function handed over by name (`.map_err(source_failure)`) runs like a closure
                if f and not f.get("local"):
                    cls += [a["def"] for a in t["args"] if a.get("k") == "fn" and a.get("def") in self.crate.by_id and a["def"] not in cls]
                if f and not cls and path:
                    cls = self._inherited_closures(node, t)
                if cls and len(path) < self.depth and f["def"] not in CLOSURE_CALLS:
                    for c in cls:
                        if c != self.root.id and not any(cs[2] == c for cs in path):
                            out.append(("maycall", (path + ((body.id, bb, c),), 0)))
                for lab, x in body.edges(bb):
                    out.append((lab, (path, x)))
        elif t["k"] == "return" and path:
            caller_id, cbb, _ = path[-1]
            ppath = path[:-1]
            caller = self.body_of((ppath, 0)) if ppath else self.root
            ct = caller.blocks[cbb]["term"]
            if ct["target"] is not None:
                out.append(("ret", (ppath, ct["target"])))
        else:
            for lab, x in body.edges(bb):
                out.append((lab, (path, x)))
        self._edges[node] = out
        return out

    def reachable_from(self, start, removed_nodes=(), removed_edges=()):
        rn = set(removed_nodes)
        re_ = set(removed_edges)
        starts = start if isinstance(start, (list, set)) else [start]
        seen = set()
        stack = [s for s in starts if s not in rn]
        while stack:
            n = stack.pop()
            if n in seen:
                continue
            seen.add(n)
            for lab, m in self.edges(n):
                if m in rn or (n, m) in re_ or (n, lab, m) in re_:
                    continue
                if m not in seen:
                    stack.append(m)
        return seen

    def nodes(self):
        return self.reachable_from(self.entry)

    def dominates(self, a, b):
        if a == b:
            return True
        return b not in self.reachable_from(self.entry, removed_nodes=[a])

    def edge_dominates(self, src, label, dst, node):
        return node not in self.reachable_from(self.entry, removed_edges=[(src, label, dst)])

    def must_pass(self, start, targets, through):
        through = set(through)
        if start in through:
            return True
        r = self.reachable_from(start, removed_nodes=through)
        return not (r & set(targets))

    def on_cycle(self, node):
        for _, s in self.edges(node):
            if node in self.reachable_from(s):
                return True
        return False

    def calls(self):
        """[(node, body, term)] for all call terminators in the supergraph."""
        out = []
        for n in sorted(self.nodes(), key=lambda x: (len(x[0]), str(x))):
            b = self.body_of(n)
            t = b.blocks[n[1]]["term"]
            if t["k"] == "call":
                out.append((n, b, t))
        return out

    def exits(self):
        """Root-level return nodes."""
        return [n for n in self.nodes() if not n[0] and self.root.blocks[n[1]]["term"]["k"] == "return"]

    def site(self, node):
        return site(self.body_of(node), node[1])

    def caller_operand(self, node, arg_local):
        """For a node inside an inlined callee, the caller-side operand bound to argument `arg_local`
        (1-based), with the caller node. Closure bodies: argument 1 is the environment."""
        path, _ = node
        if not path:
            return None
        caller_id, cbb, callee_id = path[-1]
        ppath = path[:-1]
        caller = self.body_of((ppath, 0)) if ppath else self.root
        ct = caller.blocks[cbb]["term"]
        args = ct["args"]
        cf = fn_of(ct) or {}
        if cf.get("def") in CLOSURE_CALLS and arg_local >= 2 and len(args) == 2 and is_place(args[1]):
            # `FnOnce::call_once(closure, (a, b))`: the closure's k-th parameter is element k-2 of the tuple
            tup = args[1]["p"]
            op = {"k": "move", "p": {"l": tup["l"], "pr": list(tup["pr"]) + [{"k": "field", "i": arg_local - 2, "name": str(arg_local - 2), "ty": "?"}], "ty": "?"}}
            return (ppath, cbb), caller, op
        # a closure (or a function passed by name) run by a std combinator on one variant of its receiver:
        # its value parameter is that variant's payload (`r.map_err(|e| ..)`: e = (r as Err).0)
        pv = COMBINATOR_PAYLOAD.get(cf.get("def"))
        callee = self.crate.by_id.get(callee_id)
        if pv is not None and callee is not None and args and is_place(args[0]) and not any(lab == "call" for lab, m in self.edges((ppath, cbb)) if m[0] == path):
            first = 2 if callee.raw["def_kind"] == "Closure" else 1
            if arg_local == first:
                rp = args[0]["p"]
                op = {"k": "move", "p": {"l": rp["l"], "pr": list(rp["pr"]) + [{"k": "downcast", "variant": pv[0], "idx": pv[1]}, {"k": "field", "i": 0, "name": "0", "ty": "?"}], "ty": "?"}}
                return (ppath, cbb), caller, op
            if arg_local == 1 and first == 2:
                # the closure's environment: the closure value handed to the combinator
                for a in args[1:]:
                    if is_place(a) and "{closure@" in caller.local_ty(a["p"]["l"]):
                        return (ppath, cbb), caller, a
            return None
        if callee is not None and callee.raw["def_kind"] == "Closure" and cf.get("def") not in CLOSURE_CALLS and (cf.get("resolved") or cf.get("def")) != callee_id:
            # a closure run by some other higher-order function (`iter.try_fold(init, |acc, x| ..)`): its environment is
            # the closure value among the call's arguments; what its value parameters receive is the callee's business
            if arg_local == 1:
                cands = [a for a in args if is_place(a) and "{closure@" in caller.local_ty(a["p"]["l"])]
                if len(cands) > 1:
                    named = []
                    for a in cands:
                        tr_ = trace(caller, a)
                        if tr_.origin and tr_.origin[0] == "agg" and tr_.origin[1]["rv"].get("def") == callee_id:
                            named.append(a)
                    cands = named
                if len(cands) == 1:
                    return (ppath, cbb), caller, cands[0]
            return None
        if 1 <= arg_local <= len(args):
            return (ppath, cbb), caller, args[arg_local - 1]
        return None


# combinator -> (variant name, index) of the receiver whose payload the closure receives
COMBINATOR_PAYLOAD = {
    "std::result::Result::<T, E>::map_err": ("Err", 1),
    "std::result::Result::<T, E>::or_else": ("Err", 1),
    "std::result::Result::<T, E>::unwrap_or_else": ("Err", 1),
    "std::result::Result::<T, E>::inspect_err": ("Err", 1),
    "std::result::Result::<T, E>::map": ("Ok", 0),
    "std::result::Result::<T, E>::and_then": ("Ok", 0),
    "std::result::Result::<T, E>::inspect": ("Ok", 0),
    "std::option::Option::<T>::map": ("Some", 1),
    "std::option::Option::<T>::and_then": ("Some", 1),
    "std::option::Option::<T>::filter": ("Some", 1),
    "std::result::Result::<T, E>::is_err_and": ("Err", 1),
    "std::result::Result::<T, E>::is_ok_and": ("Ok", 0),
    "std::option::Option::<T>::is_some_and": ("Some", 1),
    "std::option::Option::<T>::is_none_or": ("Some", 1),
}


# --------------------------------------------------------------------------- path-sensitive reachability


def _err_ty(ty):
    """E of `Result<_, E>` (last top-level generic argument), or None."""
    if not ty.startswith("std::result::Result<"):
        return None
    inner = ty[len("std::result::Result<"):-1]
    depth = 0
    cut = None
    for i_, ch in enumerate(inner):
        if ch in "<([":
            depth += 1
        elif ch in ">)]":
            depth -= 1
        elif ch == "," and depth == 0:
            cut = i_
    return inner[cut + 1:].strip() if cut is not None else None


def _try_kind(f):
    """'result' / 'option' / 'controlflow' for Try::branch / from_residual callee by its Self type."""
    st = f.get("self_ty", "")
    if st.startswith("std::result::Result<"):
        return "result"
    if st.startswith("std::option::Option<"):
        return "option"
    if st.startswith("std::ops::ControlFlow<"):
        return "controlflow"
    return None


# def -> (variant index of the receiver on which the closure runs, 'replaces' when the call then yields
# the closure's value / 'maps' when control also continues normally). Result: Ok=0 Err=1; Option: None=0 Some=1.
CLOSURE_RUNS_ON = {
    "std::result::Result::<T, E>::unwrap_or_else": (1, "replaces"),
    "std::result::Result::<T, E>::or_else": (1, "replaces"),
    "std::result::Result::<T, E>::map_err": (1, "replaces"),
    "std::result::Result::<T, E>::map": (0, "replaces"),
    "std::result::Result::<T, E>::and_then": (0, "replaces"),
    "std::option::Option::<T>::unwrap_or_else": (0, "replaces"),
    "std::option::Option::<T>::or_else": (0, "replaces"),
    "std::option::Option::<T>::ok_or_else": (0, "replaces"),
    "std::option::Option::<T>::map": (1, "replaces"),
    "std::option::Option::<T>::and_then": (1, "replaces"),
    "std::option::Option::<T>::filter": (1, "replaces"),
    "std::result::Result::<T, E>::is_err_and": (1, "replaces"),
    "std::result::Result::<T, E>::is_ok_and": (0, "replaces"),
    "std::option::Option::<T>::is_some_and": (1, "replaces"),
    "std::option::Option::<T>::is_none_or": (1, "replaces"),
    # `cond.then(|| ..)`: the closure runs exactly when the receiver is true
    "core::bool::<impl bool>::then": (1, "replaces"),
    "std::bool::<impl bool>::then": (1, "replaces"),
}


# combinators with one closure per variant of the receiver, by position among the call's closures:
# `opt.map_or_else(|| on_none, |x| on_some)`, `res.map_or_else(|e| on_err, |v| on_ok)`
CLOSURE_PAIR_RUNS_ON = {
    "std::option::Option::<T>::map_or_else": (0, 1),
    "std::result::Result::<T, E>::map_or_else": (1, 0),
}


def body_ty_is_bool(rv):
    """The operand of a unary `Not` is a bool (not an integer being complemented)."""
    a = rv.get("a") or {}
    if a.get("k") == "const":
        return a.get("ty") == "bool"
    return is_place(a) and a["p"].get("ty") == "bool"


# unwrapping calls: the result is the payload of Ok / Some (when the fallback, if any, does not run)
_UNWRAPS = (
    "std::result::Result::<T, E>::unwrap", "std::result::Result::<T, E>::expect", "std::result::Result::<T, E>::unwrap_or_else",
    "std::result::Result::<T, E>::unwrap_or", "std::result::Result::<T, E>::unwrap_or_default",
    "std::option::Option::<T>::unwrap", "std::option::Option::<T>::expect", "std::option::Option::<T>::unwrap_or_else",
    "std::option::Option::<T>::unwrap_or", "std::option::Option::<T>::unwrap_or_default",
)

# `is_err_and(f)` & co.: the answer when the closure does not run
_VARIANT_AND_TESTS = {
    "std::result::Result::<T, E>::is_err_and": 0,
    "std::result::Result::<T, E>::is_ok_and": 0,
    "std::option::Option::<T>::is_some_and": 0,
    "std::option::Option::<T>::is_none_or": 1,
}

# `&self -> bool` tests of the variant: definition -> the variant index they answer true for
_VARIANT_TESTS = {
    "std::result::Result::<T, E>::is_ok": 0,
    "std::result::Result::<T, E>::is_err": 1,
    "std::option::Option::<T>::is_none": 0,
    "std::option::Option::<T>::is_some": 1,
}


class PathSens:
    """Variant/constant-aware reachability over a Super graph.

    Tracks, per (context, local), a known enum variant index or scalar constant, plus
    'discriminant-of' links so that a switch edge refines the scrutinised local. Only infeasible
    paths are pruned (a `?` after an `Err` return cannot continue on the `Continue` edge), so every
    'unreachable' verdict is sound with respect to the path-insensitive graph.
    """

    MAX_STATES = 60000

    def __init__(self, sup, payloads=False):
        self.sup = sup
        self.overflow = False
        # also track the variant of the single payload of a value whose own variant is known
        # (`Err(None)` vs `Err(Some(_))`); off by default: it multiplies the number of states
        self.payloads = payloads
        # node -> (fact, payload_fact): assumed result of the (opaque) call at that node
        self.assume = {}
        self._rinfo = {}
        self._from_impls = None

    # facts: dict key=(path, local) -> ('var', idx) | ('const', v) | ('discr_of', key)

    def _peekables(self, body):
        c = getattr(self, "_pk_cache", None)
        if c is None:
            c = self._pk_cache = {}
        if body.id not in c:
            c[body.id] = frozenset(l for l in range(len(body.raw["locals"])) if body.local_ty(l).startswith("std::iter::Peekable<"))
        return c[body.id]

    @staticmethod
    def _root_local(body, op):
        """The local a (re)borrowed operand refers to: `&mut it`, `&mut *r` with r = &mut it, or `it` itself."""
        cur = op
        for _ in range(6):
            if not is_place(cur):
                return None
            p_ = cur["p"]
            if p_["pr"] and not all(e["k"] == "deref" for e in p_["pr"]):
                return None
            l = p_["l"]
            ds = body.whole_defs(l)
            if len(ds) == 1 and ds[0][2] == "assign" and ds[0][3]["rv"]["k"] == "ref":
                cur = {"k": "copy", "p": {"l": ds[0][3]["rv"]["p"]["l"], "pr": [e for e in ds[0][3]["rv"]["p"]["pr"] if e["k"] != "deref"]}}
                if ds[0][3]["rv"]["p"]["pr"] and not all(e["k"] == "deref" for e in ds[0][3]["rv"]["p"]["pr"]):
                    return None
                continue
            if len(ds) == 1 and ds[0][2] == "assign" and ds[0][3]["rv"]["k"] == "use" and is_place(ds[0][3]["rv"]["op"]) and body.local_ty(l).startswith("&"):
                cur = ds[0][3]["rv"]["op"]
                continue
            return l
        return None

    @staticmethod
    def _pk(key):
        return (key[0], key[1], "p")

    @staticmethod
    def _ppk(key):
        return (key[0], key[1], "pp")

    def _clear(self, facts, key):
        facts.pop(key, None)
        facts.pop(self._pk(key), None)
        facts.pop(self._ppk(key), None)

    def _deref(self, facts, key):
        """Follow shared-reference links: the key whose facts describe what `key` points to."""
        for _ in range(4):
            f = facts.get(key)
            if f and f[0] == "ref_of":
                key = f[1]
            else:
                break
        return key

    def _operand_fact(self, facts, path, op):
        """(fact, payload_fact, payload_of_payload_fact) of an operand; unknown parts are None."""
        if op.get("k") == "const":
            v = op.get("v")
            if isinstance(v, (bool, int)):
                return ("const", int(v)), None, None
            return None, None, None
        if is_place(op):
            pr = [e for e in op["p"]["pr"]]
            src = (path, op["p"]["l"])
            # look through shared references: `(*r)` where r = &x
            while pr and pr[0]["k"] == "deref":
                tgt = self._deref(facts, src)
                if tgt == src:
                    return None, None, None
                src = tgt
                pr = pr[1:]
            if not pr:
                f = facts.get(src)
                if f and f[0] not in ("discr_of",):
                    return f, facts.get(self._pk(src)), facts.get(self._ppk(src))
                return None, None, None
            # `(Y as V).0`: the payload of a value whose variant is known to be V
            if len(pr) == 2 and pr[0]["k"] == "downcast" and pr[1]["k"] == "field" and pr[1].get("i", 0) == 0:
                f = facts.get(src)
                if f and f[0] == "var" and f[1] == pr[0]["idx"]:
                    return facts.get(self._pk(src)), facts.get(self._ppk(src)), None
        return None, None, None

    def _set_from_operand(self, facts, key, path, op):
        f, pf, ppf = self._operand_fact(facts, path, op)
        # a moved-from local is dead: forgetting its facts keeps the state space small
        if op.get("k") == "move" and is_place(op) and not op["p"]["pr"] and (path, op["p"]["l"]) != key:
            src = (path, op["p"]["l"])
            if not any(v[0] in ("discr_of", "ref_of", "test_of", "peek_of") and v[1] == src for v in facts.values()):
                self._clear(facts, src)
        self._clear(facts, key)
        if f is not None:
            facts[key] = f
        if self.payloads:
            if pf is not None:
                facts[self._pk(key)] = pf
            if ppf is not None:
                facts[self._ppk(key)] = ppf

    def _stmt(self, facts, path, s):
        if s["k"] == "setdiscr":
            key = (path, s["p"]["l"])
            self._clear(facts, key)
            if not s["p"]["pr"]:
                facts[key] = ("var", s["idx"])
            return
        if s["k"] != "assign":
            return
        p = s["p"]
        key = (path, p["l"])
        rv = s["rv"]
        # invalidate discr_of links pointing to an overwritten local
        if p["pr"]:
            self._clear(facts, key)
            return
        k = rv["k"]
        if k == "aggregate" and rv["agg"] == "adt":
            pf = ppf = None
            if len(rv["ops"]) == 1:
                pf, ppf, _ = self._operand_fact(facts, path, rv["ops"][0])
            self._clear(facts, key)
            facts[key] = ("var", rv["variant_idx"])
            if pf is not None and pf[0] in ("var", "const") and self.payloads:
                facts[self._pk(key)] = pf
                if ppf is not None:
                    facts[self._ppk(key)] = ppf
        elif k == "use":
            self._set_from_operand(facts, key, path, rv["op"])
        elif k == "discr":
            sp = rv["p"]
            self._clear(facts, key)
            if not sp["pr"]:
                skey = (path, sp["l"])
                if skey in facts and facts[skey][0] == "var":
                    facts[key] = ("const", facts[skey][1])
                elif skey in facts and facts[skey][0] == "notvar":
                    facts[key] = ("discr_of", skey, facts[skey][1])
                else:
                    facts[key] = ("discr_of", skey)
            else:
                f, _, _ = self._operand_fact(facts, path, {"k": "copy", "p": sp})
                if f and f[0] == "var":
                    facts[key] = ("const", f[1])
                elif all(e["k"] == "deref" for e in sp["pr"]):
                    # `match *self` with the variant still unknown: branching on it settles the variant of what the
                    # shared reference points to (in the caller's frame, for a `&self` method)
                    tgt = (path, sp["l"])
                    for _ in sp["pr"]:
                        t2 = self._deref(facts, tgt)
                        if t2 == tgt:
                            tgt = None
                            break
                        tgt = t2
                    if tgt is not None:
                        if tgt in facts and facts[tgt][0] == "notvar":
                            facts[key] = ("discr_of", tgt, facts[tgt][1])
                        elif tgt not in facts:
                            facts[key] = ("discr_of", tgt)
        elif k == "unop" and rv.get("op") == "Not" and body_ty_is_bool(rv):
            f, _, _ = self._operand_fact(facts, path, rv["a"])
            self._clear(facts, key)
            if f is not None and f[0] == "const" and f[1] in (0, 1):
                facts[key] = ("const", 1 - f[1])
        elif k == "ref" and rv.get("mut") and not rv["p"]["pr"]:
            self._clear(facts, (path, rv["p"]["l"]))
            self._clear(facts, key)
        elif k == "ref" and not rv.get("mut") and self.payloads:
            # shared borrow: remember what it points to (`match *self` in a `&self` method)
            self._clear(facts, key)
            tp = rv["p"]
            tgt = (path, tp["l"])
            pr = list(tp["pr"])
            while pr and pr[0]["k"] == "deref":
                t2 = self._deref(facts, tgt)
                if t2 == tgt:
                    tgt = None
                    break
                tgt = t2
                pr = pr[1:]
            if tgt is not None and not pr and tgt != key:
                facts[key] = ("ref_of", tgt)
        else:
            self._clear(facts, key)

    def _kill_links(self, facts, key):
        for k2, v in list(facts.items()):
            if v[0] == "discr_of" and v[1] == key:
                del facts[k2]

    def _from_variant(self, src_ty, dst_ty):
        """Variant index that a same-crate `impl From<src_ty> for dst_ty` always builds (`Self::Usage(err)`), or
        None: what `?` / `.into()` turn an error of type src_ty into."""
        if self._from_impls is None:
            self._from_impls = {}
            for b in self.sup.crate.bodies:
                if b.raw.get("impl_trait") == "std::convert::From" and b.name == "from" and b.nargs == 1:
                    vs = set()
                    for _, _, k_, p_ in b.whole_defs(0):
                        if k_ == "assign" and p_["rv"]["k"] == "aggregate" and p_["rv"].get("agg") == "adt":
                            vs.add(p_["rv"].get("variant_idx"))
                        else:
                            vs.add(None)
                    if len(vs) == 1 and None not in vs:
                        self._from_impls[(b.local_ty(1), b.local_ty(0))] = vs.pop()
        return self._from_impls.get((src_ty, dst_ty))

    def _from_variant_map(self, src_ty, dst_ty):
        """{source variant index: destination variant index} for a same-crate `impl From<src_ty> for dst_ty` that maps
        each variant of its argument to one variant of the result (`Some(f) => Source::Known(f), None =>
        Source::Detect`), found by exploring the impl's body once per source variant; {} when there is none."""
        cache = getattr(self, "_from_maps", None)
        if cache is None:
            cache = self._from_maps = {}
        key = (src_ty, dst_ty)
        if key in cache:
            return cache[key]
        cache[key] = {}
        for b in self.sup.crate.bodies:
            if not (b.raw.get("impl_trait") == "std::convert::From" and b.name == "from" and b.nargs == 1 and b.local_ty(1) == src_ty and b.local_ty(0) == dst_ty):
                continue
            if src_ty.startswith("std::option::Option<") or src_ty.startswith("std::result::Result<"):
                nvar = 2
            else:
                a = self.sup.crate.adts.get(src_ty.split("<")[0])
                nvar = len(a["variants"]) if a and a.get("kind") == "enum" else 0
            if not 1 <= nvar <= 6:
                break
            sub = Super(self.sup.crate, b, depth=1)
            out = {}
            for i in range(nvar):
                ps2 = PathSens(sub)
                reached = ps2.explore([(sub.entry, {((), 1): ("var", i)})])
                got = set()
                for rn in reached:
                    if rn[0] or b.blocks[rn[1]]["term"]["k"] != "return":
                        continue
                    for st in reached[rn]:
                        f_end = dict(st)
                        for s_ in b.blocks[rn[1]]["stmts"]:
                            ps2._stmt(f_end, (), s_)
                        got.add(f_end.get(((), 0)))
                if len(got) == 1 and None not in got and next(iter(got))[0] == "var" and not ps2.overflow:
                    out[i] = next(iter(got))[1]
            cache[key] = out
            break
        return cache[key]

    def _replace_info(self, body):
        """(targets, refs) for the `mem::replace(&mut X, v)` / `mem::take(&mut X)` calls of a body whose first
        argument is a fresh exclusive borrow of a plain local X made for that call alone (`r1 = &mut X;
        r = &mut *r1; replace(move r, v)`): targets = {bb: X}; refs = the borrow locals, whose creation does
        not make X's value unknown because the call is their only use."""
        info = self._rinfo.get(body.id)
        if info is not None:
            return info
        targets, refs = {}, set()
        for bb, t in body.calls():
            f = fn_of(t) or {}
            if f.get("def") not in ("std::mem::replace", "std::mem::take") or not t["args"]:
                continue
            a = t["args"][0]
            if not is_place(a) or a["p"]["pr"]:
                continue
            chain = []
            cur = a["p"]["l"]
            x = None
            for _ in range(3):
                uses = uses_of_local(body, cur)
                ds = body.whole_defs(cur)
                if len(uses) != 1 or len(ds) != 1 or ds[0][2] != "assign" or ds[0][0] != bb:
                    break
                rv = ds[0][3]["rv"]
                if rv["k"] != "ref" or not rv.get("mut"):
                    break
                chain.append(cur)
                pr = rv["p"]["pr"]
                if not pr:
                    x = rv["p"]["l"]
                    break
                if len(pr) == 1 and pr[0]["k"] == "deref":
                    cur = rv["p"]["l"]
                    continue
                break
            if x is not None and x not in chain:
                targets[bb] = x
                refs |= set(chain)
        info = (targets, refs)
        self._rinfo[body.id] = info
        return info

    def step(self, node, facts):
        """Yield (label, succ, facts') for a state at the *start* of node."""
        sup = self.sup
        path, bb = node
        body = sup.body_of(node)
        blk = body.blocks[bb]
        facts = dict(facts)
        rtargets, rrefs = self._replace_info(body)
        for s in blk["stmts"]:
            if s["k"] in ("assign", "setdiscr"):
                self._kill_links(facts, (path, s["p"]["l"]))
            if rrefs and s["k"] == "assign" and not s["p"]["pr"] and s["p"]["l"] in rrefs:
                # exclusive borrow used only by a modelled mem::replace/take: the target keeps its facts
                self._clear(facts, (path, s["p"]["l"]))
                continue
            self._stmt(facts, path, s)
        t = blk["term"]
        k = t["k"]
        out = []
        edges = sup.edges(node)
        if k == "switch":
            d = t["discr"]
            fact = None
            dkey = None
            if is_place(d) and not d["p"]["pr"]:
                dkey = (path, d["p"]["l"])
                fact = facts.get(dkey)
            vals = [v for v, _ in t["targets"]]
            if fact and fact[0] == "const":
                v = fact[1]
                if v in vals:
                    tgt = dict((vv, tt) for vv, tt in t["targets"])[v]
                    out.append((v, (path, tgt), facts))
                else:
                    out.append(("otherwise", (path, t["otherwise"]), facts))
                return out
            if fact and fact[0] == "test_of":
                # `if r.is_some()`: the edge taken tells r's variant (two-variant Option / Result)
                tv = fact[2]
                listed = dict((vv, tt) for vv, tt in t["targets"])
                for bv in (0, 1):
                    if bv in listed:
                        tgt_, lab_ = listed[bv], bv
                    elif len(listed) == 1:
                        tgt_, lab_ = t["otherwise"], "otherwise"
                    else:
                        continue
                    f2 = dict(facts)
                    f2[fact[1]] = ("var", tv if bv == 1 else 1 - tv)
                    f2[dkey] = ("const", bv)
                    out.append((lab_, (path, tgt_), f2))
                return out
            excluded = fact[2] if fact and fact[0] == "discr_of" and len(fact) > 2 else frozenset()
            for v, tgt in t["targets"]:
                if v in excluded:
                    continue
                f2 = dict(facts)
                if fact and fact[0] == "discr_of":
                    f2[fact[1]] = ("var", v)
                    f2[dkey] = ("const", v)
                elif dkey is not None:
                    f2[dkey] = ("const", v)
                out.append((v, (path, tgt), f2))
            f3 = dict(facts)
            if fact and fact[0] == "discr_of":
                f3[fact[1]] = ("notvar", frozenset(excluded | set(vals)))
            out.append(("otherwise", (path, t["otherwise"]), f3))
            return out
        if k == "call":
            f = fn_of(t)
            dest = t["dest"]
            dkey = (path, dest["l"])
            # std combinators whose closure runs exactly on one variant of the receiver
            run_on = CLOSURE_RUNS_ON.get(f["def"]) if f else None
            recv = None
            if run_on is not None and t["args"] and is_place(t["args"][0]) and not t["args"][0]["p"]["pr"]:
                rf = facts.get((path, t["args"][0]["p"]["l"]))
                if rf and rf[0] in ("var", "const"):
                    recv = rf[1]
            has_may = any(lab == "maycall" for lab, _ in edges)
            pair_on = CLOSURE_PAIR_RUNS_ON.get(f["def"]) if f else None
            pair_recv = None
            if pair_on is not None and t["args"] and is_place(t["args"][0]) and not t["args"][0]["p"]["pr"]:
                rf = facts.get((path, t["args"][0]["p"]["l"]))
                if rf and rf[0] == "var":
                    pair_recv = rf[1]
            for lab, succ in edges:
                f2 = dict(facts)
                if pair_recv is not None and has_may:
                    cids = f.get("closures") or []
                    if lab == "maycall":
                        cid_ = succ[0][-1][2] if succ[0] else None
                        if cid_ in cids and cids.index(cid_) < 2 and pair_on[cids.index(cid_)] != pair_recv:
                            continue  # the closure for the other variant does not run
                    elif len(cids) == 2:
                        continue  # one of the two closures always runs: its return is where control continues
                if recv is not None and has_may:
                    runs = recv == run_on[0]
                    if lab == "maycall" and not runs:
                        continue
                    if lab != "maycall" and runs and run_on[1] == "replaces":
                        # the closure's value is the call's value: control continues from the closure's return
                        continue
                if lab in ("call", "maycall"):
                    npath = succ[0]
                    callee = sup.body_of(succ)
                    if lab == "call":
                        for i, a in enumerate(t["args"]):
                            self._set_from_operand(f2, (npath, i + 1), path, a)
                    elif f and self.payloads and COMBINATOR_PAYLOAD.get(f["def"]) and t["args"] and is_place(t["args"][0]) and not t["args"][0]["p"]["pr"]:
                        # `r.unwrap_or_else(|e| ..)`: the closure's value parameter is the payload of the variant it
                        # runs on
                        rk = (path, t["args"][0]["p"]["l"])
                        rf = facts.get(rk)
                        pv_ = COMBINATOR_PAYLOAD[f["def"]]
                        first = 2 if callee.raw["def_kind"] == "Closure" else 1
                        if rf and rf[0] == "var" and rf[1] == pv_[1]:
                            pf_ = facts.get(self._pk(rk))
                            ppf_ = facts.get(self._ppk(rk))
                            if pf_ is not None:
                                f2[(npath, first)] = pf_
                                if ppf_ is not None:
                                    f2[self._pk((npath, first))] = ppf_
                    out.append((lab, succ, f2))
                    continue
                # ordinary return edge of an opaque call
                self._kill_links(f2, dkey)
                self._clear(f2, dkey)
                if bb in rtargets and not dest["pr"]:
                    # `old = mem::replace(&mut X, v)`: the call yields X's value and stores v
                    xkey = (path, rtargets[bb])
                    old = facts.get(xkey)
                    self._kill_links(f2, xkey)
                    self._clear(f2, xkey)
                    if old is not None and old[0] in ("const", "var"):
                        f2[dkey] = old
                    if len(t["args"]) > 1:
                        nf = self._operand_fact(facts, path, t["args"][1])[0]
                        if nf is not None and nf[0] in ("const", "var"):
                            f2[xkey] = nf
                    elif body.local_ty(rtargets[bb]) == "bool":
                        f2[xkey] = ("const", 0)
                    out.append((lab, succ, f2))
                    continue
                forced = self.assume.get(node)
                if forced is not None and not dest["pr"]:
                    f2[dkey] = forced[0]
                    if len(forced) > 1 and forced[1] is not None and self.payloads:
                        f2[self._pk(dkey)] = forced[1]
                    out.append((lab, succ, f2))
                    continue
                if f and not dest["pr"] and recv is None and run_on is not None and has_may and f["def"].rsplit("::", 1)[-1] in ("map_err", "map", "and_then", "or_else", "filter") and "bool" not in f["def"]:
                    # this edge is "the closure did not run": the receiver held the other variant, which these
                    # combinators pass on unchanged
                    f2[dkey] = ("var", 1 - run_on[0])
                if f and not dest["pr"] and recv is not None and run_on is not None and not (recv == run_on[0]):
                    # the closure does not run: combinators that keep the receiver's variant
                    if f["def"].rsplit("::", 1)[-1] in ("map_err", "map", "or_else", "and_then", "filter"):
                        f2[dkey] = ("var", recv)
                if f and not dest["pr"] and recv is not None and run_on is not None and recv == run_on[0] and not has_may:
                    # the mapping function is a plain fn item (`.map(drop)`): the variant is kept, the payload unknown
                    if f["def"].rsplit("::", 1)[-1] in ("map_err", "map") and not f["def"].startswith("core::bool") and "bool" not in f["def"]:
                        f2[dkey] = ("var", recv)
                if f and not dest["pr"] and self.payloads and t["args"] and f["def"] in _UNWRAPS and is_place(t["args"][0]) and not t["args"][0]["p"]["pr"] and lab not in ("call", "maycall"):
                    # `r.unwrap_or_else(|e| ..)` & co. where the fallback did not run (or there is none): the value is
                    # the payload of the good variant, and what is known about that payload carries over
                    rk = (path, t["args"][0]["p"]["l"])
                    rf = facts.get(rk)
                    goodv = 0 if f["def"].startswith("std::result") else 1
                    if rf and rf[0] == "var" and rf[1] == goodv:
                        pf_ = facts.get(self._pk(rk))
                        ppf_ = facts.get(self._ppk(rk))
                        if pf_ is not None:
                            f2[dkey] = pf_
                            if ppf_ is not None:
                                f2[self._pk(dkey)] = ppf_
                if f and not dest["pr"] and f["def"] in ("std::result::Result::<T, E>::map_or", "std::option::Option::<T>::map_or") and len(t["args"]) == 3 and t["args"][2].get("k") == "fn" and lab not in ("call", "maycall"):
                    # `r.map_or(Enum::A(x), Enum::B)`: the default's variant or the one the constructor builds
                    df_, _, _ = self._operand_fact(facts, path, t["args"][1])
                    ctor = t["args"][2]
                    adt_ = self.sup.crate.adts.get(ctor.get("def", "").rsplit("::", 1)[0])
                    if df_ is not None and df_[0] == "var" and adt_ and adt_.get("kind") == "enum":
                        vi_ = [v_["idx"] for v_ in adt_["variants"] if v_["name"] == ctor.get("name")]
                        if vi_:
                            allv = {v_["idx"] for v_ in adt_["variants"]}
                            f2[dkey] = ("var", df_[1]) if vi_[0] == df_[1] else ("notvar", frozenset(allv - {df_[1], vi_[0]}))
                if f and not dest["pr"] and f["def"] in _VARIANT_AND_TESTS and run_on is not None and has_may:
                    # `r.is_err_and(|e| ..)`: the closure's bool when it runs (handled by the closure's return edge),
                    # the constant answer when it does not
                    if recv is not None and recv != run_on[0]:
                        f2[dkey] = ("const", _VARIANT_AND_TESTS[f["def"]])
                if f and not dest["pr"] and len(t["args"]) == 2 and f["def"] in ("std::result::Result::<T, E>::and", "std::result::Result::<T, E>::or", "std::option::Option::<T>::and", "std::option::Option::<T>::or"):
                    # eager combinators: `a.and(b)` is b when a is Ok/Some, else a's Err/None; `a.or(b)` the reverse
                    af, apf, _ = self._operand_fact(facts, path, t["args"][0])
                    bf, bpf, _ = self._operand_fact(facts, path, t["args"][1])
                    is_res = f["def"].startswith("std::result")
                    good = 0 if is_res else 1  # index of Ok / Some
                    keeps_a_when = (1 - good) if f["def"].endswith("::and") else good
                    if af is not None and af[0] == "var":
                        if af[1] == keeps_a_when:
                            f2[dkey] = ("var", af[1])
                            if apf is not None and self.payloads and f["def"].endswith("::and") is False:
                                f2[self._pk(dkey)] = apf
                            elif apf is not None and self.payloads and is_res:
                                f2[self._pk(dkey)] = apf
                        elif bf is not None and bf[0] == "var":
                            f2[dkey] = bf
                            if bpf is not None and self.payloads:
                                f2[self._pk(dkey)] = bpf
                if f and not dest["pr"] and len(t["args"]) == 1 and f["def"] in _VARIANT_TESTS and is_place(t["args"][0]) and not t["args"][0]["p"]["pr"]:
                    # `r.is_err()`: the answer is known when r's variant is
                    tk = self._deref(facts, (path, t["args"][0]["p"]["l"]))
                    tf = facts.get(tk)
                    if tf and tf[0] == "var" and tk != (path, t["args"][0]["p"]["l"]):
                        f2[dkey] = ("const", int(tf[1] == _VARIANT_TESTS[f["def"]]))
                    elif tk != (path, t["args"][0]["p"]["l"]) and (tf is None or tf[0] == "notvar"):
                        # unknown so far: branching on the answer settles the variant
                        f2[dkey] = ("test_of", tk, _VARIANT_TESTS[f["def"]])
                if f and t["args"]:
                    pk_locals = self._peekables(body)
                    if pk_locals:
                        for ai, a in enumerate(t["args"]):
                            rl = self._root_local(body, a)
                            if rl is None or rl not in pk_locals:
                                continue
                            pkey = (path, rl, "peek")
                            if f["def"] == "std::iter::Peekable::<I>::peek" and ai == 0 and not dest["pr"]:
                                # the answer stays valid until the iterator is advanced
                                known = facts.get(pkey)
                                if known and known[0] == "peek_of" and facts.get(known[1]) and facts[known[1]][0] == "var":
                                    f2[dkey] = facts[known[1]]
                                f2[pkey] = ("peek_of", dkey)
                            elif f["def"] == "std::iter::Iterator::next" and ai == 0 and "Peekable" in (f.get("self_ty") or body.local_ty(rl)) and not dest["pr"]:
                                known = facts.get(pkey)
                                if known and known[0] == "peek_of" and facts.get(known[1]) and facts[known[1]][0] == "var":
                                    f2[dkey] = ("var", facts[known[1]][1])  # next() yields what peek() saw
                                f2.pop(pkey, None)
                            else:
                                f2.pop(pkey, None)
                if f and not dest["pr"] and f["def"].endswith("::transpose") and len(t["args"]) == 1 and self.payloads:
                    # Result<Option<T>, E> <-> Option<Result<T, E>>
                    af, apf, _ = self._operand_fact(facts, path, t["args"][0])
                    from_result = f["def"].startswith("std::result::Result")
                    if af is not None and af[0] == "var":
                        if from_result:
                            if af[1] == 1:
                                f2[dkey] = ("var", 1)
                                f2[self._pk(dkey)] = ("var", 1)  # Some(Err(e))
                            elif apf is not None and apf[0] == "var":
                                if apf[1] == 0:
                                    f2[dkey] = ("var", 0)  # Ok(None) -> None
                                else:
                                    f2[dkey] = ("var", 1)
                                    f2[self._pk(dkey)] = ("var", 0)  # Ok(Some(x)) -> Some(Ok(x))
                        else:
                            if af[1] == 0:
                                f2[dkey] = ("var", 0)
                                f2[self._pk(dkey)] = ("var", 0)  # None -> Ok(None)
                            elif apf is not None and apf[0] == "var":
                                if apf[1] == 1:
                                    f2[dkey] = ("var", 1)  # Some(Err(e)) -> Err(e)
                                else:
                                    f2[dkey] = ("var", 0)
                                    f2[self._pk(dkey)] = ("var", 1)  # Some(Ok(x)) -> Ok(Some(x))
                if f and not dest["pr"] and f["def"] in ("core::bool::<impl bool>::then_some", "std::bool::<impl bool>::then_some", "core::bool::<impl bool>::then", "std::bool::<impl bool>::then") and t["args"]:
                    cf_ = self._operand_fact(facts, path, t["args"][0])[0]
                    if cf_ and cf_[0] == "const":
                        if cf_[1] == 0:
                            f2[dkey] = ("var", 0)
                        elif f["def"].endswith("then_some"):
                            f2[dkey] = ("var", 1)
                            pf_ = self._operand_fact(facts, path, t["args"][1])[0] if len(t["args"]) > 1 else None
                            if pf_ is not None and pf_[0] in ("var", "const") and self.payloads:
                                f2[self._pk(dkey)] = pf_
                if f and not dest["pr"] and f["def"] in ("std::convert::Into::into", "std::convert::From::from") and len(t["args"]) == 1:
                    a0 = t["args"][0]
                    sty = body.local_ty(a0["p"]["l"]) if is_place(a0) and not a0["p"]["pr"] else a0.get("ty")
                    vi = self._from_variant(sty, body.local_ty(dest["l"])) if sty else None
                    if vi is not None:
                        f2[dkey] = ("var", vi)
                    elif sty:
                        af_ = self._operand_fact(facts, path, a0)[0]
                        if af_ and af_[0] == "var":
                            vm = self._from_variant_map(sty, body.local_ty(dest["l"]))
                            if af_[1] in vm:
                                f2[dkey] = ("var", vm[af_[1]])
                if f and not dest["pr"]:
                    d = f["def"]
                    if d == "std::ops::Try::branch" and t["args"]:
                        a = t["args"][0]
                        kind = _try_kind(f)
                        if is_place(a) and not a["p"]["pr"]:
                            af = facts.get((path, a["p"]["l"]))
                            if af and af[0] == "var" and kind:
                                apf = facts.get(self._pk((path, a["p"]["l"])))
                                if kind == "result":
                                    f2[dkey] = ("var", 0 if af[1] == 0 else 1)
                                    if self.payloads:
                                        if af[1] == 0 and apf is not None:
                                            f2[self._pk(dkey)] = apf  # Continue(payload)
                                        elif af[1] == 1:
                                            f2[self._pk(dkey)] = ("var", 1)  # Break(Err(..))
                                            if apf is not None:
                                                f2[self._ppk(dkey)] = apf
                                elif kind == "option":
                                    f2[dkey] = ("var", 1 if af[1] == 0 else 0)
                                    if self.payloads and af[1] == 1 and apf is not None:
                                        f2[self._pk(dkey)] = apf  # Continue(payload of Some)
                                elif kind == "controlflow":
                                    f2[dkey] = ("var", af[1])
                    elif d == "std::ops::FromResidual::from_residual":
                        kind = _try_kind(f)
                        if kind == "result":
                            f2[dkey] = ("var", 1)
                            # `?` between equal error types keeps the error value (From<T> for T is the identity)
                            if self.payloads and t["args"] and is_place(t["args"][0]) and not t["args"][0]["p"]["pr"]:
                                ak = (path, t["args"][0]["p"]["l"])
                                et_a = _err_ty(body.local_ty(ak[1]))
                                et_d = _err_ty(body.local_ty(dest["l"]))
                                apf = facts.get(self._pk(ak))
                                if et_a and et_a == et_d and apf is not None:
                                    f2[self._pk(dkey)] = apf
                                elif et_a and et_d and et_a != et_d:
                                    # `?` converts through a same-crate From impl that always builds one variant
                                    vi = self._from_variant(et_a, et_d)
                                    if vi is not None:
                                        f2[self._pk(dkey)] = ("var", vi)
                        elif kind == "option":
                            f2[dkey] = ("var", 0)
                    elif d == "std::result::Result::<T, E>::map_err" and self.payloads and len(t["args"]) == 2 and t["args"][1].get("k") == "fn" and recv in (1, None):
                        # `.map_err(Enum::Variant)`: the error becomes that variant. With an unknown
                        # receiver the two outcomes are explored separately (case split).
                        cdef = t["args"][1].get("def", "")
                        epath, _, vname = cdef.rpartition("::")
                        e_adt = body.crate.adts.get(epath)
                        if e_adt and e_adt["kind"] == "enum":
                            vi = [v_["idx"] for v_ in e_adt["variants"] if v_["name"] == vname]
                            if vi:
                                if recv is None:
                                    f_ok = dict(f2)
                                    f_ok[dkey] = ("var", 0)
                                    out.append((lab, succ, f_ok))
                                f2[dkey] = ("var", 1)
                                f2[self._pk(dkey)] = ("var", vi[0])
                # a &mut borrow passed to an opaque call may change the referent: handled at ref creation
                out.append((lab, succ, f2))
            return out
        if k == "return" and path:
            for lab, succ in edges:
                f2 = dict(facts)
                caller_id, cbb, _ = path[-1]
                ppath = path[:-1]
                caller = sup.body_of((ppath, 0)) if ppath else sup.root
                ct = caller.blocks[cbb]["term"]
                # 'maycall' closures return into the higher-order callee, not into dest
                is_direct = any(l == "call" and s[0] == path for l, s in sup.edges((ppath, cbb)))
                dkey = (ppath, ct["dest"]["l"])
                self._kill_links(f2, dkey)
                ret_f = facts.get((path, 0))
                ret_pf = facts.get(self._pk((path, 0)))
                self._clear(f2, dkey)
                if ct["dest"]["pr"]:
                    pass
                elif is_direct:
                    if ret_f and ret_f[0] != "discr_of":
                        f2[dkey] = ret_f
                        if ret_pf is not None and self.payloads:
                            f2[self._pk(dkey)] = ret_pf
                else:
                    # a closure returning into a std combinator: the call's value is built from the closure's
                    cname = (fn_of(ct) or {}).get("def", "")
                    short = cname.rsplit("::", 1)[-1]
                    wraps = None
                    if cname.startswith("std::result::Result") and short == "map_err":
                        wraps = 1
                    elif cname.startswith("std::result::Result") and short == "map":
                        wraps = 0
                    elif cname.startswith("std::option::Option") and short == "map":
                        wraps = 1
                    elif short == "then" and "bool" in cname:
                        wraps = 1
                    if wraps is not None:
                        f2[dkey] = ("var", wraps)
                        if ret_f and ret_f[0] in ("var", "const") and self.payloads:
                            f2[self._pk(dkey)] = ret_f
                    elif cname == "std::option::Option::<T>::filter" and ret_f and ret_f[0] == "const":
                        # `opt.filter(|x| pred)`: Some(x) stays when the predicate says true, else None
                        f2[dkey] = ("var", 1 if ret_f[1] else 0)
                    elif cname in _VARIANT_AND_TESTS and ret_f and ret_f[0] == "const":
                        f2[dkey] = ret_f  # the closure's answer is the call's answer
                    elif short in ("unwrap_or_else", "or_else", "and_then", "ok_or_else") and ret_f and ret_f[0] != "discr_of":
                        if short == "ok_or_else":
                            f2[dkey] = ("var", 1)
                        else:
                            f2[dkey] = ret_f
                            if ret_pf is not None and self.payloads:
                                f2[self._pk(dkey)] = ret_pf
                for key in list(f2.keys()):
                    if key[0][: len(path)] == path and len(key[0]) >= len(path):
                        del f2[key]
                out.append((lab, succ, f2))
            return out
        for lab, succ in edges:
            out.append((lab, succ, dict(facts)))
        return out

    def explore(self, starts, removed_nodes=(), removed_edges=()):
        """starts: iterable of (node, facts). Returns dict node -> list of fact-states reaching it."""
        rn = set(removed_nodes)
        re_ = set(removed_edges)
        seen = set()
        reached = {}
        stack = []
        for n, f in starts:
            if n in rn:
                continue
            stack.append((n, f))
        while stack:
            n, f = stack.pop()
            sig = (n, frozenset(f.items()))
            if sig in seen:
                continue
            seen.add(sig)
            if len(seen) > self.MAX_STATES:
                self.overflow = True
                # conservative fallback: path-insensitive closure from everything seen so far
                allnodes = self.sup.reachable_from([x for x, _ in seen], removed_nodes=rn, removed_edges=re_)
                for x in allnodes:
                    reached.setdefault(x, []).append({})
                return reached
            reached.setdefault(n, []).append(f)
            for lab, m, f2 in self.step(n, f):
                if m in rn or (n, m) in re_ or (n, lab, m) in re_:
                    continue
                stack.append((m, self._prune(m, f2)))
        return reached

    def _prune(self, node, facts):
        """Forget facts about locals of the current frame that are dead at the start of `node`."""
        path, bb = node
        live = self.sup.body_of(node).live_in().get(bb, frozenset())
        linked = {v[1] for v in facts.values() if v[0] in ("discr_of", "ref_of", "test_of", "peek_of")}
        out = {}
        for k, v in facts.items():
            if k[0] == path and k[1] not in live and (k[0], k[1]) not in linked:
                continue
            if v[0] == "discr_of" and v[1][0] == path and v[1][1] not in live and k[1] not in live:
                continue
            out[k] = v
        return out

    def reach(self, removed_nodes=(), removed_edges=()):
        return set(self.explore([(self.sup.entry, {})], removed_nodes, removed_edges).keys())

    def reach_from_edge(self, src, label, dst, removed_nodes=(), removed_edges=()):
        """Nodes reachable after taking edge src--label-->dst (with the facts known at that point)."""
        states = self.explore([(self.sup.entry, {})]).get(src, [])
        starts = []
        for f in states:
            for lab, m, f2 in self.step(src, f):
                if m == dst and (label is None or lab == label):
                    starts.append((m, f2))
        if not starts:
            return set()
        return set(self.explore(starts, removed_nodes, removed_edges).keys())

    def reach_from_node(self, node, removed_nodes=(), removed_edges=()):
        states = self.explore([(self.sup.entry, {})]).get(node, [])
        starts = []
        for f in states:
            for lab, m, f2 in self.step(node, f):
                starts.append((m, f2))
        if not starts:
            return set()
        return set(self.explore(starts, removed_nodes, removed_edges).keys())

    def dominates(self, a, b):
        if a == b:
            return True
        return b not in self.reach(removed_nodes=[a])

    def edge_dominates(self, src, label, dst, node):
        r = self.reach()
        if node not in r:
            return False
        return node not in self.reach(removed_edges=[(src, label, dst)])


def strace(sup, node, op, extra=(), _tr=None):
    """Trace `op` (as read in the block `node` of a Super graph) back to its origin, continuing in
    the caller whenever the origin is an argument of an inlined callee."""
    tr = trace(sup.body_of(node), op, extra, _tr=_tr)
    cur = node
    guard = 0
    while tr.origin and tr.origin[0] == "arg" and cur[0] and guard < 10:
        guard += 1
        res = sup.caller_operand(cur, tr.origin[1])
        if not res:
            break
        cnode, cbody, cop = res
        tr.steps.append(("enter_caller", cbody.id))
        trace(cbody, cop, extra, _tr=tr)
        cur = cnode
    tr.origin_node = cur
    return tr


def strace_deep(sup, node, op, extra=(), max_hops=6, stop_at=()):
    """Like strace, but when the origin is the result of a call that the supergraph inlines (a same-crate
    helper, or a closure invoked through FnOnce/FnMut/Fn::call*), continue with the callee's return value,
    and from there back out through its parameters / captured variables as strace does."""
    tr = strace(sup, node, op, extra)
    hops = 0
    while tr.origin and tr.origin[0] == "call" and hops < max_hops:
        if any(tr.origin[2] is x for x in stop_at):
            break
        hops += 1
        cnode = (tr.origin_node[0], tr.origin[1])
        inl = [m for lab, m in sup.edges(cnode) if lab == "call"]
        if not inl:
            break
        callee_entry = inl[0]
        callee = sup.body_of(callee_entry)
        rets = callee.return_blocks()
        if not rets:
            break
        rnode = (callee_entry[0], rets[0])
        prev_origin = tr.origin
        saved = list(tr.steps)
        tr.steps.append(("enter_callee", callee.id))
        tr.origin = None
        # the same Trace object keeps the projections still pending on the value (`session.translator`
        # resolves against the struct literal inside the constructor)
        strace(sup, rnode, {"k": "copy", "p": {"l": 0, "pr": []}}, extra, _tr=tr)
        if not tr.origin or (tr.origin[0] == "call" and tr.origin[2] is prev_origin[2]):
            tr.steps[:] = saved
            tr.origin = prev_origin
            break
    return tr


# --------------------------------------------------------------------------- forward value flow on a supergraph

FORWARD_PASS = (
    "std::ops::Try::branch",
    "std::result::Result::<T, E>::map_err",
    "std::result::Result::<T, E>::map",
    "std::result::Result::<T, E>::and_then",
    "std::result::Result::<T, E>::and",
    "std::result::Result::<T, E>::as_ref",
    "std::result::Result::<T, E>::as_mut",
    "std::option::Option::<T>::as_ref",
    "std::option::Option::<T>::as_mut",
    "std::option::Option::<T>::as_deref",
    "std::option::Option::<T>::map",
    "std::option::Option::<T>::copied",
    "std::option::Option::<T>::cloned",
    "std::convert::Into::into",
    "std::convert::From::from",
    "std::clone::Clone::clone",
    "std::ops::Deref::deref",
    "std::ops::DerefMut::deref_mut",
)


def carriers(sup, node, local, extra_pass=()):
    """Set of (path, local) that carry (a view of / a conversion of) the value held by `local` in the
    context of `node`: through moves, references, field/downcast projections, pass-through calls,
    arguments of inlined callees and return values of inlined callees."""
    start = (node[0], local)
    seen = {start}
    work = [start]
    nodes = list(sup.nodes())
    by_path = {}
    for n in nodes:
        by_path.setdefault(n[0], []).append(n)
    guard = 0
    while work and guard < 400:
        guard += 1
        path, l = work.pop()
        for n in by_path.get(path, []):
            b = sup.body_of(n)
            blk = b.blocks[n[1]]
            for s in blk["stmts"]:
                if s["k"] != "assign" or s["p"]["pr"]:
                    continue
                rv = s["rv"]
                src = None
                if rv["k"] in ("use", "cast") and is_place(rv["op"]):
                    src = rv["op"]["p"]["l"]
                elif rv["k"] in ("ref", "rawptr", "copyforderef"):
                    src = rv["p"]["l"]
                elif rv["k"] == "aggregate":
                    for o in rv["ops"]:
                        if is_place(o) and o["p"]["l"] == l:
                            src = l
                if src == l:
                    k = (path, s["p"]["l"])
                    if k not in seen:
                        seen.add(k)
                        work.append(k)
            t = blk["term"]
            if t["k"] == "call":
                f = fn_of(t)
                argpos = [i for i, a in enumerate(t["args"]) if is_place(a) and a["p"]["l"] == l]
                if argpos:
                    edges = sup.edges(n)
                    inl = [m for lab, m in edges if lab == "call"]
                    if inl:
                        for i in argpos:
                            k = (inl[0][0], i + 1)
                            if k not in seen:
                                seen.add(k)
                                work.append(k)
                    elif f and (f["def"] in FORWARD_PASS or any(p in f["def"] for p in extra_pass)) and (0 in argpos or (f["def"].endswith("::with_capacity") and 1 in argpos)) and not t["dest"]["pr"]:
                        k = (path, t["dest"]["l"])
                        if k not in seen:
                            seen.add(k)
                            work.append(k)
            if t["k"] == "return" and path and l == 0:
                caller_id, cbb, _ = path[-1]
                ppath = path[:-1]
                caller = sup.body_of((ppath, 0)) if ppath else sup.root
                ct = caller.blocks[cbb]["term"]
                direct = any(lab == "call" and m[0] == path for lab, m in sup.edges((ppath, cbb)))
                via_test = (not direct) and (fn_of(ct) or {}).get("def") in _VARIANT_AND_TESTS
                if (direct or via_test) and not ct["dest"]["pr"]:
                    # (`r.is_err_and(|e| ..)`: the closure's answer is the call's answer)
                    k = (ppath, ct["dest"]["l"])
                    if k not in seen:
                        seen.add(k)
                        work.append(k)
    return seen


def switches_on_carriers(sup, carr):
    """Switch nodes whose discriminant is `discriminant(x)` (or x itself for bool/int) for a carrier x.
    Returns [(node, term, how)] with how in {'discr','value'}."""
    out = []
    for n in sup.nodes():
        b = sup.body_of(n)
        blk = b.blocks[n[1]]
        t = blk["term"]
        if t["k"] != "switch" or not is_place(t["discr"]):
            continue
        dl = t["discr"]["p"]["l"]
        if (n[0], dl) in carr and not t["discr"]["p"]["pr"]:
            out.append((n, t, "value"))
            continue
        for s in blk["stmts"]:
            if s["k"] == "assign" and not s["p"]["pr"] and s["p"]["l"] == dl and s["rv"]["k"] == "discr":
                if (n[0], s["rv"]["p"]["l"]) in carr:
                    out.append((n, t, "discr"))
    return out


class KindTest:
    """A branch on the io::ErrorKind returned by one io::Error::kind() call.
    edges: [(label, dst_node, kinds)] out of `node`; kinds is the set of variant names for which the edge is
    taken, or None for 'every other kind'."""

    def __init__(self, node, kind_node, kind_call, form, edges):
        self.node, self.kind_node, self.kind_call, self.form, self.edges = node, kind_node, kind_call, form, edges

    def named(self):
        return sorted({k for _, _, ks in self.edges if ks for k in ks})

    def __repr__(self):
        return f"KindTest({self.form} {self.named()} at {self.node})"


def _const_variant(sup, node, op):
    tr = strace(sup, node, op)
    if tr.origin and tr.origin[0] == "const":
        return tr.origin[1].get("ref_variant") or tr.origin[1].get("variant")
    if tr.origin and tr.origin[0] == "agg":
        return tr.origin[1]["rv"].get("variant")
    return None


def kind_tests(sup):
    """Every branch on the result of an io::Error::kind() call in the supergraph, whatever its spelling:
    `kind() == K` / `kind() != K` (PartialEq call, then a switch on the bool) or `match`/`matches!`/`if let`
    on the kind (a switch on its discriminant)."""
    adt = sup.crate.adts.get("std::io::ErrorKind")
    names = {v.get("discr", v["idx"]): v["name"] for v in adt["variants"]} if adt else {}
    calls = sup.calls()
    out = []
    for n, b, t in calls:
        f = fn_of(t) or {}
        if f.get("def") != "std::io::Error::kind" or t["dest"]["pr"]:
            continue
        carr = carriers(sup, n, t["dest"]["l"])
        for sn, st, how in switches_on_carriers(sup, carr):
            if how != "discr":
                continue
            edges = [(v, (sn[0], x), {names.get(v, f"#{v}")}) for v, x in st["targets"]]
            edges.append(("otherwise", (sn[0], st["otherwise"]), None))
            out.append(KindTest(sn, n, t, "discr", edges))
        for en, eb, et in calls:
            ef = fn_of(et) or {}
            if not (ef.get("trait") == "std::cmp::PartialEq" and "ErrorKind" in ef.get("self_ty", "") and ef.get("name") in ("eq", "ne") and len(et["args"]) == 2):
                continue
            mine = [i for i, a in enumerate(et["args"]) if is_place(a) and (en[0], a["p"]["l"]) in carr]
            if len(mine) != 1 or et["dest"]["pr"]:
                continue
            cv = _const_variant(sup, en, et["args"][1 - mine[0]])
            if cv is None:
                continue
            rc = carriers(sup, en, et["dest"]["l"])
            for sn, sw, how in switches_on_carriers(sup, rc):
                if how != "value":
                    continue
                zero = [x for v_, x in sw["targets"] if v_ == 0]
                if not zero:
                    continue
                e_false = (0, (sn[0], zero[0]))
                e_true = ("otherwise", (sn[0], sw["otherwise"]))
                holds, fails = (e_true, e_false) if ef["name"] == "eq" else (e_false, e_true)
                out.append(KindTest(sn, n, t, ef["name"], [(holds[0], holds[1], {cv}), (fails[0], fails[1], None)]))
    return out
