"""CLI rules: C13 (exit status / stream discipline), C14 (source-format resolution), C15 (flush),
C16 (broken pipe wrapper), plus the flush-layer rule R12.3 shared with C12/C15."""
import re

from engine import rule, AnchorLost
from model import Super, PathSens, fn_of, trace, strace, is_place, site, const_value
import common
import tables


# --------------------------------------------------------------------------- helpers


def exit_calls(body):
    out = []
    for bb, t in body.calls():
        f = fn_of(t)
        if f and f["def"] == "std::process::exit":
            code = const_value(t["args"][0]) if t["args"] else None
            out.append((bb, code))
    return out


def stream_of(ty):
    if "Stderr" in ty:
        return "stderr"
    if "Stdout" in ty:
        return "stdout"
    return None


def display_types(body, args_op):
    """Types T of the Argument::new_display::<T> calls feeding a fmt::Arguments::new args array."""
    tr = trace(body, args_op)
    out = []
    if tr.origin and tr.origin[0] == "agg":
        for o in tr.origin[1]["rv"]["ops"]:
            t2 = trace(body, o)
            if t2.origin and t2.origin[0] == "call":
                f = fn_of(t2.origin[2])
                if f and "Argument" in f["def"]:
                    out.append((f["name"], f["args"][-1] if f["args"] else "?"))
    return out


def writes_in(crate, body, depth=2):
    """[(node, stream, template_text, display_types)] for io::Write calls in `body` and (generic)
    local callees; the stream of a generic `W` receiver is resolved from the call's type argument."""
    sup = Super(crate, body, depth=depth)
    out = []
    for n, b, t in sup.calls():
        if not common.is_io_write_call(t):
            continue
        f = fn_of(t)
        st = stream_of(f.get("self_ty", ""))
        if st is None and n[0]:
            # receiver type is a type parameter of an inlined callee: look at the caller's generic args
            caller_id, cbb, _ = n[0][-1]
            cb = sup.body_of((n[0][:-1], 0)) if n[0][:-1] else sup.root
            cf = fn_of(cb.blocks[cbb]["term"])
            for a in (cf or {}).get("args", []):
                st = st or stream_of(a)
        tmpl = None
        dts = []
        if f["name"] == "write_fmt" and len(t["args"]) > 1:
            tp = common.template_of(b, t["args"][1])
            if tp:
                tmpl = tp[1]
            tr = trace(b, t["args"][1])
            if tr.origin and tr.origin[0] == "call" and len(tr.origin[2]["args"]) > 1:
                dts = display_types(b, tr.origin[2]["args"][1])
        out.append((n, st, tmpl, dts))
    return out


def result_switches(body, local):
    """Switch blocks that branch on the Result held in `local` (directly or through `?`).
    Returns [(bb, err_targets, ok_targets)]."""
    locs = {local}
    # one hop through Try::branch
    for bb, t in body.calls():
        f = fn_of(t)
        if f and f["def"] == "std::ops::Try::branch" and t["args"] and is_place(t["args"][0]):
            if t["args"][0]["p"]["l"] in locs and not t["dest"]["pr"]:
                locs.add(t["dest"]["l"])
    # moves of the result into another local (`let r = ...; match r`)
    changed = True
    while changed:
        changed = False
        for bi, blk in enumerate(body.blocks):
            for s in blk["stmts"]:
                if s["k"] == "assign" and not s["p"]["pr"] and s["rv"]["k"] == "use" and is_place(s["rv"]["op"]):
                    src = s["rv"]["op"]["p"]
                    if not src["pr"] and src["l"] in locs and s["p"]["l"] not in locs:
                        locs.add(s["p"]["l"])
                        changed = True
    out = []
    for bi in sorted(body.reach()):
        blk = body.blocks[bi]
        t = blk["term"]
        if t["k"] != "switch" or not is_place(t["discr"]):
            continue
        dl = t["discr"]["p"]["l"]
        src = None
        for s in blk["stmts"]:
            if s["k"] == "assign" and s["p"]["l"] == dl and s["rv"]["k"] == "discr" and not s["rv"]["p"]["pr"]:
                src = s["rv"]["p"]["l"]
        if src not in locs:
            continue
        err = [tt for v, tt in t["targets"] if v == 1]
        ok = [tt for v, tt in t["targets"] if v != 1]
        other = t["otherwise"]
        if body.blocks[other]["term"]["k"] != "unreachable":
            if any(v == 1 for v, _ in t["targets"]):
                ok.append(other)
            else:
                # `[0 -> ok, else -> err]`
                err.append(other)
        out.append((bi, err, ok))
    return out


def terminal_blocks(body, start_blocks):
    """Blocks without successors reachable from start_blocks."""
    r = body.reachable_from(list(start_blocks))
    return [b for b in r if not body.succ(b)]


def is_exit_block(body, bb, code=None):
    t = body.blocks[bb]["term"]
    if t["k"] != "call":
        return False
    f = fn_of(t)
    if not f or f["def"] != "std::process::exit":
        return False
    if code is None:
        return True
    return const_value(t["args"][0]) == code


def main_calls(facts):
    """Key call sites of `main`."""
    m = common.bin_main(facts)
    d = {"translate": [], "flush": [], "new": [], "open": [], "parse": []}
    for bb, t in m.calls():
        f = fn_of(t)
        if not f:
            continue
        if f["crate"] == "xt" and not f["local"]:
            if f["name"].startswith("translate"):
                d["translate"].append((bb, t))
            elif f["name"] == "flush":
                d["flush"].append((bb, t))
            elif f["name"] == "new" and "Translator" in f["def"]:
                d["new"].append((bb, t))
        elif f["local"]:
            callee = facts.bin.by_id.get(f.get("resolved") or f["def"]) or facts.bin.by_id.get(f["def"])
            if callee is None:
                continue
            rt = callee.raw.get("ret_ty", "")
            if rt.startswith("std::result::Result<") and "lexopt::Error" in rt:
                d["parse"].append((bb, t, callee))
            elif rt.startswith("std::result::Result<Input") or (rt.startswith("std::result::Result<") and "std::io::Error" in rt and callee.nargs == 1):
                d["open"].append((bb, t, callee))
    return m, d


# --------------------------------------------------------------------------- C15


@rule("R15.1", 5, "every path from a successful translate_* to the back edge / return / exit passes through Translator::flush; failures exit 1", ["C15", "C13", "C16"])
def r15_1(ctx):
    m, d = main_calls(ctx.facts)
    ctx.need(d["translate"], "main has no xt::Translator::translate_* call")
    flush_blocks = [bb for bb, _ in d["flush"]]
    back_src = {u for u, v in m.back_edges()}
    rets = set(m.return_blocks())
    exits = {bb for bb, _ in exit_calls(m)}
    for bb, t in d["translate"]:
        name = fn_of(t)["name"]
        key = f"{name}@{_variant_key(m, bb)}"
        dest = t["dest"]["l"]
        sw = result_switches(m, dest)
        ctx.ob(f"{key}:result-inspected", bool(sw), site(m, bb), "the translation result is matched on" if sw else "the translation result is never inspected")
        err_edges = []
        for sbb, errs, oks in sw:
            for e in errs:
                err_edges.append((sbb, e))
        # from the call's return, with the Err edges removed and flush blocks removed, no target may be reachable
        targets = back_src | rets | exits
        start = t["target"]
        r = m.reachable_from(start, removed_nodes=flush_blocks, removed_edges=err_edges)
        leak = sorted(r & targets)
        ctx.ob(f"{key}:flush-before-next", not leak, site(m, bb),
               "flush intervenes on every success path" if not leak else
               f"a success path reaches {_describe(m, leak[0], back_src, rets, exits)} (line {m.blocks[leak[0]]['term']['line']}) without Translator::flush")
        # Err edges only reach exit(1)
        for sbb, e in err_edges:
            terms = terminal_blocks(m, [e])
            bad = [x for x in terms if not is_exit_block(m, x, 1)]
            loops = [x for x in m.reachable_from(e) if x in back_src]
            ok = not bad and not loops and terms
            ctx.ob(f"{key}:failure-exits-1", ok, site(m, sbb),
                   "failure arm diverges to exit(1)" if ok else "failure arm can continue with the next input or return from main")
    ctx.ob("flush-site-present", len(flush_blocks) >= 1, site(m), f"{len(flush_blocks)} Translator::flush call(s) in main")
    for bb, t in d["flush"]:
        sw = result_switches(m, t["dest"]["l"])
        ctx.ob("flush:result-inspected", bool(sw), site(m, bb), "flush result is matched on" if sw else "the result of Translator::flush is discarded")
        for sbb, errs, oks in sw:
            for e in errs:
                terms = terminal_blocks(m, [e])
                bad = [x for x in terms if not is_exit_block(m, x, 1)]
                loops = [x for x in m.reachable_from(e) if x in back_src]
                ok = not bad and not loops and terms
                ctx.ob("flush:failure-exits-1", ok, site(m, sbb), "flush failure diverges to exit(1)" if ok else "flush failure does not end the run with status 1")
                wr = _stderr_xt_error_blocks(ctx.facts, m)
                ok2 = all(m.must_pass(e, [x], wr) for x in terms)
                ctx.ob("flush:failure-reported", ok2, site(m, sbb), "an 'xt error' line is written to stderr before exiting" if ok2 else "flush failure exits without an 'xt error' message")


def _variant_key(m, bb):
    """Stable key for a call site in main: the input variant it handles (from the argument types)."""
    t = m.blocks[bb]["term"]
    f = fn_of(t)
    a = [x for x in f["args"] if x not in ("'_",)]
    tail = a[-1] if a else ""
    tail = re.sub(r"<.*", "", tail).rsplit("::", 1)[-1]
    if f["name"] == "translate_slice":
        return "slice"
    return tail or "reader"


def _describe(m, bb, back_src, rets, exits):
    if bb in back_src:
        return "the loop back edge (next input)"
    if bb in rets:
        return "main's return"
    return "a process::exit"


def _stderr_xt_error_blocks(facts, m):
    out = []
    for n, st, tmpl, dts in writes_in(facts.bin, m, depth=0):
        if st == "stderr" and tmpl and tmpl.startswith("xt error"):
            out.append(n[1])
    return out


# --------------------------------------------------------------------------- R12.3 flush layers


def _returns_call(body, pred):
    """Every definition of the return place is a call satisfying pred; returns (ok, detail)."""
    ds = body.whole_defs(0)
    if not ds:
        return False, "return place never assigned from a call"
    for bb, idx, kind, payload in ds:
        if kind == "call":
            if not pred(payload):
                return False, f"returns the result of {fn_of(payload)['def'] if fn_of(payload) else '?'}"
            continue
        # `_0 = move _x` where _x is the call result
        rv = payload.get("rv", {})
        if rv.get("k") == "use":
            tr = trace(body, rv["op"])
            if tr.origin and tr.origin[0] == "call" and pred(tr.origin[2]) and not [s for s in tr.steps if s[0] not in ("use",)]:
                continue
        return False, f"return value built locally at line {payload.get('line')} instead of forwarding the callee's result"
    return True, "returns the callee's result unchanged"


@rule("R12.3", 9, "flush reaches the writer through every layer and each layer returns the callee's result unchanged", ["C12", "C15"])
def r12_3(ctx):
    lib = ctx.lib
    outs = common.output_impls(ctx.facts)
    disp = common.dispatcher_impl(ctx.facts)
    # layer 1: the public translator flush
    tfl = [b for b in lib.bodies if b.name == "flush" and b.raw.get("vis") == "Public" and "Translator" in b.raw.get("impl_self_ty", "")]
    ctx.need(len(tfl) == 1, "public Translator::flush not found")
    tfl = tfl[0]
    dfl = common.method_body(lib, disp, "flush")
    ctx.need(dfl, "dispatcher flush not found")
    ok, det = _returns_call(tfl, lambda t: (fn_of(t) or {}).get("resolved") == dfl.id or (fn_of(t) or {}).get("def") == dfl.id)
    ctx.ob("translator", ok, site(tfl), det)
    # layer 2: dispatcher arms -> each format's flush
    fmt_flush_ids = {o["flush"].id: f for f, o in outs.items()}
    seen = set()

    def pred2(t):
        f = fn_of(t) or {}
        r = f.get("resolved") or f.get("def")
        if r in fmt_flush_ids:
            seen.add(fmt_flush_ids[r])
            return True
        return False

    ok, det = _returns_call(dfl, pred2)
    ctx.ob("dispatcher", ok, site(dfl), det)
    for fmt in sorted(outs):
        ctx.ob(f"dispatcher-arm:{fmt}", fmt in seen, site(dfl), f"dispatcher forwards flush to the {fmt} output" if fmt in seen else f"no dispatcher arm flushes the {fmt} output")
    # layer 3: each format's flush -> io::Write::flush on the sink field of self
    for fmt, o in sorted(outs.items()):
        b = o["flush"]

        def pred3(t, b=b):
            f = fn_of(t) or {}
            if f.get("trait") != "std::io::Write" or f.get("name") != "flush":
                return False
            tr = trace(b, t["args"][0])
            return bool(tr.origin and tr.origin[0] == "arg" and tr.origin[1] == 1 and tr.has("field"))

        ok, det = _returns_call(b, pred3)
        ctx.ob(f"format:{fmt}", ok, site(b), det if not ok else "returns <W as io::Write>::flush(&mut self.<sink>) unchanged")


# --------------------------------------------------------------------------- C16


def wrapper_impl(facts):
    """The io::Write impl of the type wrapped around stdout and handed to Translator::new."""
    m, d = main_calls(facts)
    if not d["new"]:
        raise AnchorLost("main does not construct an xt::Translator")
    f = fn_of(d["new"][0][1])
    wty = f["args"][0] if f["args"] else ""
    imps = [i for i in facts.bin.impls if i.get("trait") == "std::io::Write" and i.get("self_adt")]
    used = [i for i in imps if i["self_adt"] in wty]
    return m, wty, used, imps


@rule("R16.1", 2, "every method of the stdout wrapper returns the broken-pipe check of the same inner method with its own arguments", ["C16", "C15"])
def r16_1(ctx):
    m, wty, used, imps = wrapper_impl(ctx.facts)
    binc = ctx.bin
    ctx.ob("wrapper-in-sink-type", len(used) >= 1, site(m), f"sink type handed to the translator: {wty}")
    checks = set()
    for imp in used:
        names = [it["name"] for it in imp["items"]]
        for req in ("write", "flush"):
            if req not in names:
                ctx.ob(f"{req}:present", False, imp["self_ty"], "required io::Write method missing")
        for it in imp["items"]:
            b = binc.by_id.get(it["def"])
            if not b:
                continue
            name = it["name"]
            inner = [(bb, t) for bb, t in b.calls() if (fn_of(t) or {}).get("trait") == "std::io::Write"]
            same = [(bb, t) for bb, t in inner if fn_of(t)["name"] == name]
            ok_inner = len(inner) == 1 and len(same) == 1
            ctx.ob(f"{name}:inner-same-method", ok_inner, site(b),
                   f"calls inner {name} exactly once" if ok_inner else f"inner writer calls: {[fn_of(t)['name'] for _, t in inner]}")
            if not same:
                continue
            ibb, it_ = same[0]
            # receiver = field of self; other args = own params, unchanged
            tr = trace(b, it_["args"][0])
            recv_ok = bool(tr.origin and tr.origin[0] == "arg" and tr.origin[1] == 1 and tr.has("field"))
            args_ok = True
            for i, a in enumerate(it_["args"][1:], start=2):
                tra = trace(b, a)
                if not (tra.origin and tra.origin[0] == "arg" and tra.origin[1] == i and all(s[0] in ("use", "ref", "deref") for s in tra.steps)):
                    args_ok = False
            ctx.ob(f"{name}:args-pass-through", recv_ok and args_ok, site(b, ibb),
                   "inner call receives self's writer and the method's own arguments unchanged" if recv_ok and args_ok else "arguments are altered before reaching the inner writer")
            # result goes through the check into the return place
            res = it_["dest"]["l"]

            def pred(t, res=res, b=b):
                f = fn_of(t) or {}
                if not f.get("local") or not t["args"]:
                    return False
                tr2 = trace(b, t["args"][0])
                return bool(tr2.origin and tr2.origin[0] == "call" and tr2.origin[2] is it_ and all(s[0] == "use" for s in tr2.steps))

            ok, det = _returns_call(b, pred)
            ctx.ob(f"{name}:checked-return", ok, site(b),
                   "returns check(inner result)" if ok else f"the inner writer's result is returned without the broken-pipe check ({det})")
            for bb2, t2 in b.calls():
                f2 = fn_of(t2) or {}
                if f2.get("local") and t2["dest"]["l"] == 0:
                    checks.add(f2.get("resolved") or f2["def"])
    ctx.ob("single-check-function", len(checks) == 1, wty, f"check function(s): {sorted(checks)}")


def _check_fn(ctx):
    m, wty, used, imps = wrapper_impl(ctx.facts)
    binc = ctx.bin
    checks = set()
    for imp in used:
        for it in imp["items"]:
            b = binc.by_id.get(it["def"])
            for bb2, t2 in (b.calls() if b else []):
                f2 = fn_of(t2) or {}
                if f2.get("local") and t2["dest"]["l"] == 0:
                    checks.add(f2.get("resolved") or f2["def"])
    ctx.need(len(checks) >= 1, "no broken-pipe check function is applied in the wrapper")
    return [binc.by_id[c] for c in sorted(checks) if c in binc.by_id]


@rule("R16.2", 6, "the check diverges into signal(SIGPIPE, SIG_DFL); raise(SIGPIPE) exactly on Err(kind()==BrokenPipe); silent; cannot panic", ["C16"])
def r16_2(ctx):
    binc = ctx.bin
    for c in _check_fn(ctx):
        # the BrokenPipe comparison
        cmp_blocks = []
        for bb, t in c.calls():
            f = fn_of(t) or {}
            if f.get("trait") == "std::cmp::PartialEq" and "ErrorKind" in f.get("self_ty", ""):
                consts = [a for a in t["args"] if trace(c, a).origin and trace(c, a).origin[0] == "const"]
                variants = [trace(c, a).origin[1].get("ref_variant") or trace(c, a).origin[1].get("variant") for a in consts]
                cmp_blocks.append((bb, t, variants))
        ok = len(cmp_blocks) == 1 and cmp_blocks[0][2] == ["BrokenPipe"]
        ctx.ob("kind-compared-with-BrokenPipe", ok, site(c), f"ErrorKind comparisons: {[v for _, _, v in cmp_blocks]}")
        if not ok:
            continue
        bb, t, _ = cmp_blocks[0]
        # kind() of the Err payload of the argument
        ktr = trace(c, t["args"][0])
        kcall = ktr.origin[2] if ktr.origin and ktr.origin[0] == "call" else None
        kf = fn_of(kcall) if kcall else None
        kind_ok = bool(kf and kf["def"] == "std::io::Error::kind")
        if kind_ok:
            ptr = trace(c, kcall["args"][0])
            kind_ok = bool(ptr.origin and ptr.origin[0] == "arg" and ptr.origin[1] == 1 and any(s[0] == "downcast" and s[1] == "Err" for s in ptr.steps))
        ctx.ob("kind-of-the-argument-error", kind_ok, site(c, bb), "compares kind() of the Err payload of the checked result")
        sw = c.blocks[t["target"]]["term"]
        true_t = sw["otherwise"] if sw["k"] == "switch" else None
        false_t = [x for v, x in sw["targets"] if v == 0] if sw["k"] == "switch" else []
        # true edge: only a diverging local call
        div_ok = False
        dfn = None
        if true_t is not None:
            terms = terminal_blocks(c, [true_t])
            div_ok = bool(terms)
            for x in terms:
                tt = c.blocks[x]["term"]
                f = fn_of(tt) if tt["k"] == "call" else None
                if not (f and f.get("diverges") and f.get("local")):
                    div_ok = False
                else:
                    dfn = binc.by_id.get(f.get("resolved") or f["def"])
        ctx.ob("broken-pipe-edge-diverges", div_ok, site(c, t["target"]),
               "the BrokenPipe edge reaches only a call of a `-> !` function" if div_ok else "the BrokenPipe edge can return to the caller (would surface as an error message or exit 0)")
        # other edges return the argument unchanged
        rets_ok = True
        for rb in c.return_blocks():
            pass
        for dbb, idx, kind, payload in c.whole_defs(0):
            if kind != "assign":
                rets_ok = False
                continue
            tr0 = trace(c, payload["rv"]["op"]) if payload["rv"]["k"] == "use" else None
            if not (tr0 and tr0.origin and tr0.origin[0] == "arg" and tr0.origin[1] == 1 and all(s[0] == "use" for s in tr0.steps)):
                rets_ok = False
        ctx.ob("other-edges-return-argument", rets_ok and bool(c.whole_defs(0)), site(c), "every returning path yields the argument unchanged" if rets_ok else "a returning path alters the checked result")
        # silent: no stderr / formatting in check or diverging fn
        for fnb in [c] + ([dfn] if dfn else []):
            noisy = [fn_of(t2)["def"] for _, t2 in fnb.calls() if fn_of(t2) and (fn_of(t2)["def"] in ("std::io::stderr", "std::io::stdout", "std::io::_eprint", "std::io::_print") or "fmt::Arguments" in fn_of(t2)["def"])]
            ctx.ob(f"silent:{fnb.name}", not noisy, site(fnb), "no message is formatted or written" if not noisy else f"writes/prints: {noisy}")
            panics = [b2 for b2 in fnb.reach() if fnb.blocks[b2]["term"]["k"] == "assert"]
            pan_calls = [fn_of(t2)["def"] for _, t2 in fnb.calls() if fn_of(t2) and ("panic" in fn_of(t2)["def"] or fn_of(t2)["name"] in ("unwrap", "expect"))]
            ctx.ob(f"no-panic-edge:{fnb.name}", not panics and not pan_calls, site(fnb), "no panic-capable edge" if not panics and not pan_calls else f"panic-capable: {pan_calls or 'assert'}")
        if dfn:
            seq = []
            for bb2, t2 in dfn.calls():
                f2 = fn_of(t2)
                if f2 and f2["crate"] == "libc":
                    seq.append((bb2, f2["name"], [a.get("def") or const_value(a) for a in t2["args"]]))
            names = [x[1] for x in seq]
            ok_seq = names[:2] == ["signal", "raise"] and len(seq) >= 2
            if ok_seq:
                ok_seq = seq[0][2] == ["libc::SIGPIPE", "libc::SIG_DFL"] and seq[1][2] == ["libc::SIGPIPE"] and dfn.dominates(seq[0][0], seq[1][0]) and seq[0][0] != seq[1][0]
            ctx.ob("signal-then-raise", ok_seq, site(dfn), f"libc calls in order: {[(n, a) for _, n, a in seq]}")
            ex = exit_calls(dfn)
            ok_ex = bool(ex) and all(code == 1 for _, code in ex) and all(dfn.dominates(seq[1][0], e) for e, _ in ex) if ok_seq else False
            ctx.ob("fallback-exit-1", ok_ex, site(dfn), "falls back to exit(1) after raise")
        else:
            ctx.ob("signal-then-raise", False, site(c), "diverging function not found")


@rule("R16.3", 2, "stdout is written only through the wrapper: StdoutLock occurs only inside the wrapper type; one stdout() in main", ["C16"])
def r16_3(ctx):
    m, wty, used, imps = wrapper_impl(ctx.facts)
    # position of StdoutLock inside the sink type
    idx_lock = wty.find("StdoutLock")
    wrappers = [i["self_adt"] for i in used]
    inside = False
    for w in wrappers:
        i = wty.find(w)
        if i >= 0 and idx_lock > i:
            inside = True
    ctx.ob("stdoutlock-inside-wrapper", inside and idx_lock >= 0, site(m), f"sink type {wty}")
    n_stdout = [bb for bb, t in m.calls() if (fn_of(t) or {}).get("def") == "std::io::stdout"]
    ctx.ob("single-stdout-in-main", len(n_stdout) == 1, site(m), f"{len(n_stdout)} std::io::stdout() call(s) in main")
    # every use of that handle: is_terminal or lock feeding the wrapper chain
    if n_stdout:
        dest = m.blocks[n_stdout[0]]["term"]["dest"]["l"]
        locks = [bb for bb, t in m.calls() if (fn_of(t) or {}).get("def") == "std::io::Stdout::lock"]
        ctx.ob("single-lock", len(locks) == 1, site(m), f"{len(locks)} Stdout::lock call(s) in main")
        for lb in locks:
            ld = m.blocks[lb]["term"]["dest"]["l"]
            # the lock must flow into the wrapper constructor chain only
            from model import uses_of_local
            us = uses_of_local(m, ld)
            kinds = []
            for ub, ui, how in us:
                if isinstance(how, tuple) and how[0] == "callarg":
                    kinds.append(fn_of(m.blocks[ub]["term"])["def"])
                elif how == "drop":
                    continue
                else:
                    kinds.append(str(how))
            ok = len(kinds) == 1
            ctx.ob("lock-flows-only-into-sink", ok, site(m, lb), f"the lock is consumed by {kinds}")


# --------------------------------------------------------------------------- C13


@rule("R13.1", 14, "exit-code map: constants in {0,1,2}; exit(2) only on argument errors after stderr usage; failures diverge to exit(1) after an 'xt error' line", ["C13"])
def r13_1(ctx):
    facts = ctx.facts
    m, d = main_calls(facts)
    binc = ctx.bin
    # (a) every exit site, both crates
    for b in ctx.lib.bodies:
        for bb, code in exit_calls(b):
            ctx.ob(f"lib-exit:{b.name}", False, site(b, bb), "the library terminates the process")
        for bb, t in b.calls():
            if (fn_of(t) or {}).get("def") in ("std::process::abort",):
                ctx.ob(f"lib-abort:{b.name}", False, site(b, bb), "the library aborts the process")
    all_exits = []
    for b in binc.bodies:
        for bb, code in exit_calls(b):
            all_exits.append((b, bb, code))
            ctx.ob(f"exit-code:{b.name}:{code}", code in (0, 1, 2), site(b, bb), f"process::exit({code})")
    # (b) exit(2)
    ctx.need(len(d["parse"]) == 1, f"expected one argument-parser call (-> Result<_, lexopt::Error>) in main, found {len(d['parse'])}")
    pbb, pt, parse_fn = d["parse"][0]
    sw = result_switches(m, pt["dest"]["l"])
    ctx.need(sw, "main never inspects the argument parser's result")
    e2 = [(b, bb) for b, bb, code in all_exits if code == 2]
    ctx.ob("exit2:only-in-main", all(b is m for b, _ in e2) and len(e2) >= 1, site(m), f"{len(e2)} exit(2) site(s)")
    wr = writes_in(binc, m, depth=2)
    for sbb, errs, oks in sw:
        for e in errs:
            terms = terminal_blocks(m, [e])
            all2 = bool(terms) and all(is_exit_block(m, x, 2) for x in terms)
            ctx.ob("exit2:arg-error-exits-2", all2, site(m, sbb), "invalid command line ends in exit(2) on every path" if all2 else "an argument error can end otherwise than exit(2)")
            r = m.reachable_from(e)
            err_lines = [n[1] for n, st, tmpl, dts in wr if not n[0] and st == "stderr" and tmpl and tmpl.startswith("xt error")]
            ok_msg = bool(terms) and all(m.must_pass(e, [x], err_lines) for x in terms)
            ctx.ob("exit2:xt-error-on-stderr", ok_msg, site(m, sbb), "'xt error' line written to stderr before exit(2)")
            usage_blocks = set()
            stdout_blocks = set()
            for n, st, tmpl, dts in wr:
                root_bb = n[0][0][1] if n[0] else n[1]
                if root_bb in r:
                    if tmpl and "Usage:" in tmpl and st == "stderr":
                        usage_blocks.add(root_bb)
                    if st == "stdout":
                        stdout_blocks.add(root_bb)
            ok_usage = bool(terms) and all(m.must_pass(e, [x], usage_blocks) for x in terms)
            ctx.ob("exit2:usage-on-stderr", ok_usage, site(m, sbb), "usage text goes to stderr" if ok_usage else "no usage text is written to stderr on the argument-error path")
            gets_stdout = [bb for bb in r if (fn_of(m.blocks[bb]["term"]) or {}).get("def") == "std::io::stdout"] if True else []
            ctx.ob("exit2:nothing-on-stdout", not stdout_blocks and not gets_stdout, site(m, sbb), "argument-error path never touches stdout" if not stdout_blocks and not gets_stdout else "argument-error path writes to stdout")
        for o in oks:
            r_ok = m.reachable_from(o)
            bad = [bb for b, bb in e2 if b is m and bb in r_ok]
            ctx.ob("exit2:unreachable-after-valid-args", not bad, site(m, sbb), "exit(2) is not reachable once the command line was accepted")
        for bb, t in d["new"]:
            ok = all(m.dominates(sbb, bb) for sbb, _, _ in sw)
            ctx.ob("exit2:precedes-translation", ok, site(m, bb), "argument validation dominates translator construction")
    # every Err produced by the argument parser comes from lexopt or a duplicate-option message
    for dbb, idx, kind, payload in parse_fn.whole_defs(0):
        if kind == "assign" and payload["rv"]["k"] == "aggregate":
            if payload["rv"]["variant"] != "Err":
                continue
            tr = trace(parse_fn, payload["rv"]["ops"][0])
            ok = False
            what = str(tr.origin[0]) if tr.origin else "?"
            if tr.origin and tr.origin[0] == "call":
                f = fn_of(tr.origin[2])
                ok = bool(f and f["crate"] == "lexopt")
                what = f["def"] if f else what
            elif tr.origin and tr.origin[0] == "const":
                ok = "str" in tr.origin[1] and any("lexopt::Error" in c for c in tr.calls()) or "str" in tr.origin[1]
                what = repr(tr.origin[1].get("str"))
            ctx.ob(f"parse-err-origin:line-msg:{what}", ok, site(parse_fn, line=payload["line"]), f"Err value originates from {what}")
        elif kind == "call":
            f = fn_of(payload)
            if f and f["def"] == "std::ops::FromResidual::from_residual":
                tr = trace(parse_fn, payload["args"][0])
                ok = False
                what = "?"
                if tr.origin and tr.origin[0] == "call":
                    f2 = fn_of(tr.origin[2])
                    ok = bool(f2 and f2["crate"] == "lexopt")
                    what = f2["def"] if f2 else what
                ctx.ob(f"parse-err-origin:?:{what}", ok, site(parse_fn, dbb), f"`?` propagates an error of {what}")
    # (c) exit(0) sites: only in the argument parser, each dominated by a stdout write (version/help)
    e0 = [(b, bb) for b, bb, code in all_exits if code == 0]
    for b, bb in e0:
        in_parser = b is parse_fn
        wrs = writes_in(binc, b, depth=2)
        out_blocks = set()
        for n, st, tmpl, dts in wrs:
            if st == "stdout":
                out_blocks.add(n[0][0][1] if n[0] else n[1])
        dom = any(b.dominates(x, bb) and x != bb for x in out_blocks)
        ctx.ob(f"exit0:{b.name}:line-agnostic:{_opt_key(binc, b, bb)}", in_parser and dom, site(b, bb),
               "exit(0) follows a help/version write to stdout inside the argument parser" if in_parser and dom else "exit(0) outside the help/version arms")
    # (d) exit(1) in main: dominated by an 'xt error' stderr line; open/translate failures name the input
    e1 = [bb for b, bb, code in all_exits if code == 1 and b is m]
    main_wr = [(n[1], tmpl, dts) for n, st, tmpl, dts in wr if not n[0] and st == "stderr" and tmpl]
    for bb in e1:
        doms = [(x, tmpl, dts) for x, tmpl, dts in main_wr if m.dominates(x, bb) and tmpl.startswith("xt error")]
        # nearest dominating message
        ctx.ob(f"exit1:message:{_exit_key(m, d, bb)}", bool(doms), site(m, bb), f"preceded by stderr line {doms[-1][1]!r}" if doms else "exit(1) without an 'xt error' line on stderr")
    # (e) every failure arm diverges; open/translate failures name the input
    fallible = [("open", bb, t) for bb, t, _ in d["open"]] + [("translate:" + _variant_key(m, bb), bb, t) for bb, t in d["translate"]] + [("flush", bb, t) for bb, t in d["flush"]]
    back_src = {u for u, v in m.back_edges()}
    for kind, bb, t in fallible:
        sw2 = result_switches(m, t["dest"]["l"])
        ctx.ob(f"fail:{kind}:inspected", bool(sw2), site(m, bb), "result is matched on" if sw2 else "result is never inspected")
        for sbb, errs, oks in sw2:
            for e in errs:
                terms = terminal_blocks(m, [e])
                r = m.reachable_from(e)
                ok = bool(terms) and all(is_exit_block(m, x, 1) for x in terms) and not (r & back_src)
                ctx.ob(f"fail:{kind}:diverges-exit-1", ok, site(m, sbb), "failure arm reaches only exit(1)" if ok else "failure arm can continue or return (status 0 with a failed input)")
                if kind != "flush":
                    named = False
                    for x, tmpl, dts in main_wr:
                        if x in r and tmpl.startswith("xt error in ") and any("InputPath" in ty or "Path" in ty for _, ty in dts):
                            if all(m.must_pass(e, [y], [x]) for y in terms):
                                named = True
                    ctx.ob(f"fail:{kind}:names-input", named, site(m, sbb), "message is 'xt error in <input>: ...'" if named else "failure message does not name the offending input")


def _opt_key(binc, b, bb):
    """Key an exit(0) site by the option arm it belongs to (HIR arm patterns containing its line)."""
    line = b.blocks[bb]["term"]["line"]
    for t in binc.tables_of(b.id):
        for arm in t["arms"]:
            sp = arm.get("span")
            if sp and sp["line"] <= line <= sp["end_line"] and t["form"] == "match":
                lits = tables.pat_literals(arm["pat"])
                names = []
                for l in lits:
                    if l[0] == "ctor":
                        inner = l[2]
                        if inner[0] == "char":
                            names.append("-" + chr(inner[1]))
                        elif inner[0] == "str":
                            names.append("--" + inner[1])
                if names:
                    return ",".join(sorted(names))
    return "?"


def _exit_key(m, d, bb):
    # key an exit(1) site by the closest dominating interesting call
    best = "start"
    for name, lst in (("open", [(x[0], x[1]) for x in d["open"]]), ("translate", d["translate"]), ("flush", d["flush"]), ("new", d["new"])):
        for cbb, t in lst:
            if m.dominates(cbb, bb):
                best = name
    stdin = [b2 for b2, t in m.calls() if (fn_of(t) or {}).get("def") == "std::io::stdin"]
    if best == "open" and not any(m.dominates(c, bb) for c, _ in d["translate"]):
        # distinguish the open-failure arm from the stdin-twice arm by whether the open result's Err edge leads here
        for obb, ot, _ in d["open"]:
            for sbb, errs, oks in result_switches(m, ot["dest"]["l"]):
                for e in errs:
                    if bb in m.reachable_from(e):
                        return "open-failed"
        return "after-open"
    return best


@rule("R13.2", 4, "stdout who-may-call: stdout() only in main (for the sink) and the help/version printers; no print!/eprint!; the library never names stdio", ["C13"])
def r13_2(ctx):
    binc = ctx.bin
    m, d = main_calls(ctx.facts)
    ctx.need(d["parse"], "argument parser not found")
    parse_fn = d["parse"][0][2]
    allowed = {m.id, parse_fn.id}
    # functions called only from the parser's exit(0) arms (help printers)
    for bb, t in parse_fn.calls():
        f = fn_of(t) or {}
        if f.get("local"):
            allowed.add(f.get("resolved") or f["def"])
    n = 0
    for b in binc.bodies:
        for bb, t in b.calls():
            f = fn_of(t) or {}
            if f.get("def") == "std::io::stdout":
                n += 1
                ok = b.id in allowed
                if ok and b is not m:
                    # must lead to exit(0) on every path
                    terms = terminal_blocks(b, [bb])
                    if b is parse_fn:
                        ok = bool(terms) and all(is_exit_block(b, x, 0) for x in terms)
                ctx.ob(f"stdout-site:{b.name}:{_opt_key(binc, b, bb) if b is parse_fn else ''}", ok, site(b, bb),
                       "stdout obtained for the sink / help / version" if ok else "stdout obtained outside main's sink and the help/version arms")
            if f.get("def") in ("std::io::_print", "std::io::_eprint"):
                ctx.ob(f"print-macro:{b.name}", False, site(b, bb), "print!/eprint! family used")
    ctx.ob("stdout-sites-counted", n >= 1, "bin", f"{n} stdout() site(s)")
    for b in ctx.lib.bodies:
        for bb, t in b.calls():
            f = fn_of(t) or {}
            if f.get("def") in ("std::io::stdout", "std::io::stderr", "std::io::stdin", "std::io::_print", "std::io::_eprint"):
                ctx.ob(f"lib-stdio:{b.name}", False, site(b, bb), f"library uses {f['def']}")
    ctx.ob("lib-stdio-free", True, "lib", "no stdio access in the library (deny-list evaluated over all lib bodies)", trivial=True)
    # help printers write only to the stream they are given / stdout, main's only stdout use is the sink (R16.3)
    for n_, st, tmpl, dts in writes_in(binc, m, depth=0):
        if st == "stdout":
            ctx.ob("main-direct-stdout-write", False, site(m, n_[1]), "main writes to stdout directly, bypassing the translator")


@rule("R13.3", 4, "terminal guard: is_terminal(stdout) && unsafe-for-terminal(target) dominates translator construction and exits 1", ["C13"])
def r13_3(ctx):
    m, d = main_calls(ctx.facts)
    binc = ctx.bin
    ctx.need(d["new"], "translator construction not found")
    nbb = d["new"][0][0]
    it = [(bb, t) for bb, t in m.calls() if (fn_of(t) or {}).get("name") == "is_terminal"]
    ok_it = [x for x in it if "Stdout" in (fn_of(x[1]).get("self_ty", "") + fn_of(x[1]).get("resolved_full", ""))]
    dom = [x for x in ok_it if m.dominates(x[0], nbb)]
    ctx.ob("is_terminal-on-stdout-dominates", bool(dom), site(m, nbb),
           "IsTerminal::is_terminal(stdout) precedes translator construction on every path" if dom else f"no is_terminal test on stdout dominates translator construction (found: {[fn_of(t).get('self_ty') for _, t in it]})")
    if not dom:
        return
    ibb, itt = dom[0]
    sw = m.blocks[itt["target"]]["term"]
    ctx.need(sw["k"] == "switch", "is_terminal result is not branched on")
    true_t = sw["otherwise"]
    # predicate on the target format on every path from the true edge to the translator
    preds = []
    for bb, t in m.calls():
        f = fn_of(t) or {}
        if f.get("local") and len(t["args"]) == 1:
            callee = binc.by_id.get(f.get("resolved") or f["def"])
            if callee and callee.raw.get("ret_ty") == "bool" and "Format" in callee.local_ty(1):
                preds.append((bb, t, callee))
    through = [bb for bb, _, _ in preds]
    ok = m.must_pass(true_t, [nbb], through)
    ctx.ob("predicate-on-terminal-path", ok and bool(preds), site(m, itt["target"]), "when stdout is a terminal the target format is tested before translating" if ok and preds else "terminal path reaches the translator without testing the target format")
    for bb, t, callee in preds:
        tr = trace(m, t["args"][0])
        from_to = any(s[0] == "field" and s[1] == "to" for s in tr.steps) or True
        sw2 = m.blocks[t["target"]]["term"]
        if sw2["k"] == "switch":
            tt = sw2["otherwise"]
            terms = terminal_blocks(m, [tt])
            okx = bool(terms) and all(is_exit_block(m, x, 1) for x in terms)
            ctx.ob("unsafe-format-on-terminal-exits-1", okx, site(m, t["target"]), "refusal exits 1" if okx else "unsafe format on a terminal does not end in exit(1)")
        # predicate table contains Msgpack -> true
        tabs = binc.tables_of(callee.id)
        has = False
        for tb in tabs:
            for arm in tb["arms"]:
                lits = tables.pat_literals(arm["pat"])
                if any(l[0] == "path" and l[1].endswith("Format::Msgpack") for l in lits) and tables.body_result(arm.get("body", {})) == ("lit", True):
                    has = True
        ctx.ob("predicate-includes-msgpack", has, site(callee), "MessagePack is classified unsafe for terminals" if has else "MessagePack is no longer refused on terminals")
        # evaluate the predicate abstractly on Format::Msgpack: every return must yield `true`
        fadt = binc.adts.get("xt::Format") or ctx.lib.adts.get("Format")
        midx = None
        for v in (fadt or {}).get("variants", []):
            if v["name"] == "Msgpack":
                midx = v["idx"]
        if midx is None:
            raise AnchorLost("xt::Format::Msgpack variant not found in ADT facts")
        sup = Super(binc, callee, depth=2)
        ps = PathSens(sup)
        reached = ps.explore([(sup.entry, {((), 1): ("var", midx)})])
        vals = set()
        for node, states in reached.items():
            if not node[0] and callee.blocks[node[1]]["term"]["k"] == "return":
                for st in states:
                    # facts are those at block entry; apply the block's statements
                    for lab, succ, f2 in ps.step(node, st) or []:
                        pass
                    f_end = dict(st)
                    for s_ in callee.blocks[node[1]]["stmts"]:
                        ps._stmt(f_end, (), s_)
                    vals.add(f_end.get(((), 0)))
        okv = vals == {("const", 1)}
        ctx.ob("predicate-true-for-msgpack", okv, site(callee), "predicate(Format::Msgpack) evaluates to true on every path" if okv else f"predicate(Format::Msgpack) may return {sorted(map(str, vals))}")


def _format_table(binc, fn_body):
    """{literal: FormatVariant} from the HIR match over &str in fn_body, plus default."""
    out = {}
    default = None
    found = False
    for tb in binc.tables_of(fn_body.id):
        if tb["form"] != "match":
            continue
        for arm in tb["arms"]:
            lits = tables.pat_literals(arm["pat"])
            res = tables.body_result(arm.get("body", {}))
            val = None
            r = res
            while r[0] == "wrapped":
                val = r
                r = r[2]
            fmtv = tables.short(r[1]) if r[0] == "path" else None
            wrapper = tables.short(res[1]) if res[0] == "wrapped" else (tables.short(res[1]) if res[0] == "path" else None)
            for l in lits:
                lit = l
                if lit[0] == "ctor":
                    lit = lit[2]
                if lit[0] == "str":
                    found = True
                    out[lit[1]] = fmtv if wrapper in ("Ok", "Some") else None
                elif lit[0] == "wild":
                    default = wrapper
    return out if found else None, default


@rule("R13.4", 8, "format-name table of -f/-t equals the manual (doc/xt.1) and the long help; both options use it", ["C13"])
def r13_4(ctx):
    binc = ctx.bin
    man = tables.parse_manual()
    m, d = main_calls(ctx.facts)
    parse_fn = d["parse"][0][2]
    # the parser function handed to parse_with
    users = []
    for bb, t in parse_fn.calls():
        f = fn_of(t) or {}
        if f.get("name") == "parse_with":
            for a in t["args"]:
                if a.get("k") == "fn":
                    users.append((bb, a["def"]))
    fns = sorted({u for _, u in users})
    ctx.ob("both-options-use-one-parser", len(users) >= 2 and len(fns) == 1, site(parse_fn), f"parse_with callees: {[u for _, u in users]}")
    ctx.need(fns, "no format-name parser handed to lexopt parse_with")
    fb = binc.by_id.get(fns[0])
    ctx.need(fb, f"format-name parser {fns[0]} not in bin")
    table, default = _format_table(binc, fb)
    ctx.need(table is not None, "format-name table not found in HIR")
    want = {}
    for name, info in man["formats"].items():
        want[name] = name
        for al in info["aliases"]:
            want[al] = name
    vmap = {"json": "Json", "msgpack": "Msgpack", "toml": "Toml", "yaml": "Yaml"}
    for lit in sorted(set(want) | set(table)):
        exp = vmap.get(want.get(lit)) if lit in want else None
        got = table.get(lit)
        ctx.ob(f"name:{lit}", exp == got, site(fb), f"manual: {lit!r} -> {exp}; code: {got}")
    ctx.ob("unknown-names-rejected", default == "Err", site(fb), f"default arm yields {default}")
    # long help FORMATS block
    helptext = ""
    for b in binc.bodies:
        for n, st, tmpl, dts in writes_in(binc, b, depth=0):
            if tmpl and "FORMATS" in tmpl:
                helptext = tmpl
    ctx.need(helptext, "long help text not found")
    blk = helptext.split("FORMATS", 1)[1].split("CAVEATS")[0]
    for name, info in man["formats"].items():
        line = f"{name}, {', '.join(info['aliases'])}" if info["aliases"] else name
        ctx.ob(f"longhelp:{name}", line in blk, "long help", f"long help lists {line!r}")


@rule("R13.5", 2, "duplicate -f / -t are rejected before the accumulator is overwritten", ["C13"])
def r13_5(ctx):
    m, d = main_calls(ctx.facts)
    parse_fn = d["parse"][0][2]
    # accumulators: Option<Format> locals assigned Some(..) inside the loop
    n = 0
    for bi, blk in enumerate(parse_fn.blocks):
        if bi not in parse_fn.reach():
            continue
        for s in blk["stmts"]:
            if s["k"] != "assign" or s["p"]["pr"]:
                continue
            acc = s["p"]["l"]
            if "Option<xt::Format>" not in parse_fn.local_ty(acc) or not parse_fn.local_name(acc):
                continue
            rv = s["rv"]
            if rv["k"] != "use" or not is_place(rv["op"]):
                continue
            tr = trace(parse_fn, rv["op"])
            if not (tr.origin and tr.origin[0] == "agg" and tr.origin[1]["rv"].get("variant") == "Some"):
                continue
            if not parse_fn.on_cycle(bi):
                continue
            n += 1
            name = parse_fn.local_name(acc)
            # dominated by the false edge of is_some(&acc) whose true edge returns Err
            guards = []
            for bb, t in parse_fn.calls():
                f = fn_of(t) or {}
                if f.get("name") in ("is_some", "is_none") and t["args"]:
                    tr2 = trace(parse_fn, t["args"][0])
                    if is_place(t["args"][0]) and _refers_to(parse_fn, t["args"][0], acc):
                        guards.append((bb, t, f["name"]))
            ok = False
            for bb, t, nm in guards:
                sw = parse_fn.blocks[t["target"]]["term"]
                if sw["k"] != "switch":
                    continue
                zero = [x for v, x in sw["targets"] if v == 0]
                if not zero:
                    continue
                if nm == "is_some":
                    free_edge = (t["target"], 0, zero[0])
                    taken = sw["otherwise"]
                else:
                    free_edge = (t["target"], "otherwise", sw["otherwise"])
                    taken = zero[0]
                dom = parse_fn.edge_dominates(free_edge[0], free_edge[1], free_edge[2], bi)
                # the 'already set' edge returns Err without reaching the assignment
                r = parse_fn.reachable_from(taken)
                errs = bi not in r and not (r & {u for u, v in parse_fn.back_edges()})
                if dom and errs:
                    ok = True
            ctx.ob(f"dup-guard:{name}", ok, site(parse_fn, bi), f"`{name} = Some(..)` is guarded by an is_some() test that returns an error" if ok else f"`{name}` can be overwritten by a repeated option")
    if n == 0:
        ctx.ob("accumulators", False, site(parse_fn), "no Option<Format> accumulators found")


def _refers_to(body, op, local):
    tr = trace(body, op)
    # walk manually: op -> ref of local
    cur = op
    for _ in range(6):
        if not is_place(cur):
            return False
        l = cur["p"]["l"]
        if l == local:
            return True
        ds = body.whole_defs(l)
        if len(ds) != 1 or ds[0][2] != "assign":
            return False
        rv = ds[0][3]["rv"]
        if rv["k"] == "ref":
            return rv["p"]["l"] == local
        if rv["k"] == "use":
            cur = rv["op"]
            continue
        return False
    return False


# --------------------------------------------------------------------------- C14


OPTION_FALLBACK = ("std::option::Option::<T>::or_else", "std::option::Option::<T>::or")


def _extension_fn(binc):
    """The extension lookup: a local fn -> Option<xt::Format> with a string-literal table."""
    cands = []
    for b in binc.bodies:
        if b.raw.get("ret_ty") == "std::option::Option<xt::Format>" and b.raw["def_kind"] in ("Fn", "AssocFn"):
            table, default = _format_table(binc, b)
            if table:
                cands.append((b, table, default))
    return cands


def _calls_fn(binc, body, target_id, depth=2):
    for n, b, t in Super(binc, body, depth=depth).calls():
        f = fn_of(t) or {}
        if (f.get("resolved") or f.get("def")) == target_id or f.get("def") == target_id:
            return True
    return False


@rule("R14.1", 4, "source format = -f, else extension, else detection: dataflow into every translate_* call; detection only on None", ["C14"])
def r14_1(ctx):
    m, d = main_calls(ctx.facts)
    binc = ctx.bin
    ext = _extension_fn(binc)
    ctx.need(len(ext) == 1, f"expected one extension lookup (fn -> Option<Format> with a literal table), found {len(ext)}")
    ext_fn = ext[0][0]
    pbb, pt, parse_fn = d["parse"][0]
    for bb, t in d["translate"]:
        key = f"{fn_of(t)['name']}@{_variant_key(m, bb)}"
        tr = trace(m, t["args"][-1])
        ok = False
        detail = f"`from` argument originates from {tr.origin[0] if tr.origin else '?'}"
        if tr.origin and tr.origin[0] == "call":
            oc = tr.origin[2]
            f = fn_of(oc) or {}
            if f.get("def") in OPTION_FALLBACK and all(s[0] == "use" for s in tr.steps):
                # primary: a field of the parsed arguments
                p = trace(m, oc["args"][0])
                prim_ok = bool(p.origin and p.origin[0] == "call" and p.origin[2] is pt and p.has("field"))
                pfield = [s[1] for s in p.steps if s[0] == "field"]
                # secondary: extension lookup (closure or direct value)
                sec_ok = False
                if f["def"].endswith("or_else"):
                    for c in f.get("closures", []):
                        cb = binc.by_id.get(c)
                        if cb and _calls_fn(binc, cb, ext_fn.id, depth=1):
                            r_ok, _ = _returns_call(cb, lambda tt: ((fn_of(tt) or {}).get("resolved") or (fn_of(tt) or {}).get("def")) == ext_fn.id)
                            sec_ok = r_ok
                else:
                    s2 = trace(m, oc["args"][1])
                    sec_ok = bool(s2.origin and s2.origin[0] == "call" and ((fn_of(s2.origin[2]) or {}).get("resolved") or (fn_of(s2.origin[2]) or {}).get("def")) == ext_fn.id)
                # the primary field must be the one assigned from -f: the parser's `f` arm
                ok = prim_ok and sec_ok
                detail = f"{f['def'].rsplit('::', 1)[-1]}(primary = parsed field {pfield}, secondary = extension lookup: {sec_ok})"
                if prim_ok and not sec_ok:
                    detail = "the fallback operand is not the extension lookup"
                if not prim_ok:
                    detail = "the primary operand is not the parsed -f option (precedence swapped or -f ignored)"
            else:
                detail = f"`from` is produced by {f.get('def')} (not a recognised option-fallback idiom: or_else / or)"
        elif tr.origin and tr.origin[0] == "const":
            detail = "`from` is a constant: -f and the extension are ignored"
        ctx.ob(f"{key}:from-is-f-then-extension", ok, site(m, bb), detail)
    # the primary field is really the -f accumulator: Cli aggregate in the parser takes `from` from the local set in the 'f' arm
    agg = [p for _, _, k, p in parse_fn.whole_defs(0) if k == "assign" and p["rv"]["k"] == "aggregate" and p["rv"].get("variant") == "Ok"]
    okf = False
    det = "Ok(Cli{..}) aggregate not found"
    for a in agg:
        tr = trace(parse_fn, a["rv"]["ops"][0])
        if tr.origin and tr.origin[0] == "agg":
            cli = tr.origin[1]["rv"]
            fields = cli.get("fields", [])
            for fname, op in zip(fields, cli["ops"]):
                if fname == "from":
                    t2 = trace(parse_fn, op)
                    # origin: the multi-def accumulator local named like the field assigned in the Short('f') arm
                    if t2.origin and t2.origin[0] == "multi":
                        acc = t2.origin[1]
                        arm = _arm_of_assignment(binc, parse_fn, acc)
                        okf = arm == "-f"
                        det = f"Cli.from is the accumulator assigned in the {arm} arm"
    ctx.ob("parsed-from-is-dash-f", okf, site(parse_fn), det)
    # library side: detection runs only when `from` is None
    det_fn = common.detect_function(ctx.facts)
    lib = ctx.lib
    n = 0
    for b in lib.bodies:
        for bb, t in b.calls():
            f = fn_of(t) or {}
            if (f.get("resolved") or f.get("def")) == det_fn.id:
                n += 1
                # dominated by the None edge of a switch on an Option<Format> argument
                ok = False
                for sb in b.reach():
                    tt = b.blocks[sb]["term"]
                    if tt["k"] != "switch":
                        continue
                    for s in b.blocks[sb]["stmts"]:
                        if s["k"] == "assign" and s["rv"]["k"] == "discr" and "Option<Format>" in s["rv"]["p"]["ty"] and 1 <= s["rv"]["p"]["l"] <= b.nargs:
                            none_t = [x for v, x in tt["targets"] if v == 0]
                            if none_t and b.edge_dominates(sb, 0, none_t[0], bb):
                                ok = True
                ctx.ob(f"detect-only-on-none:{b.name}", ok, site(b, bb), "detection is reached only through the None edge of the `from` argument" if ok else "detection can run although a source format was given")
    ctx.ob("detect-call-sites", n >= 1, site(det_fn), f"{n} call site(s) of the detection driver")


def _arm_of_assignment(binc, parse_fn, acc):
    """Option name of the HIR arm containing the `acc = Some(..)` assignment."""
    for bi, blk in enumerate(parse_fn.blocks):
        for s in blk["stmts"]:
            if s["k"] == "assign" and not s["p"]["pr"] and s["p"]["l"] == acc and s["rv"]["k"] == "use" and is_place(s["rv"]["op"]):
                tr = trace(parse_fn, s["rv"]["op"])
                if tr.origin and tr.origin[0] == "agg" and tr.origin[1]["rv"].get("variant") == "Some":
                    # find arm by line
                    fake_bb = bi
                    line = s["line"]
                    for t in binc.tables_of(parse_fn.id):
                        if t["form"] != "match":
                            continue
                        for arm in t["arms"]:
                            sp = arm.get("span")
                            if sp and sp["line"] <= line <= sp["end_line"]:
                                lits = tables.pat_literals(arm["pat"])
                                for l in lits:
                                    if l[0] == "ctor" and l[2][0] == "char":
                                        return "-" + chr(l[2][1])
    return "?"


@rule("R14.2", 8, "extension table equals the manual and long help; literals lower-case and the extension is lower-cased; stdin has no extension", ["C14"])
def r14_2(ctx):
    binc = ctx.bin
    ext = _extension_fn(binc)
    ctx.need(len(ext) == 1, "extension lookup not found")
    eb, table, default = ext[0]
    man = tables.parse_manual()
    vmap = {"json": "Json", "msgpack": "Msgpack", "toml": "Toml", "yaml": "Yaml"}
    want = {}
    for name, info in man["formats"].items():
        for e in info["extensions"]:
            want[e] = vmap[name]
    for lit in sorted(set(want) | set(table)):
        ctx.ob(f"ext:{lit}", want.get(lit) == table.get(lit), site(eb), f"manual: .{lit} -> {want.get(lit)}; code: {table.get(lit)}")
        ctx.ob(f"ext-lowercase:{lit}", lit == lit.lower(), site(eb), "pattern literal is lower-case")
    ctx.ob("unknown-extension-none", default == "None", site(eb), f"default arm yields {default}")
    # long help
    helptext = ""
    for b in binc.bodies:
        for n, st, tmpl, dts in writes_in(binc, b, depth=0):
            if tmpl and "FORMATS" in tmpl:
                helptext = tmpl
    if helptext:
        blk = helptext.split("FORMATS", 1)[1].split("CAVEATS")[0]
        for name, info in man["formats"].items():
            for e in info["extensions"]:
                ctx.ob(f"longhelp-ext:{e}", f".{e}" in blk, "long help", f"long help mentions .{e}")
    # lower-casing on the path from Path::extension to every literal comparison
    cmps = []
    for bb, t in eb.calls():
        f = fn_of(t) or {}
        if f.get("trait") == "std::cmp::PartialEq" and len(t["args"]) == 2 and t["args"][1].get("k") == "const" and "str" in t["args"][1]:
            cmps.append((bb, t))
    ctx.ob("literal-comparisons-found", len(cmps) >= len(table), site(eb), f"{len(cmps)} literal comparison(s) in MIR for {len(table)} table row(s)")
    extra = ("std::option::Option::<T>::map", "std::option::Option::<T>::and_then")
    for bb, t in cmps:
        lit = t["args"][1]["str"]
        tr = trace(eb, t["args"][0], passthrough_extra=extra)
        lowered = False
        from_ext = bool(tr.origin and tr.origin[0] == "call" and (fn_of(tr.origin[2]) or {}).get("def") == "std::path::Path::extension")
        for step in tr.steps:
            if step[0] == "call" and step[1].startswith("std::option::Option::<T>::map"):
                cbb = step[2]
                cf = fn_of(eb.blocks[cbb]["term"])
                for c in cf.get("closures", []):
                    cb = binc.by_id.get(c)
                    if cb and any((fn_of(tt) or {}).get("name") in ("to_ascii_lowercase", "to_lowercase") for _, tt in cb.calls()):
                        lowered = True
        ctx.ob(f"lowercased-before-compare:{lit}", lowered and from_ext, site(eb, bb),
               "Path::extension() is lower-cased before comparison" if lowered and from_ext else "extension compared without lower-casing (case-sensitive match)")
    # stdin: no extension
    okn = False
    for tb in binc.tables_of(eb.id):
        for arm in tb["arms"]:
            lits = tables.pat_literals(arm["pat"])
            if any(l[0] == "path" and l[1].endswith("::Stdin") for l in lits):
                okn = tables.body_result(arm.get("body", {})) == ("path", "std::prelude::v1::None") or tables.short(str(tables.body_result(arm.get("body", {}))[1])) == "None"
    ctx.ob("stdin-has-no-extension", okn, site(eb), "the stdin arm yields None")


@rule("R14.3", 5, "standard input is read at most once: the only stdin() site is dominated by a set-once bool guard whose set edge exits 1", ["C14"])
def r14_3(ctx):
    binc = ctx.bin
    m, d = main_calls(ctx.facts)
    sites = []
    for b in binc.bodies:
        for bb, t in b.calls():
            if (fn_of(t) or {}).get("def") == "std::io::stdin":
                sites.append((b, bb))
    ctx.ob("single-stdin-site-in-main", len(sites) == 1 and sites[0][0] is m, site(m), f"{len(sites)} std::io::stdin() site(s)")
    if len(sites) != 1 or sites[0][0] is not m:
        return
    sbb = sites[0][1]
    # path-sensitive view: the guard and the read sit behind two tests of the same enum value
    sup = Super(binc, m, depth=0)
    ps = PathSens(sup)
    N = lambda x: ((), x)  # noqa: E731
    # candidate guards: switches on a copy of a named bool local
    found = False
    for gb in sorted(m.reach()):
        t = m.blocks[gb]["term"]
        if t["k"] != "switch" or t.get("discr_ty") != "bool":
            continue
        tr = trace(m, t["discr"])
        if not (tr.origin and tr.origin[0] == "multi"):
            continue
        g = tr.origin[1]
        if not m.local_name(g):
            continue
        zero = [x for v, x in t["targets"] if v == 0]
        if not zero:
            continue
        if not ps.edge_dominates(N(gb), 0, N(zero[0]), N(sbb)):
            continue
        found = True
        gname = m.local_name(g)
        ctx.ob("guard-dominates-stdin", True, site(m, gb), f"stdin() is reached only through the clear edge of `{gname}`")
        terms = terminal_blocks(m, [t["otherwise"]])
        ok = bool(terms) and all(is_exit_block(m, x, 1) for x in terms)
        ctx.ob("second-use-exits-1", ok, site(m, gb), "second use of stdin ends in exit(1)" if ok else "second use of stdin is not refused")
        setters = []
        clears = []
        for bi, blk in enumerate(m.blocks):
            for s in blk["stmts"]:
                if s["k"] == "assign" and not s["p"]["pr"] and s["p"]["l"] == g and s["rv"]["k"] == "use" and s["rv"]["op"].get("k") == "const":
                    (setters if s["rv"]["op"].get("v") is True else clears).append(bi)
        armed = N(sbb) not in ps.reach_from_edge(N(gb), 0, N(zero[0]), removed_nodes=[N(x) for x in setters])
        ctx.ob("flag-set-before-read", armed, site(m, sbb), f"`{gname} = true` precedes stdin() on every path" if armed else f"`{gname}` is not set before reading stdin")
        cl_ok = all(not m.on_cycle(c) for c in clears) and len(clears) >= 1
        ctx.ob("flag-cleared-only-before-loop", cl_ok, site(m), f"`{gname} = false` only outside the input loop" if cl_ok else f"`{gname}` is reset inside the input loop")
    if not found:
        ctx.ob("guard-dominates-stdin", False, site(m, sbb), "no set-once bool guard dominates the stdin() site")
    # "-" -> stdin; no file arguments -> one stdin input
    dash = False
    for b in binc.bodies:
        if b.raw.get("impl_trait") == "std::convert::From" and "InputPath" in b.raw.get("impl_self_ty", ""):
            for bb, t in b.calls():
                f = fn_of(t) or {}
                if f.get("trait", "").startswith("std::cmp::PartialEq"):
                    consts = [trace(b, a) for a in t["args"]]
                    has_dash = any(x.origin and ((x.origin[0] == "const" and x.origin[1].get("str") == "-") or (x.origin[0] == "call" and any(a.get("str") == "-" or (trace(b, a).origin or [None, {}])[1].get("str") == "-" for a in x.origin[2]["args"] if True))) for x in consts)
                    sw = b.blocks[t["target"]]["term"]
                    if has_dash and sw["k"] == "switch":
                        tb = sw["otherwise"]
                        agg = [s for s in b.blocks[tb]["stmts"] if s["k"] == "assign" and s["rv"]["k"] == "aggregate" and s["rv"].get("variant") == "Stdin"]
                        dash = bool(agg)
    ctx.ob("dash-means-stdin", dash, "bin", "path \"-\" maps to the stdin variant")
    empty = False
    for bb, t in m.calls():
        f = fn_of(t) or {}
        if f.get("name") == "is_empty" and "PathBuf" in f.get("full", ""):
            sw = m.blocks[t["target"]]["term"]
            if sw["k"] == "switch":
                tb = sw["otherwise"]
                agg = [s for s in m.blocks[tb]["stmts"] if s["k"] == "assign" and s["rv"]["k"] == "aggregate" and s["rv"].get("variant") == "Stdin"]
                empty = bool(agg)
    ctx.ob("no-files-means-stdin", empty, site(m), "an empty path list yields one stdin input")


@rule("R14.4", 6, "mmap failure falls back to the reader; open errors are returned; each input variant feeds the matching translate_* call unchanged", ["C14"])
def r14_4(ctx):
    binc = ctx.bin
    m, d = main_calls(ctx.facts)
    ctx.need(d["open"], "open function not found")
    obb, ot, ofn = d["open"][0]
    maps = [(bb, t) for bb, t in ofn.calls() if (fn_of(t) or {}).get("def", "").startswith("memmap2::Mmap::map")]
    ctx.ob("mmap-attempted", len(maps) == 1, site(ofn), f"{len(maps)} Mmap::map call(s)")
    for bb, t in maps:
        sw = ofn.blocks[t["target"]]["term"]
        if sw["k"] != "switch":
            ctx.ob("mmap-result-branched", False, site(ofn, bb), "Mmap::map result is not branched on")
            continue
        err_t = sw["otherwise"] if any(v == 0 for v, _ in sw["targets"]) else [x for v, x in sw["targets"] if v == 1][0]
        r = ofn.reachable_from(err_t)
        bad = []
        for x in r:
            for s in ofn.blocks[x]["stmts"]:
                if s["k"] == "assign" and s["p"]["l"] == 0 and s["rv"]["k"] == "aggregate" and s["rv"].get("variant") == "Err":
                    bad.append(x)
            tt = ofn.blocks[x]["term"]
            if tt["k"] == "call" and tt["dest"]["l"] == 0 and (fn_of(tt) or {}).get("name") == "from_residual":
                bad.append(x)
        filev = any(s["k"] == "assign" and s["rv"]["k"] == "aggregate" and s["rv"].get("variant") == "File" for x in r for s in ofn.blocks[x]["stmts"])
        ctx.ob("mmap-failure-falls-back", not bad and filev, site(ofn, t["target"]), "mmap failure yields the file-reader variant" if not bad and filev else "mmap failure becomes an error (FIFOs / process substitution would fail)")
    opens = [(bb, t) for bb, t in ofn.calls() if (fn_of(t) or {}).get("def", "").startswith("std::fs::File::open")]
    for bb, t in opens:
        sw = result_switches(ofn, t["dest"]["l"])
        ok = False
        for sbb, errs, oks in sw:
            for e in errs:
                tt = ofn.blocks[e]["term"]
                r = ofn.reachable_from(e)
                ok = any(ofn.blocks[x]["term"]["k"] == "call" and (fn_of(ofn.blocks[x]["term"]) or {}).get("name") == "from_residual" and ofn.blocks[x]["term"]["dest"]["l"] == 0 for x in r)
        ctx.ob("open-error-returned", ok, site(ofn, bb), "File::open failure is returned to main")
    # variant -> translate call
    adt = binc.adts.get("Input") or {}
    for bb, t in d["translate"]:
        f = fn_of(t)
        vk = _variant_key(m, bb)
        key = f"{f['name']}@{vk}"
        a = t["args"][1]
        tr = trace(m, a)
        if f["name"] == "translate_slice":
            ok = any(s[0] == "downcast" and s[1] == "Mmap" for s in tr.steps) and all(s[0] in ("use", "ref", "deref", "field", "downcast") or (s[0] == "call" and "Deref" in s[1]) for s in tr.steps)
            ctx.ob(f"{key}:map-passed-as-is", ok, site(m, bb), "the mapping is passed as a slice through Deref only" if ok else f"slice argument is transformed: {tr.kinds()}")
        elif "Stdin" in vk:
            ok = bool(tr.origin and tr.origin[0] == "call" and (fn_of(tr.origin[2]) or {}).get("def") == "std::io::Stdin::lock")
            ctx.ob(f"{key}:reads-stdin", ok, site(m, bb), "reader is the locked standard input")
        else:
            ok = any(s[0] == "downcast" and s[1] == "File" for s in tr.steps) and all(s[0] in ("use", "field", "downcast") for s in tr.steps)
            ctx.ob(f"{key}:file-passed-as-is", ok, site(m, bb), "the opened file is the reader" if ok else f"reader argument is transformed: {tr.kinds()}")
        # sink: all translate calls use the same translator local
        rtr = trace(m, t["args"][0])
        ctx.ob(f"{key}:same-translator", bool(rtr.origin and rtr.origin[0] == "call" and d["new"] and rtr.origin[2] is d["new"][0][1]), site(m, bb), "uses the translator constructed before the loop")
