"""CLI rules: C13 (exit status / stream discipline), C14 (source-format resolution), C15 (flush),
C16 (broken pipe wrapper), plus the flush-layer rule R12.3 shared with C12/C15."""
import re

from engine import rule, AnchorLost
from model import strace_deep, Super, PathSens, strace, carriers, switches_on_carriers, fn_of, trace, is_place, site, const_value, kind_tests
import common
import tables


# --------------------------------------------------------------------------- helpers


def exit_calls(body):
    out = []
    for bb, t in body.calls():
        f = fn_of(t)
        if f and f["def"] == "std::process::exit":
            code = const_value(t["args"][0]) if t["args"] else None
            out.append((bb, code))
    return out


def stream_of(ty):
    if "Stderr" in ty:
        return "stderr"
    if "Stdout" in ty:
        return "stdout"
    return None


def display_types(body, args_op):
    """Types T of the Argument::new_display::<T> calls feeding a fmt::Arguments::new args array."""
    tr = trace(body, args_op)
    out = []
    if tr.origin and tr.origin[0] == "agg":
        for o in tr.origin[1]["rv"]["ops"]:
            t2 = trace(body, o)
            if t2.origin and t2.origin[0] == "call":
                f = fn_of(t2.origin[2])
                if f and "Argument" in f["def"]:
                    out.append((f["name"], f["args"][-1] if f["args"] else "?"))
    return out


def writes_in(crate, body, depth=2):
    """[(node, stream, template_text, display_types)] for io::Write calls in `body` and (generic)
    local callees; the stream of a generic `W` receiver is resolved from the call's type argument."""
    sup = Super(crate, body, depth=depth)
    out = []
    for n, b, t in sup.calls():
        if not common.is_io_write_call(t):
            continue
        f = fn_of(t)
        st = stream_of(f.get("self_ty", ""))
        if st is None and n[0]:
            # receiver type is a type parameter of an inlined callee: look at the caller's generic args
            caller_id, cbb, _ = n[0][-1]
            cb = sup.body_of((n[0][:-1], 0)) if n[0][:-1] else sup.root
            cf = fn_of(cb.blocks[cbb]["term"])
            for a in (cf or {}).get("args", []):
                st = st or stream_of(a)
        tmpl = None
        dts = []
        if f["name"] == "write_fmt" and len(t["args"]) > 1:
            tp = common.template_of(b, t["args"][1])
            if tp:
                tmpl = tp[1]
            tr = trace(b, t["args"][1])
            if tr.origin and tr.origin[0] == "call" and len(tr.origin[2]["args"]) > 1:
                dts = display_types(b, tr.origin[2]["args"][1])
        out.append((n, st, tmpl, dts))
    return out


def result_switches(body, local):
    """Switch blocks that branch on the Result held in `local` (directly or through `?`).
    Returns [(bb, err_targets, ok_targets)]."""
    locs = {local}
    # one hop through Try::branch
    for bb, t in body.calls():
        f = fn_of(t)
        if f and f["def"] == "std::ops::Try::branch" and t["args"] and is_place(t["args"][0]):
            if t["args"][0]["p"]["l"] in locs and not t["dest"]["pr"]:
                locs.add(t["dest"]["l"])
    # moves of the result into another local (`let r = ...; match r`)
    changed = True
    while changed:
        changed = False
        for bi, blk in enumerate(body.blocks):
            for s in blk["stmts"]:
                if s["k"] == "assign" and not s["p"]["pr"] and s["rv"]["k"] == "use" and is_place(s["rv"]["op"]):
                    src = s["rv"]["op"]["p"]
                    if not src["pr"] and src["l"] in locs and s["p"]["l"] not in locs:
                        locs.add(s["p"]["l"])
                        changed = True
    out = []
    for bi in sorted(body.reach()):
        blk = body.blocks[bi]
        t = blk["term"]
        if t["k"] != "switch" or not is_place(t["discr"]):
            continue
        dl = t["discr"]["p"]["l"]
        src = None
        for s in blk["stmts"]:
            if s["k"] == "assign" and s["p"]["l"] == dl and s["rv"]["k"] == "discr" and not s["rv"]["p"]["pr"]:
                src = s["rv"]["p"]["l"]
        if src not in locs:
            continue
        err = [tt for v, tt in t["targets"] if v == 1]
        ok = [tt for v, tt in t["targets"] if v != 1]
        other = t["otherwise"]
        if body.blocks[other]["term"]["k"] != "unreachable":
            if any(v == 1 for v, _ in t["targets"]):
                ok.append(other)
            else:
                # `[0 -> ok, else -> err]`
                err.append(other)
        out.append((bi, err, ok))
    return out


def terminal_blocks(body, start_blocks):
    """Blocks without successors reachable from start_blocks."""
    r = body.reachable_from(list(start_blocks))
    return [b for b in r if not body.succ(b)]


def is_exit_block(body, bb, code=None):
    t = body.blocks[bb]["term"]
    if t["k"] != "call":
        return False
    f = fn_of(t)
    if not f or f["def"] != "std::process::exit":
        return False
    if code is None:
        return True
    return const_value(t["args"][0]) == code


def main_calls(facts):
    """Key call sites of `main`."""
    m = common.bin_main(facts)
    d = {"translate": [], "flush": [], "new": [], "open": [], "parse": []}
    for bb, t in m.calls():
        f = fn_of(t)
        if not f:
            continue
        if f["crate"] == "xt" and not f["local"]:
            if f["name"].startswith("translate"):
                d["translate"].append((bb, t))
            elif f["name"] == "flush":
                d["flush"].append((bb, t))
            elif f["name"] == "new" and "Translator" in f["def"]:
                d["new"].append((bb, t))
        elif f["local"]:
            callee = facts.bin.by_id.get(f.get("resolved") or f["def"]) or facts.bin.by_id.get(f["def"])
            if callee is None:
                continue
            rt = callee.raw.get("ret_ty", "")
            if rt.startswith("std::result::Result<") and "lexopt::Error" in rt:
                d["parse"].append((bb, t, callee))
            elif rt.startswith("std::result::Result<Input") or (rt.startswith("std::result::Result<") and "std::io::Error" in rt and callee.nargs == 1):
                d["open"].append((bb, t, callee))
    return m, d


# --------------------------------------------------------------------------- C15


def _returns_call(body, pred):
    """Every definition of the return place is a call satisfying pred; returns (ok, detail)."""
    ds = body.whole_defs(0)
    if not ds:
        return False, "return place never assigned from a call"
    for bb, idx, kind, payload in ds:
        if kind == "call":
            if not pred(payload):
                return False, f"returns the result of {fn_of(payload)['def'] if fn_of(payload) else '?'}"
            continue
        # `_0 = move _x` where _x is the call result
        rv = payload.get("rv", {})
        if rv.get("k") == "use":
            tr = trace(body, rv["op"])
            if tr.origin and tr.origin[0] == "call" and pred(tr.origin[2]) and not [s for s in tr.steps if s[0] not in ("use",)]:
                continue
        return False, f"return value built locally at line {payload.get('line')} instead of forwarding the callee's result"
    return True, "returns the callee's result unchanged"


@rule("R12.3", 9, "flush reaches the writer through every layer and each layer returns the callee's result unchanged", ["C12", "C15"])
def r12_3(ctx):
    lib = ctx.lib
    outs = common.output_impls(ctx.facts)
    disp = common.dispatcher_impl(ctx.facts)
    # layer 1: the public translator flush
    tfl = [b for b in lib.bodies if b.name == "flush" and b.raw.get("vis") == "Public" and "Translator" in b.raw.get("impl_self_ty", "")]
    ctx.need(len(tfl) == 1, "public Translator::flush not found")
    tfl = tfl[0]
    dfl = common.method_body(lib, disp, common.output_trait(ctx.facts)["flush"])
    ctx.need(dfl, "dispatcher flush not found")
    ok, det = _returns_call(tfl, lambda t: (fn_of(t) or {}).get("resolved") == dfl.id or (fn_of(t) or {}).get("def") == dfl.id)
    ctx.ob("translator", ok, site(tfl), det)
    # layer 2: dispatcher arms -> each format's flush
    fmt_flush_ids = {o["flush"].id: f for f, o in outs.items()}
    seen = set()

    def pred2(t):
        f = fn_of(t) or {}
        r = f.get("resolved") or f.get("def")
        if r in fmt_flush_ids:
            seen.add(fmt_flush_ids[r])
            return True
        return False

    ok, det = _returns_call(dfl, pred2)
    ctx.ob("dispatcher", ok, site(dfl), det)
    for fmt in sorted(outs):
        ctx.ob(f"dispatcher-arm:{fmt}", fmt in seen, site(dfl), f"dispatcher forwards flush to the {fmt} output" if fmt in seen else f"no dispatcher arm flushes the {fmt} output")
    # layer 3: each format's flush -> io::Write::flush on the sink field of self
    for fmt, o in sorted(outs.items()):
        b = o["flush"]

        def pred3(t, b=b):
            f = fn_of(t) or {}
            if f.get("trait") != "std::io::Write" or f.get("name") != "flush":
                return False
            tr = trace(b, t["args"][0])
            return bool(tr.origin and tr.origin[0] == "arg" and tr.origin[1] == 1 and tr.has("field"))

        ok, det = _returns_call(b, pred3)
        ctx.ob(f"format:{fmt}", ok, site(b), det if not ok else "returns <W as io::Write>::flush(&mut self.<sink>) unchanged")


# --------------------------------------------------------------------------- C16


def wrapper_impl(facts):
    """The io::Write impl of the type wrapped around stdout and handed to Translator::new."""
    import cliview

    v = cliview.view(facts)
    m = v.main
    if not v.new:
        raise AnchorLost("no xt::Translator construction reachable from main")
    f = fn_of(v.new[0][2])
    wty = f["args"][0] if f["args"] else ""
    imps = [i for i in facts.bin.impls if i.get("trait") == "std::io::Write" and i.get("self_adt")]
    if re.match(r"^[A-Z][A-Za-z0-9]*$", wty):
        # the translator is built inside a generic helper (`Session::<W>::new`): the sink type is bound by
        # the generic arguments of the call sites leading there
        node = v.new[0][0]
        path = node[0]
        for k_ in range(len(path), 0, -1):
            caller_id, cbb, _ = path[k_ - 1]
            cb = v.sup.body_of((path[: k_ - 1], 0)) if k_ - 1 > 0 else v.sup.root
            cf = fn_of(cb.blocks[cbb]["term"]) or {}
            cands = [a for a in cf.get("args", []) if any(i["self_adt"] in a for i in imps)]
            if not cands:
                cands = [cb.local_ty(a["p"]["l"]) for a in cb.blocks[cbb]["term"]["args"] if is_place(a) and any(i["self_adt"] in cb.local_ty(a["p"]["l"]) for i in imps)]
            if cands:
                wty = cands[0]
                break
    used = [i for i in imps if i["self_adt"] in wty]
    return m, wty, used, imps


def _check_like(binc, callee):
    """A function that hands back an io::Result and asks for an error's kind() somewhere in its (inlined) body:
    the scope in which the broken-pipe check lives (`fn check(r: io::Result<T>) -> io::Result<T>`, or a
    `fn checked(&mut self, op: impl FnOnce(&mut W) -> io::Result<T>) -> io::Result<T>` that runs `op` itself)."""
    rt = callee.local_ty(0)
    if not (rt.startswith("std::result::Result<") and "std::io::Error" in rt):
        return False
    return any((fn_of(t) or {}).get("def") == "std::io::Error::kind" for _, _, t in Super(binc, callee, depth=2).calls())


_IDENTITY_COMBINATORS = ("std::result::Result::<T, E>::map_err", "std::result::Result::<T, E>::inspect_err", "std::result::Result::<T, E>::or_else")


def _closure_returns_param(binc, cid):
    """The closure hands back its own (first) value parameter unchanged (`|err| { ..; err }`)."""
    cb = binc.by_id.get(cid)
    if cb is None:
        return False
    tr = trace(cb, {"k": "copy", "p": {"l": 0, "pr": []}})
    if tr.origin == ("arg", 2) and all(s_[0] == "use" for s_ in tr.steps):
        return True
    # `Err(err)` for or_else-style closures
    if tr.origin and tr.origin[0] == "agg" and tr.origin[1]["rv"].get("variant") == "Err" and tr.origin[1]["rv"]["ops"]:
        t2 = trace(cb, tr.origin[1]["rv"]["ops"][0])
        return t2.origin == ("arg", 2) and all(s_[0] == "use" for s_ in t2.steps)
    # `|err| check(Err(err))`: the same, handed through a helper that gives its argument back
    if tr.origin and tr.origin[0] == "call" and (fn_of(tr.origin[2]) or {}).get("local"):
        rets = cb.return_blocks()
        csup = Super(binc, cb, depth=2)
        if rets:
            td = strace_deep(csup, ((), rets[0]), {"k": "copy", "p": {"l": 0, "pr": []}})
            if td.origin and td.origin[0] == "agg" and not td.origin_node[0] and td.origin[1]["rv"].get("variant") == "Err" and td.origin[1]["rv"]["ops"] and all(s_[0] in ("use", "enter_caller", "enter_callee", "ref", "deref") for s_ in td.steps):
                t2 = trace(cb, td.origin[1]["rv"]["ops"][0])
                return t2.origin == ("arg", 2) and all(s_[0] == "use" for s_ in t2.steps)
    return False


def _derives_unchanged_call(binc, sup, pt, target_call, depth):
    """The call a payload was traced to is a closure/helper invocation whose own result is the target call's."""
    ct = pt.origin[2]
    onode = (pt.origin_node[0], pt.origin[1])
    inl = [m for lab, m in sup.edges(onode) if lab in ("call", "maycall")]
    for m in inl:
        cb = sup.body_of(m)
        rets = cb.return_blocks()
        if rets and _derives_unchanged(binc, sup, (m[0], rets[0]), {"k": "copy", "p": {"l": 0, "pr": []}}, target_call, depth + 1):
            return True
    return False


def _derives_unchanged(binc, sup, node, op, target_call, depth=0):
    """The value read by `op` at `node` is the result of `target_call`, unchanged: through moves, helper
    parameters and returns, and through `.map_err(|e| { ..; e })`-style combinators that give the error back."""
    if depth > 6:
        return False
    tr = strace_deep(sup, node, op)
    if tr.origin and tr.origin[0] == "multi" and all(s_[0] in ("use", "enter_caller", "enter_callee") for s_ in tr.steps):
        # the Result taken apart and put together again, variant by variant:
        # `match r { Ok(v) => return Ok(v), Err(e) => e }; ..; Err(e)`
        onode = tr.origin_node
        obody = sup.body_of(onode)
        seen_v = set()
        for db, _, kind, payload in tr.origin[2]:
            if kind != "assign" or payload["rv"]["k"] != "aggregate" or payload["rv"].get("variant") not in ("Ok", "Err") or len(payload["rv"]["ops"]) != 1:
                return False
            v_ = payload["rv"]["variant"]
            pt = strace_deep(sup, (onode[0], db), payload["rv"]["ops"][0])
            if not (pt.origin and pt.origin[0] == "call" and any(s_[0] == "downcast" and s_[1] == v_ for s_ in pt.steps) and all(s_[0] in ("use", "enter_caller", "enter_callee", "field", "downcast", "ref", "deref") for s_ in pt.steps)):
                return False
            if pt.origin[2] is not target_call:
                # the parts may come from a helper's result that is itself the target, unchanged
                if not _derives_unchanged_call(binc, sup, pt, target_call, depth):
                    return False
            seen_v.add(v_)
        return seen_v == {"Ok", "Err"}
    if not (tr.origin and tr.origin[0] == "call" and all(s_[0] in ("use", "enter_caller", "enter_callee", "ref", "deref") for s_ in tr.steps)):
        return False
    ct = tr.origin[2]
    if ct is target_call:
        return True
    cf = fn_of(ct) or {}
    onode = (tr.origin_node[0], tr.origin[1])
    if cf.get("def") == "std::result::Result::<T, E>::map" and ct["args"] and is_place(ct["args"][0]) and not ct["dest"]["pr"]:
        # `r.map(drop)` on a Result<(), E>: the only value of `()` is `()`, and the error is untouched
        ob_ = sup.body_of(onode)
        ity, oty = ob_.local_ty(ct["args"][0]["p"]["l"]), ob_.local_ty(ct["dest"]["l"])
        if ity == oty and ity.startswith("std::result::Result<(), "):
            return _derives_unchanged(binc, sup, onode, ct["args"][0], target_call, depth + 1)
    if cf.get("def") in _IDENTITY_COMBINATORS and ct["args"]:
        cls = cf.get("closures", [])
        if cf["def"].endswith("inspect_err") or (cls and all(_closure_returns_param(binc, c) for c in cls)):
            return _derives_unchanged(binc, sup, onode, ct["args"][0], target_call, depth + 1)
    return False


def _returned_via_try(binc, sup, b, it_, inode):
    """The method's own body takes the (checked) inner result apart with `?` and returns Ok again afterwards.
    Returns None when there is no such `?`; else (ok, check callee ids, skip blocks, continue-edge, detail):
    ok when every definition of the return value is the `?`'s error return, an `Ok(..)` built under the `?`'s
    Continue edge (with the Continue payload, or unit), or an `Ok(())` on a path that never reaches the inner call
    (a skip block, judged separately)."""
    brs = []
    for bb, t in b.calls():
        f = fn_of(t) or {}
        if f.get("def") == "std::ops::Try::branch" and t["args"] and _derives_unchanged(binc, sup, ((), bb), t["args"][0], it_):
            brs.append((bb, t))
    if len(brs) != 1:
        return None
    bb, br = brs[0]
    chk = []
    tr = strace_deep(sup, ((), bb), br["args"][0])
    for s_ in tr.steps:
        if s_[0] == "enter_callee" and s_[1] in binc.by_id and _check_like(binc, binc.by_id[s_[1]]):
            chk.append(s_[1])
    sw = b.blocks[br["target"]]["term"]
    if sw["k"] != "switch":
        return (False, chk, [], None, "the `?` on the inner result is not branched on")
    cont = [t_ for v_, t_ in sw["targets"] if v_ == 0]
    if not cont:
        return (False, chk, [], None, "no Continue edge")
    cedge = (br["target"], 0, cont[0])
    skips = []
    inner_bb = inode[1] if not inode[0] else None
    for db, _, kind, payload in b.whole_defs(0):
        if kind == "call":
            cf = fn_of(payload) or {}
            if cf.get("def") == "std::ops::FromResidual::from_residual" and payload["args"]:
                rt = trace(b, payload["args"][0])
                through_br = (rt.origin and rt.origin[0] == "call" and rt.origin[2] is br) or any(x[0] == "call" and x[1] == "std::ops::Try::branch" and x[2] == bb for x in rt.steps)
                if through_br and any(x[0] == "downcast" and x[1] == "Break" for x in rt.steps):
                    continue
            return (False, chk, [], cedge, "the method returns something other than the inner call's result")
        if kind != "assign" or payload["rv"]["k"] != "aggregate" or payload["rv"].get("variant") != "Ok":
            return (False, chk, [], cedge, "the method returns something other than the inner call's result")
        ops = payload["rv"]["ops"]
        unit = False
        if ops:
            ot = trace(b, ops[0])
            unit = bool(ot.origin and ot.origin[0] == "agg" and ot.origin[1]["rv"].get("agg") == "tuple" and not ot.origin[1]["rv"]["ops"])
            from_cont = bool(((ot.origin and ot.origin[0] == "call" and ot.origin[2] is br) or any(x[0] == "call" and x[1] == "std::ops::Try::branch" and x[2] == bb for x in ot.steps)) and any(x[0] == "downcast" and x[1] == "Continue" for x in ot.steps))
        else:
            from_cont = False
        if b.edge_dominates(cedge[0], cedge[1], cedge[2], db) and (unit or from_cont):
            continue
        reaches_inner = inner_bb is not None and (db in b.reachable_from(inner_bb))
        if unit and not reaches_inner and not b.edge_dominates(cedge[0], cedge[1], cedge[2], db):
            skips.append(db)
            continue
        return (False, chk, [], cedge, "an Ok value is returned that is not the inner call's")
    return (True, chk, skips, cedge, "")


def _pending_flag_protocol(ctx, fb, skip_blocks, cedge, methods):
    """The discipline behind `if !self.dirty { return Ok(()) }` in flush: the skip is taken only on the clear state of
    a bool field of the wrapper; the field is cleared nowhere but after the inner flush succeeded; every store made
    by the writing methods is `true` or `field | x` (a write can raise the flag, never lower it), and each writing
    method makes such a store on every path to its inner call. (ok, detail)."""
    binc = ctx.bin
    adt = fb.raw.get("impl_self_adt")
    # the flag: the bool field of self whose false edge dominates every skip block
    flag = None
    for sb in sorted(fb.reach()):
        sw = fb.blocks[sb]["term"]
        if sw["k"] != "switch" or not is_place(sw["discr"]):
            continue
        tr = trace(fb, sw["discr"])
        fld = [x for x in tr.steps if x[0] == "field" and x[2] == adt]
        if not (tr.origin == ("arg", 1) and fld):
            continue
        zero = [t_ for v_, t_ in sw["targets"] if v_ == 0]
        if zero and all(fb.edge_dominates(sb, 0, zero[0], k) for k in skip_blocks):
            flag = fld[-1][1]
    if flag is None:
        return (False, "Ok is returned without calling the inner method, and not under a test of a pending-output flag of the wrapper")

    def stores(body):
        out = []
        for bi, blk in enumerate(body.blocks):
            for s_ in blk["stmts"]:
                if s_["k"] == "assign" and s_["p"]["pr"] and s_["p"]["pr"][-1]["k"] == "field" and s_["p"]["pr"][-1].get("adt") == adt and s_["p"]["pr"][-1]["name"] == flag:
                    rv = s_["rv"]
                    kind = "other"
                    if rv["k"] == "use" and const_value(rv["op"]) is True:
                        kind = "set"
                    elif rv["k"] == "use" and const_value(rv["op"]) is False:
                        kind = "clear"
                    elif rv["k"] == "binop" and rv["op"] == "BitOr" and any(is_place(o) and o["p"]["pr"] and o["p"]["pr"][-1]["k"] == "field" and o["p"]["pr"][-1]["name"] == flag for o in (rv["a"], rv["b"])):
                        kind = "raise"
                    out.append((bi, kind, s_.get("line")))
        return out

    for body in binc.bodies:
        if body.raw.get("impl_self_adt") != adt:
            continue
        for bi, kind, line in stores(body):
            if kind == "other":
                return (False, f"`{flag}` is assigned a computed value in `{body.name}` (line {line}): a write can lower the flag, and the next flush is skipped with output still buffered")
            if kind == "clear":
                if not (body is fb and cedge is not None and fb.edge_dominates(cedge[0], cedge[1], cedge[2], bi)):
                    return (False, f"`{flag}` is cleared in `{body.name}` (line {line}) other than after a successful inner flush")
    # every writing method raises the flag on the way to its inner call
    for name, b, sup, inner, chk, ret_tr, imp in methods:
        if name == "flush" or not inner:
            continue
        raising = []
        for n_ in sup.nodes():
            body = sup.body_of(n_)
            if body.raw.get("impl_self_adt") != adt:
                continue
            blk = body.blocks[n_[1]]
            for s_ in blk["stmts"]:
                if s_["k"] == "assign" and s_["p"]["pr"] and s_["p"]["pr"][-1]["k"] == "field" and s_["p"]["pr"][-1].get("adt") == adt and s_["p"]["pr"][-1]["name"] == flag:
                    raising.append(n_)
        for inode, _, _ in inner:
            if not sup.must_pass(sup.entry, [inode], raising):
                return (False, f"`{name}` can reach the inner writer without touching `{flag}`: its output would not be flushed")
    return (True, f"flush is skipped only while `{flag}` is clear; writes can only raise it; it is cleared only after the inner flush succeeded")


# borrowed views of a Result: looking at the view's error is looking at the Result's error
_RESULT_VIEWS = ("std::result::Result::<T, E>::as_ref", "std::result::Result::<T, E>::as_mut", "std::result::Result::<T, E>::as_deref")


# indirect calls of an io::Write method (a method path handed to a helper that calls it): id(terminator) ->
# (fn operand, argument operands, terminator kept alive)
_INDIRECT = {}


def _inner_fn(t):
    return _INDIRECT[id(t)][0] if id(t) in _INDIRECT else fn_of(t)


def _inner_args(t):
    return _INDIRECT[id(t)][1] if id(t) in _INDIRECT else t["args"]


def _wrapper_methods(ctx):
    """[(method name, body, sup, inner calls, check callee ids)] for the io::Write methods of the stdout
    wrapper, each analysed on its own supergraph (helpers and closures inlined)."""
    m, wty, used, imps = wrapper_impl(ctx.facts)
    binc = ctx.bin
    out = []
    for imp in used:
        for it in imp["items"]:
            b = binc.by_id.get(it["def"])
            if not b:
                continue
            sup = Super(binc, b, depth=3)
            inner = []
            for n, cb, t in sup.calls():
                f = fn_of(t) or {}
                if f.get("trait") in ("std::ops::FnOnce", "std::ops::FnMut", "std::ops::Fn") and len(t["args"]) == 2:
                    # `op(&mut self.inner)` where, in this method, `op` is the path `Write::flush`: a call of that
                    # trait method with the tuple's elements as arguments
                    ftr = strace(sup, n, t["args"][0])
                    fop = ftr.origin[1] if ftr.origin and ftr.origin[0] == "const" else None
                    atr = trace(cb, t["args"][1])
                    if fop and fop.get("k") == "fn" and fop.get("trait") == "std::io::Write" and atr.origin and atr.origin[0] == "agg" and atr.origin[1]["rv"]["ops"] and all(s_[0] == "use" for s_ in atr.steps):
                        _INDIRECT[id(t)] = (fop, atr.origin[1]["rv"]["ops"], t)
                        f = fop
                if f.get("trait") != "std::io::Write" or not _inner_args(t):
                    continue
                tr = strace(sup, n, _inner_args(t)[0])
                if tr.origin and tr.origin[0] == "arg" and tr.origin[1] == 1 and not tr.origin_node[0] and (tr.has("field") or tr.has("agg_field")):
                    inner.append((n, cb, t))
            # the value returned by the method: walk from the return place through non-checking helpers
            # (e.g. a generic `guarded(|w| ..)`) to the first call of a check-like function
            checks = []
            ret_tr = None
            rets = b.return_blocks()
            cur, hops = (((), rets[0]) if rets else None), 0
            while cur is not None and hops < 4:
                hops += 1
                tr = strace(sup, cur, {"k": "copy", "p": {"l": 0, "pr": []}})
                if not (tr.origin and tr.origin[0] == "call" and all(s_[0] in ("use", "enter_caller") for s_ in tr.steps)):
                    break
                cf = fn_of(tr.origin[2]) or {}
                cnode = (tr.origin_node[0], tr.origin[1])
                callee = binc.by_id.get(cf.get("resolved") or cf.get("def"))
                if callee is None or not cf.get("local"):
                    break
                if _check_like(binc, callee):
                    checks.append(callee.id)
                    ret_tr = tr
                    break
                inl = [m_ for lab, m_ in sup.edges(cnode) if lab == "call"]
                crets = callee.return_blocks()
                if not inl or not crets:
                    break
                cur = (inl[0][0], crets[0])
            out.append((it["name"], b, sup, inner, checks, ret_tr, imp))
    return m, wty, used, out


@rule("R16.1", 2, "every method of the stdout wrapper returns the broken-pipe check of the same inner method with its own arguments", ["C16", "C15"])
def r16_1(ctx):
    m, wty, used, methods = _wrapper_methods(ctx)
    ctx.ob("wrapper-in-sink-type", len(used) >= 1, site(m), f"sink type handed to the translator: {wty}")
    for imp in used:
        names = [it["name"] for it in imp["items"]]
        for req in ("write", "flush"):
            if req not in names:
                ctx.ob(f"{req}:present", False, imp["self_ty"], "required io::Write method missing")
    checks = set()
    plain = ("use", "ref", "deref", "enter_caller", "agg_field", "field")
    for name, b, sup, inner, chk, ret_tr, imp in methods:
        same = [(n, cb, t) for n, cb, t in inner if _inner_fn(t)["name"] == name]
        ok_inner = len(inner) == 1 and len(same) == 1
        ctx.ob(f"{name}:inner-same-method", ok_inner, site(b),
               f"calls inner {name} exactly once" if ok_inner else f"inner writer calls: {[_inner_fn(t)['name'] for _, _, t in inner]}")
        if not same:
            continue
        inode, icb, it_ = same[0]
        args_ok = True
        for i, a in enumerate(_inner_args(it_)[1:], start=2):
            tra = strace(sup, inode, a)
            if not (tra.origin and tra.origin[0] == "arg" and tra.origin[1] == i and not tra.origin_node[0] and all(s_[0] in plain for s_ in tra.steps)):
                args_ok = False
        ctx.ob(f"{name}:args-pass-through", args_ok, sup.site(inode),
               "inner call receives self's writer and the method's own arguments unchanged" if args_ok else "arguments are altered before reaching the inner writer")
        # the method returns the inner call's result, and on the way the kind() of that very result's error is
        # tested for BrokenPipe (whatever the shape of the helper that does it)
        ok = False
        det = "the inner writer's result is returned without the broken-pipe check"
        rets = b.return_blocks()
        tests = [kt for kt in kind_tests(sup) if kt.named() == ["BrokenPipe"]]
        examined = False
        for kt in tests:
            # (the error of a Result is the same error after `.map(..)`, which only touches the Ok payload)
            ktr = strace_deep(sup, kt.kind_node, kt.kind_call["args"][0], extra=tuple(_RESULT_VIEWS) + ("std::result::Result::<T, E>::map",))
            if ktr.origin and ktr.origin[0] == "call" and ktr.origin[2] is it_ and any(s_[0] == "downcast" and s_[1] == "Err" for s_ in ktr.steps):
                examined = True
                # when walking back from the return value found no check function (the result went through a closure run
                # by `or_else` on the error, say), it is the function the test sits in
                frames = kt.kind_node[0]
                if not chk and frames and frames[-1][2] in ctx.bin.by_id and _check_like(ctx.bin, ctx.bin.by_id[frames[-1][2]]):
                    chk = [frames[-1][2]]
        returned = bool(rets) and _derives_unchanged(ctx.bin, sup, ((), rets[0]), {"k": "copy", "p": {"l": 0, "pr": []}}, it_)
        if not returned:
            # `check(inner.m(..))?; ..; Ok(v)`: the same result taken apart by `?` and put together again
            via = _returned_via_try(ctx.bin, sup, b, it_, inode)
            if via is not None and via[0]:
                returned = True
                chk = list(chk) + [c for c in via[1] if c not in chk]
                if via[2]:
                    # paths that answer Ok without calling the inner method at all (flush with nothing pending)
                    pr = _pending_flag_protocol(ctx, b, via[2], via[3], methods)
                    ctx.ob(f"{name}:skip-only-when-nothing-pending", pr[0], site(b, via[2][0]), pr[1])
            elif via is not None:
                det = via[4]
        if examined and returned and chk:
            ok = True
            det = "returns the inner call's result after testing its error's kind() for BrokenPipe"
        elif returned and not examined:
            det = "the inner writer's result is returned without the broken-pipe check"
        elif examined and not returned:
            det = "the value returned is not the inner call's result"
        ctx.ob(f"{name}:checked-return", ok, site(b), det)
        checks |= set(chk)
    ctx.ob("single-check-function", len(checks) == 1, wty, f"check function(s): {sorted(checks)}")


def _check_fn(ctx):
    m, wty, used, methods = _wrapper_methods(ctx)
    binc = ctx.bin
    checks = set()
    for name, b, sup, inner, chk, ret_tr, imp in methods:
        checks |= set(chk)
    ctx.need(len(checks) >= 1, "no broken-pipe check function is applied in the wrapper")
    return [binc.by_id[c] for c in sorted(checks) if c in binc.by_id]


@rule("R16.2", 6, "the check diverges into signal(SIGPIPE, SIG_DFL); raise(SIGPIPE) exactly on Err(kind()==BrokenPipe); silent; cannot panic", ["C16", "C13"])
def r16_2(ctx):
    binc = ctx.bin
    for c in _check_fn(ctx):
        sup = Super(binc, c, depth=3)
        ps = PathSens(sup)
        calls = sup.calls()
        # the BrokenPipe test, wherever the check keeps it (inline or in a helper predicate) and however it is
        # spelled (`==`, `!=`, `matches!`, `match`)
        tests = kind_tests(sup)
        named = [kt.named() for kt in tests]
        ok = len(tests) == 1 and named[0] == ["BrokenPipe"]
        ctx.ob("kind-compared-with-BrokenPipe", ok, site(c), f"ErrorKind tests: {named}")
        if not ok:
            continue
        kt = tests[0]
        n, kcall = kt.kind_node, kt.kind_call
        ptr = strace(sup, n, kcall["args"][0], extra=_RESULT_VIEWS)
        kind_ok = bool(ptr.origin and ptr.origin[0] == "arg" and ptr.origin[1] == 1 and not ptr.origin_node[0] and any(s[0] == "downcast" and s[1] == "Err" for s in ptr.steps))
        # or the scope produces the checked result itself (`op(&mut self.inner).map_err(|err| ..)`): the call whose
        # Err payload is examined
        produced = None
        if not kind_ok and ptr.origin and ptr.origin[0] == "call" and any(s[0] == "downcast" and s[1] == "Err" for s in ptr.steps) and c.local_ty(ptr.origin[2]["dest"]["l"] if not ptr.origin_node[0] else 0).startswith("std::result::Result<"):
            produced = ptr.origin[2]
            kind_ok = not ptr.origin_node[0]
        ctx.ob("kind-of-the-argument-error", kind_ok, sup.site(n), "compares kind() of the Err payload of the checked result" if kind_ok else "the compared kind is not that of the checked result's error")
        sn = kt.node
        bp = [(lab, dst) for lab, dst, ks in kt.edges if ks == {"BrokenPipe"}]
        ctx.ob("comparison-branched-on", len(bp) == 1, sup.site(sn), f"{len(bp)} edge(s) taken exactly for BrokenPipe")
        if len(bp) != 1:
            continue
        edge = (sn, bp[0][0], bp[0][1])
        entry_states = ps.explore([(sup.entry, {})])

        def reach_edge(e, removed=()):
            sts = []
            for f_ in entry_states.get(e[0], []):
                for lab, m, f2 in ps.step(e[0], f_):
                    if m == e[2] and lab == e[1]:
                        sts.append((m, f2))
            return set(ps.explore(sts, removed).keys()) if sts else set()

        r = reach_edge(edge) if edge else set()
        ends = [x for x in r if not sup.edges(x) and sup.body_of(x).blocks[x[1]]["term"]["k"] != "unreachable"]
        returns = [x for x in ends if not x[0] and c.blocks[x[1]]["term"]["k"] == "return"]
        div_ok = bool(ends) and not returns
        ctx.ob("broken-pipe-edge-diverges", div_ok, sup.site(sn),
               "the BrokenPipe edge never returns to the caller" if div_ok else "the BrokenPipe edge can return to the caller (would surface as an error message or exit 0)")
        # the other edge(s) return the argument unchanged
        rets_ok = bool(c.whole_defs(0))
        if produced is not None:
            rb = c.return_blocks()
            rets_ok = bool(rb) and _derives_unchanged(binc, sup, ((), rb[0]), {"k": "copy", "p": {"l": 0, "pr": []}}, produced)
        for dbb, idx, kind, payload in (c.whole_defs(0) if produced is None else []):
            if kind != "assign":
                rets_ok = False
                continue
            tr0 = trace(c, payload["rv"]["op"]) if payload["rv"]["k"] == "use" else None
            if not (tr0 and tr0.origin and tr0.origin[0] == "arg" and tr0.origin[1] == 1 and all(s_[0] == "use" for s_ in tr0.steps)):
                rets_ok = False
        ctx.ob("other-edges-return-argument", rets_ok, site(c), "every returning path yields the argument unchanged" if rets_ok else "a returning path alters the checked result")
        # silent, panic-free: every body the check can enter
        bodies = []
        for x in sorted(sup.nodes(), key=str):
            bx = sup.body_of(x)
            if bx not in bodies:
                bodies.append(bx)
        for fnb in bodies:
            noisy = [fn_of(t2)["def"] for _, t2 in fnb.calls() if fn_of(t2) and (fn_of(t2)["def"] in ("std::io::stderr", "std::io::stdout", "std::io::_eprint", "std::io::_print") or "fmt::Arguments" in fn_of(t2)["def"])]
            ctx.ob(f"silent:{'check' if fnb is c else fnb.name}", not noisy, site(fnb), "no message is formatted or written" if not noisy else f"writes/prints: {noisy}")
            panics = [b2 for b2 in fnb.reach() if fnb.blocks[b2]["term"]["k"] == "assert"]
            pan_calls = [fn_of(t2)["def"] for _, t2 in fnb.calls() if fn_of(t2) and ("panic" in fn_of(t2)["def"] or fn_of(t2)["name"] in ("unwrap", "expect"))]
            ctx.ob(f"no-panic-edge:{'check' if fnb is c else fnb.name}", not panics and not pan_calls, site(fnb), "no panic-capable edge" if not panics and not pan_calls else f"panic-capable: {pan_calls or 'assert'}")
        # on the BrokenPipe edge: signal(SIGPIPE, SIG_DFL), then raise(SIGPIPE), then (fallback) exit(1)
        sig, rai = [], []
        for x, bx, tx in calls:
            f2 = fn_of(tx)
            if x in r and f2 and f2["crate"] == "libc":
                argv = [a.get("def") or const_value(a) for a in tx["args"]]
                if f2["name"] == "signal" and argv == ["libc::SIGPIPE", "libc::SIG_DFL"]:
                    sig.append(x)
                elif f2["name"] == "raise" and argv == ["libc::SIGPIPE"]:
                    rai.append(x)
                else:
                    ctx.ob(f"libc-call:{f2['name']}", False, sup.site(x), f"unexpected libc call {f2['name']}{argv} on the BrokenPipe edge")
        ok_seq = bool(sig) and bool(rai)
        if ok_seq:
            # raise is not reachable without signal; no end is reachable without raise
            r_nosig = reach_edge(edge, removed=sig)
            r_norai = reach_edge(edge, removed=rai)
            ok_seq = not any(x in r_nosig for x in rai) and not [x for x in r_norai if not sup.edges(x) and sup.body_of(x).blocks[x[1]]["term"]["k"] != "unreachable"]
        ctx.ob("signal-then-raise", ok_seq, sup.site(sn), "signal(SIGPIPE, SIG_DFL) precedes raise(SIGPIPE) on every BrokenPipe path" if ok_seq else f"signal/raise sequence not established (signal sites: {len(sig)}, raise sites: {len(rai)})")
        exs = []
        for x, bx, tx in calls:
            if x in r and (fn_of(tx) or {}).get("def") == "std::process::exit":
                exs.append((x, const_value(tx["args"][0])))
        ok_ex = bool(exs) and all(code == 1 for _, code in exs) and set(ends) <= {x for x, _ in exs}
        ctx.ob("fallback-exit-1", ok_ex, sup.site(sn), "falls back to exit(1) after raise" if ok_ex else f"BrokenPipe path ends: {[sup.site(x) for x in ends]}")
