#!/usr/bin/env python3
"""Readable dump of bodies from a fact file: python3 dump.py <facts.json> <substring> [...]"""
import json
import sys


def place(p):
    s = f"_{p['l']}"
    for e in p["pr"]:
        k = e["k"]
        if k == "deref":
            s = f"(*{s})"
        elif k == "field":
            s = f"{s}.{e['name']}"
        elif k == "downcast":
            s = f"({s} as {e['variant']})"
        elif k == "index":
            s = f"{s}[_{e['local']}]"
        elif k == "constindex":
            s = f"{s}[{'-' if e['from_end'] else ''}{e['offset']} of {e['min_length']}]"
        elif k == "subslice":
            s = f"{s}[{e['from']}..{'-' if e['from_end'] else ''}{e['to']}]"
        else:
            s = f"{s}.<{k}>"
    return s


def operand(o):
    k = o["k"]
    if k in ("copy", "move"):
        return f"{k} {place(o['p'])}"
    if k == "fn":
        r = o.get("resolved")
        return f"fn {o['full']}" + (f" => {r}" if r and r != o["def"] else "")
    if k == "const":
        v = o.get("v", o.get("str", o.get("bits", o.get("bytes", "?"))))
        extra = ""
        if "def" in o:
            extra += f" def={o['def']}"
        if "variant" in o:
            extra += f" variant={o['variant']}"
        if "promoted" in o:
            extra += f" promoted[{o['promoted']}]"
        return f"const {v!r}: {o['ty']}{extra}"
    return json.dumps(o)[:100]


def rvalue(rv):
    k = rv["k"]
    if k == "use":
        return operand(rv["op"])
    if k in ("ref", "rawptr"):
        return f"&{'raw ' if k == 'rawptr' else ''}{'mut ' if rv['mut'] else ''}{place(rv['p'])}"
    if k == "cast":
        return f"{operand(rv['op'])} as {rv['ty']} ({rv['cast']})"
    if k == "binop":
        return f"{rv['op']}({operand(rv['a'])}, {operand(rv['b'])})"
    if k == "unop":
        return f"{rv['op']}({operand(rv['a'])})"
    if k == "discr":
        return f"discriminant({place(rv['p'])})"
    if k == "aggregate":
        a = rv["agg"]
        head = a
        if a == "adt":
            head = f"{rv['adt']}::{rv['variant']}"
        elif a == "closure":
            head = f"closure {rv['closure']}"
        return f"{head}({', '.join(operand(x) for x in rv['ops'])})"
    if k == "copyforderef":
        return f"copyforderef {place(rv['p'])}"
    if k == "repeat":
        return f"[{operand(rv['op'])}; {rv['n']}]"
    return json.dumps(rv)[:120]


def dump_body(b):
    print(f"=== {b['id']}  [{b['def_kind']}] {b['span']['file']}:{b['span']['line']}-{b['span']['end_line']}")
    for k in ("impl_trait", "impl_self_ty", "parent", "upvars", "vis", "unsafe_fn"):
        if k in b:
            print(f"    {k}: {b[k]}")
    for i, l in enumerate(b["locals"]):
        tag = "ret" if i == 0 else ("arg" if i <= b["arg_count"] else "   ")
        print(f"    {tag} _{i}: {l['ty']}" + (f"  // {l['name']}" if "name" in l else ""))
    for i, blk in enumerate(b["blocks"]):
        print(f"  bb{i}:")
        for s in blk["stmts"]:
            ex = "~" if s.get("exp") else " "
            if s["k"] == "assign":
                print(f"    {s['line']:4}{ex} {place(s['p'])} = {rvalue(s['rv'])}")
            else:
                print(f"    {s['line']:4}{ex} {s['k']} {json.dumps({k: v for k, v in s.items() if k not in ('k', 'line', 'exp')})[:160]}")
        t = blk["term"]
        ex = "~" if t.get("exp") else " "
        k = t["k"]
        if k == "call":
            print(
                f"    {t['line']:4}{ex} {place(t['dest'])} = call {operand(t['func'])}({', '.join(operand(a) for a in t['args'])}) -> {t['target']}"
            )
        elif k == "switch":
            print(f"    {t['line']:4}{ex} switch {operand(t['discr'])} [{', '.join(f'{v}->bb{b_}' for v, b_ in t['targets'])}, else->bb{t['otherwise']}]")
        elif k == "assert":
            print(f"    {t['line']:4}{ex} assert({operand(t['cond'])} == {t['expected']}, {t['msg']}) -> bb{t['target']}")
        elif k == "drop":
            print(f"    {t['line']:4}{ex} drop({place(t['p'])}) -> bb{t['target']}")
        elif k == "goto":
            print(f"    {t['line']:4}{ex} goto bb{t['target']}")
        else:
            print(f"    {t['line']:4}{ex} {k}")


def main():
    facts = json.load(open(sys.argv[1]))
    pats = sys.argv[2:]
    for b in facts["bodies"]:
        if not pats or any(p in b["id"] for p in pats):
            dump_body(b)


if __name__ == "__main__":
    main()
