"""Fact generation: runs the xtfacts driver over /repo's current working tree.

Facts are cached under /verif/.cache/facts/<hash>/<config>/ where <hash> covers
every file of the working tree that can influence the build (sources, manifest,
lock file, manual), the driver binary and the flag set. A cache entry is reused
only for an identical hash; otherwise xt's own fingerprints are removed from the
(dependency-caching) target directory, cargo is re-run with the driver as
RUSTC_WORKSPACE_WRAPPER, and the presence of fresh fact files is asserted.
"""
import fcntl
import hashlib
import json
import os
import shutil
import subprocess
import time

VERIF = os.path.dirname(os.path.dirname(os.path.abspath(__file__)))
REPO = os.environ.get("XT_REPO", "/repo")
CACHE = os.path.join(VERIF, ".cache")
DRIVER_DIR = os.path.join(VERIF, "engine", "xtfacts")
DRIVER = os.path.join(DRIVER_DIR, "target", "release", "xtfacts")

CONFIGS = {
    # dev: debug assertions and overflow checks on (superset of panic edges)
    "dev": "-Zmir-opt-level=0 -Awarnings",
    # release-like: no debug assertions / overflow checks, still unoptimised MIR
    "rel": "-Zmir-opt-level=0 -Awarnings -C debug-assertions=off -C overflow-checks=off",
}


class BuildFailed(Exception):
    pass


def _sysroot():
    return subprocess.check_output(["rustc", "+nightly", "--print", "sysroot"], text=True).strip()


def env_offline():
    e = dict(os.environ)
    e["CARGO_NET_OFFLINE"] = "true"
    e.pop("RUSTC_WRAPPER", None)
    return e


def ensure_driver():
    """Build the driver if missing or older than its sources."""
    srcs = [os.path.join(DRIVER_DIR, "Cargo.toml")]
    for f in os.listdir(os.path.join(DRIVER_DIR, "src")):
        srcs.append(os.path.join(DRIVER_DIR, "src", f))
    newest = max(os.path.getmtime(s) for s in srcs)
    if os.path.exists(DRIVER) and os.path.getmtime(DRIVER) >= newest:
        return
    os.makedirs(CACHE, exist_ok=True)
    with open(os.path.join(CACHE, "driver.lock"), "w") as lk:
        fcntl.flock(lk, fcntl.LOCK_EX)
        if os.path.exists(DRIVER) and os.path.getmtime(DRIVER) >= newest:
            return
        r = subprocess.run(
            ["cargo", "build", "--release", "--offline"],
            cwd=DRIVER_DIR,
            env=env_offline(),
            stdout=subprocess.PIPE,
            stderr=subprocess.STDOUT,
            text=True,
        )
        if r.returncode != 0 or not os.path.exists(DRIVER):
            raise BuildFailed("driver build failed:\n" + r.stdout[-4000:])


def tree_hash(repo=REPO):
    h = hashlib.sha256()
    files = []
    for root, dirs, fs in os.walk(repo):
        dirs[:] = sorted(d for d in dirs if d not in (".git", "target", "fuzz", "benches", "node_modules"))
        for f in sorted(fs):
            files.append(os.path.join(root, f))
    for p in files:
        rel = os.path.relpath(p, repo)
        try:
            with open(p, "rb") as fh:
                data = fh.read()
        except OSError:
            continue
        h.update(rel.encode())
        h.update(b"\0")
        h.update(hashlib.sha256(data).digest())
    with open(DRIVER, "rb") as fh:
        h.update(hashlib.sha256(fh.read()).digest())
    with open(os.path.join(VERIF, "tables", "controls", "src", "lib.rs"), "rb") as fh:
        h.update(hashlib.sha256(fh.read()).digest())
    h.update(json.dumps(CONFIGS, sort_keys=True).encode())
    return h.hexdigest()[:24]


def _run_driver(config, outdir, repo=REPO):
    target = os.path.join(CACHE, "target-" + config + os.environ.get("XT_SLOT", ""))
    os.makedirs(target, exist_ok=True)
    # force re-analysis of the workspace member only; dependencies stay cached
    fp = os.path.join(target, "debug", ".fingerprint")
    if os.path.isdir(fp):
        for d in os.listdir(fp):
            if d.startswith("xt-"):
                shutil.rmtree(os.path.join(fp, d), ignore_errors=True)
    env = env_offline()
    env["LD_LIBRARY_PATH"] = _sysroot() + "/lib:" + env.get("LD_LIBRARY_PATH", "")
    env["RUSTFLAGS"] = CONFIGS[config]
    env["RUSTC_WORKSPACE_WRAPPER"] = DRIVER
    env["XTFACTS_OUT"] = outdir
    env["CARGO_TARGET_DIR"] = target
    env["CARGO_INCREMENTAL"] = "0"
    r = subprocess.run(
        ["cargo", "+nightly", "check", "--offline", "--lib", "--bins", "--message-format=short"],
        cwd=repo,
        env=env,
        stdout=subprocess.PIPE,
        stderr=subprocess.STDOUT,
        text=True,
    )
    return r


def _controls(config, outdir):
    """Compile the positive-control crate (tables/controls) with the same driver."""
    cdir = os.path.join(VERIF, "tables", "controls")
    target = os.path.join(CACHE, "target-controls-" + config + os.environ.get("XT_SLOT", ""))
    fp = os.path.join(target, "debug", ".fingerprint")
    if os.path.isdir(fp):
        shutil.rmtree(fp, ignore_errors=True)
    env = env_offline()
    env["LD_LIBRARY_PATH"] = _sysroot() + "/lib:" + env.get("LD_LIBRARY_PATH", "")
    env["RUSTFLAGS"] = CONFIGS[config]
    env["RUSTC_WORKSPACE_WRAPPER"] = DRIVER
    env["XTFACTS_OUT"] = outdir
    env["XTFACTS_CRATES"] = "xt_controls"
    env["CARGO_TARGET_DIR"] = target
    env["CARGO_INCREMENTAL"] = "0"
    r = subprocess.run(["cargo", "+nightly", "check", "--offline", "--lib"], cwd=cdir, env=env, stdout=subprocess.PIPE, stderr=subprocess.STDOUT, text=True)
    if r.returncode != 0 or not os.path.exists(os.path.join(outdir, "xt_controls-lib.json")):
        raise BuildFailed("positive-control crate failed to build with the fact driver:\n" + r.stdout[-2000:])


def _build_graph(outdir, repo=REPO):
    env = env_offline()
    r = subprocess.run(
        ["cargo", "tree", "--offline", "-e", "normal", "-f", "{p} [{f}]", "--prefix", "none"],
        cwd=repo,
        env=env,
        stdout=subprocess.PIPE,
        stderr=subprocess.PIPE,
        text=True,
    )
    if r.returncode != 0:
        raise BuildFailed("cargo tree failed:\n" + r.stderr[-2000:])
    pkgs = {}
    for line in r.stdout.splitlines():
        line = line.strip()
        if not line:
            continue
        # "name vX.Y.Z (path)? [feat,feat]"
        name = line.split(" ")[0]
        ver = line.split(" ")[1] if len(line.split(" ")) > 1 else ""
        feats = []
        if "[" in line:
            inner = line[line.rindex("[") + 1 : line.rindex("]")]
            feats = [f for f in inner.split(",") if f]
        key = name
        ent = pkgs.setdefault(key, {"versions": [], "features": []})
        if ver not in ent["versions"]:
            ent["versions"].append(ver)
        for f in feats:
            if f not in ent["features"]:
                ent["features"].append(f)
    with open(os.path.join(outdir, "buildgraph.json"), "w") as fh:
        json.dump(pkgs, fh, indent=1, sort_keys=True)


def get_facts(config="dev", repo=REPO, verbose=False):
    """Returns (dir, info) for facts of the current working tree in `config`."""
    ensure_driver()
    os.makedirs(CACHE, exist_ok=True)
    t0 = time.time()
    with open(os.path.join(CACHE, f"facts-{config}{os.environ.get('XT_SLOT', '')}.lock"), "w") as lk:
        fcntl.flock(lk, fcntl.LOCK_EX)
        h = tree_hash(repo)
        outdir = os.path.join(CACHE, "facts", h, config)
        marker = os.path.join(outdir, "OK")
        if os.path.exists(marker):
            return outdir, {"hash": h, "cached": True, "wall_s": time.time() - t0}
        if os.path.isdir(outdir):
            shutil.rmtree(outdir)
        os.makedirs(outdir)
        r = _run_driver(config, outdir, repo)
        lib = os.path.join(outdir, "xt-lib.json")
        binf = os.path.join(outdir, "xt-bin.json")
        if r.returncode != 0 or not (os.path.exists(lib) and os.path.exists(binf)):
            with open(os.path.join(outdir, "build.log"), "w") as fh:
                fh.write(r.stdout)
            raise BuildFailed(
                f"cannot analyse: cargo check with the fact driver failed (rc={r.returncode}); log: {outdir}/build.log\n"
                + r.stdout[-3000:]
            )
        _build_graph(outdir, repo)
        _controls(config, outdir)
        with open(marker, "w") as fh:
            fh.write(h)
        _prune()
        return outdir, {"hash": h, "cached": False, "wall_s": time.time() - t0}


def _prune(keep=120, min_age_s=3600):
    """Bound the fact cache (about 3 MB per analysed tree). Entries younger than an hour are never
    removed: a concurrent check (self-test slots run in parallel) may still be reading them."""
    base = os.path.join(CACHE, "facts")
    try:
        ents = sorted((os.path.getmtime(os.path.join(base, d)), d) for d in os.listdir(base))
    except OSError:
        return
    now = time.time()
    for mt, d in ents[:-keep]:
        if now - mt > min_age_s:
            shutil.rmtree(os.path.join(base, d), ignore_errors=True)


if __name__ == "__main__":
    import sys

    cfg = sys.argv[1] if len(sys.argv) > 1 else "dev"
    d, info = get_facts(cfg)
    print(d, info)
