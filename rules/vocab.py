"""Roles of xt's private types and variants, recognised by shape (field types, trait impls, use), so that
no rule depends on what a private type, variant or field happens to be called.

Every entry is {'path': ADT path, 'short': last path segment, <role>: variant name / index ...}.
A role that cannot be identified uniquely raises AnchorLost (fail closed)."""
from engine import AnchorLost
import common


def _local_adts(crate, kind):
    return [(p, a) for p, a in crate.adts.items() if a["crate"] == "xt" and a["kind"] == kind]


def _fields(v):
    return [f["ty"] for f in v["fields"]]


def _one(cands, what):
    if len(cands) != 1:
        raise AnchorLost(f"{what}: expected exactly one candidate, found {len(cands)} ({[c[0] if isinstance(c, tuple) else c for c in cands][:5]})")
    return cands[0]


def _two_variant(crate, what, is_mem, is_stream):
    cands = []
    for p, a in _local_adts(crate, "enum"):
        if len(a["variants"]) != 2:
            continue
        mem = [v for v in a["variants"] if len(v["fields"]) == 1 and is_mem(v["fields"][0]["ty"])]
        stream = [v for v in a["variants"] if len(v["fields"]) == 1 and is_stream(v["fields"][0]["ty"])]
        if len(mem) == 1 and len(stream) == 1 and mem[0] is not stream[0]:
            cands.append((p, a, mem[0], stream[0]))
    p, a, mem, stream = _one(cands, what)
    return {"path": p, "short": p.rsplit("::", 1)[-1], "mem": mem["name"], "mem_idx": mem["idx"], "stream": stream["name"], "stream_idx": stream["idx"]}


def lib_vocab(facts):
    def build():
        import r_c09

        lib = facts.lib
        cap, guard = r_c09._capture_adts(lib)
        cap_s, guard_s = cap.rsplit("::", 1)[-1], guard.rsplit("::", 1)[-1]
        v = {"capture": cap, "guard": guard}
        # owned input handed to the format entry points: Cow<[u8]> | Box<dyn Read>
        v["input"] = _two_variant(lib, "owned input enum (Cow<[u8]> | Box<dyn Read>)",
                                  lambda t: "std::borrow::Cow<" in t and "[u8]" in t,
                                  lambda t: "dyn std::io::Read" in t and cap_s not in t)
        # borrowed input handed to the detection trials: &[u8] | &mut CaptureReader
        v["ref"] = _two_variant(lib, "borrowed input enum (&[u8] | &mut capture reader)",
                                lambda t: t.startswith("&") and "[u8]" in t and "mut" not in t.split("[u8]")[0][-6:],
                                lambda t: t.startswith("&") and cap in t)
        # what a handle holds: &[u8] | guard(capture reader)
        v["source"] = _two_variant(lib, "handle source enum (&[u8] | guarded capture reader)",
                                   lambda t: t.startswith("&") and "[u8]" in t,
                                   lambda t: t.startswith(guard))
        handles = [(p, a) for p, a in _local_adts(lib, "struct") if len(a["variants"][0]["fields"]) == 1 and a["variants"][0]["fields"][0]["ty"].startswith(v["source"]["path"])]
        hp, ha = _one(handles, "input handle struct (newtype around the source enum)")
        v["handle"] = {"path": hp, "short": hp.rsplit("::", 1)[-1]}
        return v

    return common.memo(facts, "lib_vocab", build)


def ty_is(ty, entry):
    """The type string `ty` names the ADT of a vocabulary entry (possibly behind references / with generics)."""
    p = entry["path"]
    return ty.lstrip("&").replace("mut ", "", 1).startswith(p + "<") or ty.lstrip("&").replace("mut ", "", 1) == p or (p + "<") in ty or ty.endswith(p)


def doc_kind(facts):
    """The chunker's document-kind enum: the fieldless two-variant local enum kept as Option<..> in the
    chunker; 'collection' is the variant the YAML trial's predicate accepts."""

    def build():
        import tables

        lib = facts.lib
        ch = common.chunker(facts)
        adt = lib.adts.get(ch["adt"])
        if not adt:
            raise AnchorLost("chunker ADT facts missing")
        cands = []
        for f in adt["variants"][0]["fields"]:
            ty = f["ty"]
            if ty.startswith("std::option::Option<"):
                inner = ty[len("std::option::Option<"):-1]
                e = lib.adts.get(inner)
                if e and e["crate"] == "xt" and e["kind"] == "enum" and len(e["variants"]) == 2 and all(not x["fields"] for x in e["variants"]):
                    cands.append((inner, e, f["name"]))
        p, e, fld = _one(cands, "document-kind enum (Option<fieldless two-variant enum> field of the chunker)")
        # the predicate: a bool fn over the document whose match returns true for one variant
        coll = None
        yt = common.trial_functions(facts)["yaml"]
        from model import fn_of

        from model import Super

        for _, _, t in Super(lib, yt, depth=2).calls():
            f = fn_of(t) or {}
            cb = lib.by_id.get(f.get("resolved") or f.get("def"))
            if cb and cb.raw.get("ret_ty") == "bool" and cb.nargs == 1:
                for tb in lib.tables_of(cb.id):
                    for arm in tb["arms"]:
                        if tables.body_result(arm.get("body", {})) == ("lit", True):
                            for x in e["variants"]:
                                if any(x["name"] == str(l[-1]).rsplit("::", 1)[-1] or (p + "::" + x["name"]) in str(l) for l in tables.pat_literals(arm["pat"])):
                                    coll = x["name"]
        if coll is None:
            raise AnchorLost("the YAML trial's collection predicate was not found")
        other = [x["name"] for x in e["variants"] if x["name"] != coll][0]
        return {"path": p, "short": p.rsplit("::", 1)[-1], "field": fld, "collection": coll, "scalar": other}

    return common.memo(facts, "doc_kind", build)


def _arm_reaches(crate, enum_path, idx, callee_def):
    """Some `match` on a value of the enum has an arm for variant `idx` that dominates a call of `callee_def`."""
    from model import fn_of

    for b in crate.bodies:
        for bi in sorted(b.reach()):
            blk = b.blocks[bi]
            sw = blk["term"]
            if sw["k"] != "switch":
                continue
            on_enum = any(s_["k"] == "assign" and s_["rv"]["k"] == "discr" and b.local_ty(s_["rv"]["p"]["l"]).lstrip("&").replace("mut ", "").startswith(enum_path) for s_ in blk["stmts"])
            if not on_enum:
                continue
            tg = [t_ for v_, t_ in sw["targets"] if v_ == idx]
            if not tg:
                continue
            for cb, ct in b.calls():
                if (fn_of(ct) or {}).get("def") == callee_def and b.edge_dominates(bi, idx, tg[0], cb):
                    return True
    return False


def bin_vocab(facts):
    """CLI input types: the opened input (stdin | File | Mmap) and the input path (stdin | PathBuf)."""

    def build():
        binc = facts.bin
        opened = []
        paths = []
        for p, a in _local_adts(binc, "enum"):
            vs = a["variants"]
            unit = [x for x in vs if not x["fields"]]
            filev = [x for x in vs if len(x["fields"]) == 1 and x["fields"][0]["ty"] == "std::fs::File"]
            mapv = [x for x in vs if len(x["fields"]) == 1 and x["fields"][0]["ty"].startswith("memmap2::Mmap")]
            pathv = [x for x in vs if len(x["fields"]) == 1 and x["fields"][0]["ty"] == "std::path::PathBuf"]
            if len(vs) >= 3 and len(unit) > 1 and len(filev) == 1 and len(mapv) == 1:
                # more than one payload-less variant (a new "already buffered" mode next to stdin): standard input
                # is the one whose match arm reaches io::stdin()
                unit = [u for u in unit if _arm_reaches(binc, p, u["idx"], "std::io::stdin")]
            if len(vs) >= 2 and len(unit) == 0 and len(filev) == 1 and len(mapv) == 1:
                # standard input is not an "opened" thing at all (`enum FileSource { File(File), Mmap(Mmap) }`, stdin
                # handled on its own path): no stdin variant
                opened.append((p, {"path": p, "short": p.rsplit("::", 1)[-1], "stdin": None, "stdin_idx": None, "file": filev[0]["name"], "file_idx": filev[0]["idx"], "mmap": mapv[0]["name"], "mmap_idx": mapv[0]["idx"]}))
            if len(vs) >= 3 and len(unit) == 1 and len(filev) == 1 and len(mapv) == 1:
                opened.append((p, {"path": p, "short": p.rsplit("::", 1)[-1], "stdin": unit[0]["name"], "stdin_idx": unit[0]["idx"], "file": filev[0]["name"], "file_idx": filev[0]["idx"], "mmap": mapv[0]["name"], "mmap_idx": mapv[0]["idx"]}))
            if len(vs) == 2 and len(unit) == 1 and len(pathv) == 1:
                paths.append((p, {"path": p, "short": p.rsplit("::", 1)[-1], "stdin": unit[0]["name"], "stdin_idx": unit[0]["idx"], "file": pathv[0]["name"], "file_idx": pathv[0]["idx"]}))
        return {"opened": _one(opened, "CLI opened-input enum (unit | File | Mmap)")[1], "path": _one(paths, "CLI input-path enum (unit | PathBuf)")[1]}

    return common.memo(facts, "bin_vocab", build)
