"""C02 — result independent of input source: slice-arm / reader-arm sibling cross-check (R02.2)."""
import json
import os

from engine import rule, AnchorLost, VERIF
from model import enum_edge, Super, PathSens, fn_of, trace, is_place, site, const_value
import common
import vocab

# Disagreements that were read and judged equivalent (not findings), one reason each.
REVIEWED_EQUIVALENT = {
    "msgpack:C:slice=rmp-from_read_ref+size-calculator,reader=rmp-reader": "the size calculator only splits the slice into values and is never stricter than rmp (R18.1-R18.3: same limit constant, budget recurrence fires at or above rmp's level); both arms then run rmp_serde on exactly one value",
}


def _arms(lib, ep):
    """(Super, {variant_name: edge}) for the switch on the Input discriminant in an entry point."""
    sup = Super(lib, ep, depth=2, follow=lambda f: True)
    for n in sorted(sup.nodes(), key=str):
        if n[0]:
            continue
        b = ep
        t = b.blocks[n[1]]["term"]
        if t["k"] != "switch":
            continue
        for s in b.blocks[n[1]]["stmts"]:
            iv = vocab.lib_vocab(lib.facts)["input"]
            if s["k"] == "assign" and s["rv"]["k"] == "discr" and vocab.ty_is(s["rv"]["p"]["ty"], iv):
                adt = lib.adts.get(iv["path"])
                if not adt:
                    continue
                edges = {}
                for v in adt["variants"]:
                    e = enum_edge(b, n[1], v["idx"])
                    if e:
                        # labelled by role, whatever the variants are called in the source
                        edges["Slice" if v["name"] == iv["mem"] else "Reader"] = (n, e[1], ((), e[2]))
                if len(edges) == 2:
                    return sup, edges
    return sup, None


def _attrs(lib, sup, ps, edge, calc_ids):
    a_methods = set()
    b_limits = set()
    c_driver = set()
    reach_wo = ps.reach(removed_edges=[edge])
    allr = ps.reach()
    for n, b, t in sup.calls():
        if n not in allr or n in reach_wo:
            continue  # not exclusive to this arm
        f = fn_of(t) or {}
        d = f.get("def", "")
        role = common.output_role(lib.facts, f)
        if role in ("from", "value"):
            # labelled by role, whatever the methods are called in the source
            a_methods.add("transcode_from" if role == "from" else "transcode_value")
        if f.get("name") in ("set_max_depth", "disable_recursion_limit"):
            v = None
            if len(t["args"]) > 1:
                tr = trace(b, t["args"][1])
                if tr.origin and tr.origin[0] == "const":
                    v = tr.origin[1].get("def") or tr.origin[1].get("v")
            b_limits.add(f"{f['name']}({v})")
        st = f.get("self_ty", "") + " " + f.get("full", "")
        if f.get("name") == "into_iter" and "serde_json::Deserializer" in st:
            c_driver.add("StreamDeserializer")
        if d.startswith("serde_json::Deserializer") and f.get("name") == "end":
            c_driver.add("end-loop")
        if (f.get("resolved") or d) in calc_ids or d in calc_ids:
            c_driver.add("size-calculator")
        if f.get("crate") == "rmp_serde" and f.get("name") == "from_read_ref":
            c_driver.add("rmp-from_read_ref")
        if f.get("crate") == "rmp_serde" and f.get("name") == "new" and "Deserializer" in d:
            c_driver.add("rmp-reader")
        if f.get("trait") == "std::iter::Iterator" and f.get("name") == "next" and "serde_yaml::Deserializer" in st:
            c_driver.add("serde_yaml-multidoc")
        if common.is_chunker_next(lib.facts, f):
            c_driver.add("chunker")
        if f.get("crate") == "toml" and f.get("name") == "new" and "Deserializer" in d:
            c_driver.add("toml-whole-document")
    return {"A": a_methods, "B": b_limits, "C": c_driver}


@rule("R02.2", 9, "slice arm and reader arm of each format entry point agree on Output method, parser limits and document driver (known divergences are listed findings)", ["C02"])
def r02_2(ctx):
    import r_c18

    lib = ctx.lib
    eps = common.input_entry_points(ctx.facts)
    sccs, _ = r_c18._sccs(lib)
    calc_ids = set(x for c in sccs for x in c)
    for fmt, ep in sorted(eps.items()):
        sup, edges = _arms(lib, ep)
        if edges is None:
            # no split on the input kind: a single path serves both (TOML buffers everything)
            ctx.ob(f"{fmt}:single-path", fmt == "toml", site(ep), "one code path for slice and reader input" if fmt == "toml" else "no slice/reader split found in a format that is expected to have one")
            continue
        ps = PathSens(sup)
        at = {name: _attrs(lib, sup, ps, e, calc_ids) for name, e in edges.items()}
        for attr, label in (("A", "Output method"), ("B", "parser limits"), ("C", "document driver")):
            s_, r_ = at["Slice"][attr], at["Reader"][attr]
            key = f"{fmt}:{attr}:slice={'+'.join(sorted(s_)) or 'none'},reader={'+'.join(sorted(r_)) or 'none'}"
            if s_ == r_:
                ctx.ob(f"{fmt}:{attr}:agree", True, site(ep), f"{label}: both arms use {sorted(s_) or 'none'}")
            elif key in REVIEWED_EQUIVALENT:
                ctx.ob(f"{fmt}:{attr}:reviewed-equivalent", True, site(ep), f"{label} differs ({key}) — reviewed equivalent: {REVIEWED_EQUIVALENT[key]}")
            else:
                ctx.ob(key, False, site(ep), f"{label} differs between slice and reader input: slice uses {sorted(s_) or 'none'}, reader uses {sorted(r_) or 'none'}")
