"""Forward interval-set analysis for integer locals of one MIR body.

Abstract value: a sorted list of disjoint closed intervals [(lo, hi), ...], or None (= unknown, the
whole type range). Branch refinement on Lt/Le/Gt/Ge/Eq/Ne against constants or other locals'
bounds, and on `RangeInclusive::contains` with a constant range. Transfer functions: copies, widening
casts and `From<small int>`, Add/Sub/Shl/BitOr/BitAnd (plain and *WithOverflow forms), `cmp::min`.
Arithmetic that may leave the type's range yields unknown (sound for both the overflow-checked
and the wrapping configuration).
"""
import re

from model import fn_of, is_place

INT_RANGE = {
    "u8": (0, 2**8 - 1), "u16": (0, 2**16 - 1), "u32": (0, 2**32 - 1), "u64": (0, 2**64 - 1), "u128": (0, 2**128 - 1),
    "usize": (0, 2**64 - 1), "i8": (-(2**7), 2**7 - 1), "i16": (-(2**15), 2**15 - 1), "i32": (-(2**31), 2**31 - 1),
    "i64": (-(2**63), 2**63 - 1), "i128": (-(2**127), 2**127 - 1), "isize": (-(2**63), 2**63 - 1), "bool": (0, 1), "char": (0, 0x10FFFF),
}


def norm(ivs):
    if ivs is None:
        return None
    ivs = sorted((lo, hi) for lo, hi in ivs if lo <= hi)
    out = []
    for lo, hi in ivs:
        if out and lo <= out[-1][1] + 1:
            out[-1] = (out[-1][0], max(out[-1][1], hi))
        else:
            out.append((lo, hi))
    return tuple(out)


def union(a, b):
    if a is None or b is None:
        return None
    return norm(list(a) + list(b))


def intersect(a, lo, hi):
    if a is None:
        return norm([(lo, hi)])
    return norm([(max(x, lo), min(y, hi)) for x, y in a])


def remove(a, lo, hi, ty_range):
    """a minus [lo, hi]."""
    if a is None:
        if ty_range is None:
            return None
        a = (ty_range,)
    out = []
    for x, y in a:
        if y < lo or x > hi:
            out.append((x, y))
        else:
            if x < lo:
                out.append((x, lo - 1))
            if y > hi:
                out.append((hi + 1, y))
    return norm(out)


def subset(a, allowed):
    if a is None:
        return False
    for x, y in a:
        if not any(lo <= x and y <= hi for lo, hi in allowed):
            return False
    return True


def bounds(a):
    if not a:
        return None
    return a[0][0], a[-1][1]


_RMP_MARKER_PAYLOAD = {"FixPos": (0, 127), "FixMap": (0, 15), "FixArray": (0, 15), "FixStr": (0, 31), "FixNeg": (-32, -1)}

_ARITH_TRAITS = {
    "std::ops::Sub": ("sub", "Sub"),
    "std::ops::Add": ("add", "Add"),
    "std::ops::Shl": ("shl", "Shl"),
    "std::ops::Shr": ("shr", "Shr"),
    "std::ops::BitOr": ("bitor", "BitOr"),
    "std::ops::BitAnd": ("bitand", "BitAnd"),
    "std::ops::Mul": ("mul", "Mul"),
}


class Interval:
    def __init__(self, body, params=None, assume=None):
        self.body = body
        # {local: intervals} forced onto a local wherever it is assigned (a what-if run for one value of a byte)
        self.assume = dict(assume or {})
        self.entry = {}  # bb -> state dict: key -> intervals ; key = local int or (local, field)
        self.preds = {}  # (bb) not needed: predicates are derived per block from defs
        self.iterations = {}
        self.wraps = []
        self._cur_line = None
        # intervals of the parameters on entry (from the call sites of a private helper), {local: intervals}
        self.params = dict(params or {})
        # (state) on every edge into a return block, before the join: lets a caller read off which parameter
        # values lead to which returned constant
        self.return_states = []
        self.run()
        # wraps are collected during fixpoint iteration: keep distinct lines
        self.wrap_lines = sorted({w[0] for w in self.wraps if w[0] is not None})

    # -- helpers
    def ty_range(self, local):
        if isinstance(local, tuple):
            return INT_RANGE.get(getattr(self, "_key_ty", {}).get(local))
        return INT_RANGE.get(self.body.local_ty(local))

    def payload_key(self, op):
        """State key of an integer payload read in place (`(_4 as Some).0` in `matches!(opt, Some(0x80..=0x9f))`), or None."""
        if not is_place(op):
            return None
        pr = op["p"]["pr"]
        if len(pr) == 2 and pr[0]["k"] == "downcast" and pr[1]["k"] == "field" and pr[1].get("ty") in INT_RANGE and self.body.local_ty(op["p"]["l"]).lstrip("&") != "rmp::Marker":
            key = (op["p"]["l"], f"{pr[0].get('variant')}.{pr[1].get('name')}")
            if not hasattr(self, "_key_ty"):
                self._key_ty = {}
            self._key_ty[key] = pr[1]["ty"]
            return key
        return None

    def val(self, st, op):
        if op.get("k") == "const":
            v = op.get("v")
            if isinstance(v, bool):
                return ((int(v), int(v)),)
            if isinstance(v, int):
                return ((v, v),)
            return None
        if is_place(op):
            p = op["p"]
            if not p["pr"]:
                v = st.get(p["l"])
                if v is None:
                    r = self.ty_range(p["l"])
                    return (r,) if r else None
                return v
            if len(p["pr"]) == 1 and p["pr"][0]["k"] == "field":
                return st.get((p["l"], p["pr"][0]["name"]))
            if len(p["pr"]) == 1 and p["pr"][0]["k"] == "deref":
                return st.get((p["l"], "*"))
            if len(p["pr"]) == 2 and p["pr"][0]["k"] == "downcast" and p["pr"][1]["k"] == "field" and self.body.local_ty(p["l"]).lstrip("&") == "rmp::Marker":
                # payloads of rmp's marker variants are the bit fields of the marker byte (trusted base: rmp's
                # `Marker::from_u8` masks them out of the byte)
                r = _RMP_MARKER_PAYLOAD.get(p["pr"][0].get("variant"))
                if r is not None:
                    return (r,)
            pk = self.payload_key(op)
            if pk is not None:
                v = st.get(pk)
                if v is not None:
                    return v
                # nothing known on this path: what every construction of that variant in the crate puts there
                # (`Utf16Unit::Lead(u)` is only ever built behind `0xD800 <= u && u <= 0xDBFF`)
                cr = ctor_payload_range(self.body.crate, self.body.local_ty(p["l"]).lstrip("&").replace("mut ", ""), p["pr"][0].get("variant"), p["pr"][1].get("name"))
                return cr if cr is not None else (INT_RANGE[self._key_ty[pk]],)
            # the same payload read through a longer path (`((res as Ok).0 as Some).0 as Trail).0`): the enum is the
            # type of the place just before the last downcast
            pr = p["pr"]
            if len(pr) >= 4 and pr[-1]["k"] == "field" and pr[-1].get("ty") in INT_RANGE and pr[-2]["k"] == "downcast" and pr[-3]["k"] == "field" and pr[-3].get("ty"):
                cr = ctor_payload_range(self.body.crate, str(pr[-3]["ty"]).lstrip("&").replace("mut ", ""), pr[-2].get("variant"), pr[-1].get("name"))
                if cr is not None:
                    return cr
        return None

    def val_or_pointee(self, st, op):
        """Value of an integer operand, or of the integer a `&uN` operand points to when that is known."""
        if is_place(op) and not op["p"]["pr"] and self.body.local_ty(op["p"]["l"]).startswith("&"):
            return st.get((op["p"]["l"], "*"))
        return self.val(st, op)

    def clamp(self, ivs, ty):
        r = INT_RANGE.get(ty)
        if ivs is None or r is None:
            return None if r is None else None
        if subset(ivs, [r]):
            return ivs
        # the mathematical result leaves the type's range: the operation wraps / truncates (or
        # traps, where overflow checks exist). Sound abstraction of both: the whole type range.
        self.wraps.append((self._cur_line, ty, ivs))
        return (r,)

    def arith(self, op, a, b, ty):
        if a is None or b is None:
            return None
        alo, ahi = bounds(a)
        blo, bhi = bounds(b)
        if alo == ahi and blo == bhi and alo >= 0 and blo >= 0 and op in ("BitAnd", "BitOr", "BitXor"):
            # both operands known exactly
            r_ = alo & blo if op == "BitAnd" else alo | blo if op == "BitOr" else alo ^ blo
            return self.clamp(((r_, r_),), ty)
        if op in ("Add", "AddWithOverflow", "AddUnchecked"):
            res = norm([(x1 + x2, y1 + y2) for x1, y1 in a for x2, y2 in b])
        elif op in ("Sub", "SubWithOverflow", "SubUnchecked"):
            res = norm([(x1 - y2, y1 - x2) for x1, y1 in a for x2, y2 in b])
        elif op in ("Shl", "ShlUnchecked"):
            if blo != bhi or blo < 0:
                return None
            res = norm([(x << blo, y << blo) for x, y in a])
        elif op in ("Shr", "ShrUnchecked"):
            if blo != bhi or blo < 0 or alo < 0:
                return None
            res = norm([(x >> blo, y >> blo) for x, y in a])
        elif op == "BitOr":
            if alo < 0 or blo < 0:
                return None
            m = max(ahi, bhi)
            res = ((max(alo, blo), (1 << m.bit_length()) - 1),)
        elif op == "BitAnd":
            if alo < 0 or blo < 0:
                return None
            res = ((0, min(ahi, bhi)),)
        elif op in ("Mul", "MulWithOverflow"):
            if alo < 0 or blo < 0:
                return None
            res = ((alo * blo, ahi * bhi),)
        else:
            return None
        return self.clamp(res, ty)

    def transfer_stmt(self, st, s):
        if s["k"] != "assign":
            return
        self._transfer_stmt(st, s)
        if self.assume and not s["p"]["pr"] and s["p"]["l"] in self.assume:
            st[s["p"]["l"]] = self.assume[s["p"]["l"]]

    def _transfer_stmt(self, st, s):
        self._cur_line = s.get("line")
        p = s["p"]
        rv = s["rv"]
        if p["pr"]:
            # writes through projections: forget the base local if it is tracked as a whole
            st.pop(p["l"], None)
            for k in [k for k in st if isinstance(k, tuple) and k[0] == p["l"]]:
                del st[k]
            return
        d = p["l"]
        for k in [k for k in st if isinstance(k, tuple) and k[0] == d]:
            del st[k]
        k = rv["k"]
        dty = self.body.local_ty(d)
        if k == "use":
            v = self.val(st, rv["op"])
            if v is not None and dty in INT_RANGE:
                st[d] = v
            else:
                st.pop(d, None)
        elif k == "cast" and rv["cast"] == "IntToInt":
            v = self.val(st, rv["op"])
            st.pop(d, None)
            cv = self.clamp(v, rv["ty"]) if v is not None else None
            if cv is not None:
                st[d] = cv
        elif k == "binop":
            op = rv["op"]
            a = self.val(st, rv["a"])
            b = self.val(st, rv["b"])
            if op.endswith("WithOverflow"):
                m = re.match(r"\((\w+), bool\)", dty)
                ety = m.group(1) if m else None
                st.pop(d, None)
                res = self.arith(op, a, b, ety) if ety else None
                if res is not None:
                    st[(d, "0")] = res
            elif op in ("Lt", "Le", "Gt", "Ge", "Eq", "Ne"):
                st.pop(d, None)
            else:
                st.pop(d, None)
                res = self.arith(op, a, b, dty)
                if res is not None:
                    st[d] = res
        elif k == "aggregate":
            st.pop(d, None)
        else:
            st.pop(d, None)

    def transfer_call(self, st, t):
        f = fn_of(t)
        if t.get("line") is not None:
            self._cur_line = t["line"]
        dest = t["dest"]
        if dest["pr"]:
            st.pop(dest["l"], None)
            return
        d = dest["l"]
        for k in [k for k in st if isinstance(k, tuple) and k[0] == d]:
            del st[k]
        st.pop(d, None)
        if not f:
            return
        dty = self.body.local_ty(d)
        if f.get("trait") == "std::convert::From" and dty in INT_RANGE and t["args"]:
            v = self.val(st, t["args"][0])
            cv = self.clamp(v, dty) if v is not None else None
            if cv is not None:
                st[d] = cv
        elif f.get("name") in ("start", "end") and "std::ops::RangeInclusive" in f["def"] and len(t["args"]) == 1:
            # `CONST_RANGE.start()`: a reference to a known bound
            rng = self._const_behind(None, t["args"][0])
            if rng and rng.get("ref_fields_complete") and isinstance(rng["ref_fields"].get(f["name"]), int):
                v = rng["ref_fields"][f["name"]]
                st[(d, "*")] = ((v, v),)
        elif f.get("trait") in _ARITH_TRAITS and f.get("name") == _ARITH_TRAITS[f["trait"]][0] and len(t["args"]) == 2 and dty in INT_RANGE:
            # `a - *r` written as `a - r`: the operator impls of the primitive integers between values and references
            tys = [self.body.local_ty(a["p"]["l"]).lstrip("&") if is_place(a) and not a["p"]["pr"] else dty for a in t["args"]]
            if all(x == dty for x in tys):
                res = self.arith(_ARITH_TRAITS[f["trait"]][1], self.val_or_pointee(st, t["args"][0]), self.val_or_pointee(st, t["args"][1]), dty)
                if res is not None:
                    st[d] = res
        elif f.get("trait") in ("std::convert::TryFrom", "std::convert::TryInto") and len(t["args"]) == 1:
            # `uN::try_from(x)`: Ok(x) exactly when x fits
            m = re.match(r"^std::result::Result<(\w+), ", dty)
            v = self.val(st, t["args"][0])
            if m and m.group(1) in INT_RANGE and v is not None:
                lo, hi = INT_RANGE[m.group(1)]
                fit = intersect(v, lo, hi)
                if fit:
                    st[(d, "ok")] = fit
        elif f["def"] in ("std::result::Result::<T, E>::expect", "std::result::Result::<T, E>::unwrap") and t["args"] and is_place(t["args"][0]) and not t["args"][0]["p"]["pr"] and dty in INT_RANGE:
            v = st.get((t["args"][0]["p"]["l"], "ok"))
            if v is not None:
                st[d] = v
        elif f.get("local") and dty in INT_RANGE and ret_summary(self.body.crate, f) is not None:
            st[d] = ret_summary(self.body.crate, f)
        elif f["def"] in ("std::cmp::min", "std::cmp::Ord::min") and len(t["args"]) == 2 and dty in INT_RANGE:
            a = self.val(st, t["args"][0])
            b = self.val(st, t["args"][1])
            r = INT_RANGE[dty]
            alo, ahi = bounds(a) if a else r
            blo, bhi = bounds(b) if b else r
            st[d] = ((min(alo, blo), min(ahi, bhi)),)

    # -- predicates for branch refinement
    def predicate_of(self, bb, local):
        """Find in block bb (or its unique predecessor when bb only holds the switch) the comparison
        defining the switch operand."""
        body = self.body
        blk = body.blocks[bb]
        for s in reversed(blk["stmts"]):
            if s["k"] == "assign" and not s["p"]["pr"] and s["p"]["l"] == local:
                rv = s["rv"]
                if rv["k"] == "binop" and rv["op"] in ("Eq", "Ne") and is_place(rv["a"]) and not rv["a"]["p"]["pr"] and rv["b"].get("k") == "const":
                    # `x & M == V` with M a high-bits mask: x lies in one interval
                    for s2 in reversed(blk["stmts"]):
                        if s2["k"] == "assign" and not s2["p"]["pr"] and s2["p"]["l"] == rv["a"]["p"]["l"] and s2["rv"]["k"] == "binop" and s2["rv"]["op"] == "BitAnd" and s2["rv"]["b"].get("k") == "const" and is_place(s2["rv"]["a"]) and not s2["rv"]["a"]["p"]["pr"]:
                            xv = s2["rv"]["a"]["p"]["l"]
                            src = self._alias_src(blk, xv)
                            rr = self.ty_range(xv)
                            ms = mask_set(s2["rv"]["b"].get("v"), rv["b"].get("v"), rr) if rr else None
                            if ms:
                                p_ = ("in", src if src is not None else xv, ms[0][0], ms[0][1])
                                return p_ if rv["op"] == "Eq" else ("not", p_)
                if rv["k"] == "binop" and rv["op"] in ("Lt", "Le", "Gt", "Ge", "Eq", "Ne"):
                    return ("cmp", rv["op"], rv["a"], rv["b"])
                if rv["k"] == "unop" and rv["op"] == "Not":
                    inner = rv["a"]
                    if is_place(inner) and not inner["p"]["pr"]:
                        p = self.predicate_of(bb, inner["p"]["l"])
                        if p:
                            return ("not", p)
                return None
        # defined by the call terminating the unique predecessor?
        preds = body.pred(bb)
        if len(preds) == 1:
            pt = body.blocks[preds[0]]["term"]
            if pt["k"] == "call" and not pt["dest"]["pr"] and pt["dest"]["l"] == local:
                f = fn_of(pt)
                cp = self.contains_pred(preds[0], pt)
                if cp is not None:
                    return cp
                if f and f["name"] == "is_empty":
                    return None
                # a same-crate `fn(x: uN) -> bool` whose answer is a function of x alone: the set of x it accepts
                summ = bool_summary(body.crate, f) if f else None
                if summ is not None and len(pt["args"]) == 1:
                    var = self._local_behind(preds[0], pt["args"][0])
                    if var is None and is_place(pt["args"][0]) and not pt["args"][0]["p"]["pr"]:
                        var = pt["args"][0]["p"]["l"]
                    if var is not None:
                        return ("inset", var, summ[0], summ[1], pt["args"][0])
        return None

    @staticmethod
    def _alias_src(blk, local):
        """The variable a block-local temporary is a fresh copy of (`_3 = copy _1`)."""
        for s_ in blk["stmts"]:
            if s_["k"] == "assign" and not s_["p"]["pr"] and s_["p"]["l"] == local and s_["rv"]["k"] == "use" and is_place(s_["rv"]["op"]) and not s_["rv"]["op"]["p"]["pr"]:
                return s_["rv"]["op"]["p"]["l"]
        return None

    def contains_pred(self, bb, pt):
        """("in", var, lo, hi) when the call is `<constant range>.contains(&var)` (Range or RangeInclusive)."""
        f = fn_of(pt)
        if not (f and f.get("name") == "contains" and ("std::ops::Range" in f.get("def", "")) and len(pt["args"]) == 2):
            return None
        rng = self._const_behind(bb, pt["args"][0])
        var = self._local_behind(bb, pt["args"][1])
        if not (rng and var is not None and rng.get("ref_fields_complete")):
            return None
        fl = rng["ref_fields"]
        kind = rng.get("ref_struct", "")
        if kind.endswith("RangeInclusive"):
            return ("in", var, fl["start"], fl["end"])
        if kind.endswith("::Range"):
            return ("in", var, fl["start"], fl["end"] - 1)
        return None

    def _const_behind(self, bb, op):
        from model import trace

        tr = trace(self.body, op)
        if tr.origin and tr.origin[0] == "const":
            return tr.origin[1]
        return None

    def _local_behind(self, bb, op):
        """The local an operand refers to through refs/reborrows/copies."""
        cur = op
        for _ in range(8):
            if not is_place(cur):
                return None
            p = cur["p"]
            l = p["l"]
            if p["pr"] and not all(e["k"] == "deref" for e in p["pr"]):
                return None
            ds = self.body.whole_defs(l)
            if len(ds) != 1 or ds[0][2] != "assign":
                return l if not p["pr"] else None
            rv = ds[0][3]["rv"]
            if rv["k"] == "ref" and not rv["p"]["pr"]:
                return rv["p"]["l"]
            if rv["k"] == "ref" and all(e["k"] == "deref" for e in rv["p"]["pr"]):
                cur = {"k": "copy", "p": {"l": rv["p"]["l"], "pr": []}}
                continue
            if rv["k"] == "use" and is_place(rv["op"]) and self.body.local_ty(l).startswith("&"):
                cur = rv["op"]
                continue
            return l if not p["pr"] else None
        return None

    def refine(self, st, pred, truth):
        st = dict(st)
        if pred is None:
            return st
        if pred[0] == "not":
            return self.refine(st, pred[1], not truth)
        if pred[0] == "inset":
            _, var, tset, fset, arg = pred
            want = tset if truth else fset
            targets = [var]
            # the argument is usually a fresh copy of the variable made in the predecessor block
            if is_place(arg) and not arg["p"]["pr"] and arg["p"]["l"] != var:
                targets.append(arg["p"]["l"])
            ds = self.body.whole_defs(var)
            if len(ds) == 1 and ds[0][2] == "assign" and ds[0][3]["rv"]["k"] == "use" and is_place(ds[0][3]["rv"]["op"]) and not ds[0][3]["rv"]["op"]["p"]["pr"]:
                targets.append(ds[0][3]["rv"]["op"]["p"]["l"])
            for v_ in targets:
                cur = st.get(v_)
                r = self.ty_range(v_)
                base = cur if cur is not None else ((r,) if r else None)
                if base is None:
                    continue
                st[v_] = norm([(max(x, lo), min(y, hi)) for x, y in base for lo, hi in want])
            return st
        if pred[0] == "in":
            _, var, lo, hi = pred
            cur = st.get(var)
            r = self.ty_range(var)
            if truth:
                st[var] = intersect(cur if cur is not None else ((r,) if r else None), lo, hi)
            else:
                nv = remove(cur, lo, hi, r)
                if nv is not None:
                    st[var] = nv
            return st
        _, op, a, b = pred
        if not truth:
            op = {"Lt": "Ge", "Le": "Gt", "Gt": "Le", "Ge": "Lt", "Eq": "Ne", "Ne": "Eq"}[op]
        # normalise to: var OP const-bounds
        def side(x):
            if is_place(x) and not x["p"]["pr"]:
                return x["p"]["l"]
            return self.payload_key(x)

        la, lb = side(a), side(b)
        va, vb = self.val(st, a), self.val(st, b)
        BIG = 2**130

        def apply(var, lo, hi):
            cur = st.get(var)
            r = self.ty_range(var)
            base = cur if cur is not None else ((r,) if r else ((-BIG, BIG),))
            st[var] = intersect(base, lo, hi)
            # the compared temporary is a fresh copy of a variable (`_9 = copy _5; _8 = Gt(_9, ..)`):
            # the variable holds the same value on this edge
            src = getattr(self, "_alias", {}).get(var)
            if src is not None:
                cur2 = st.get(src)
                r2 = self.ty_range(src)
                base2 = cur2 if cur2 is not None else ((r2,) if r2 else ((-BIG, BIG),))
                st[src] = intersect(base2, lo, hi)

        if la is not None and vb is not None:
            blo, bhi = bounds(vb)
            if op == "Lt":
                apply(la, -BIG, bhi - 1)
            elif op == "Le":
                apply(la, -BIG, bhi)
            elif op == "Gt":
                apply(la, blo + 1, BIG)
            elif op == "Ge":
                apply(la, blo, BIG)
            elif op == "Eq":
                apply(la, blo, bhi)
            elif op == "Ne" and blo == bhi:
                for tv in (la, getattr(self, "_alias", {}).get(la)):
                    if tv is None:
                        continue
                    nv = remove(st.get(tv), blo, bhi, self.ty_range(tv))
                    if nv is not None:
                        st[tv] = nv
        if lb is not None and va is not None:
            alo, ahi = bounds(va)
            if op == "Lt":  # a < b  => b > alo
                apply(lb, alo + 1, BIG)
            elif op == "Le":
                apply(lb, alo, BIG)
            elif op == "Gt":
                apply(lb, -BIG, ahi - 1)
            elif op == "Ge":
                apply(lb, -BIG, ahi)
            elif op == "Eq":
                apply(lb, alo, ahi)
            elif op == "Ne" and alo == ahi:
                for tv in (lb, getattr(self, "_alias", {}).get(lb)):
                    if tv is None:
                        continue
                    nv = remove(st.get(tv), alo, ahi, self.ty_range(tv))
                    if nv is not None:
                        st[tv] = nv
        return st

    # -- fixpoint
    def out_states(self, bb, st):
        """[(succ, state)] after executing block bb from entry state st."""
        body = self.body
        st = dict(st)
        blk = body.blocks[bb]
        for s in blk["stmts"]:
            self.transfer_stmt(st, s)
        t = blk["term"]
        k = t["k"]
        # copies of bare locals made in this block and still valid at its end
        alias = {}
        for s in blk["stmts"]:
            if s["k"] != "assign":
                continue
            tl = s["p"]["l"]
            for a_, b_ in list(alias.items()):
                if a_ == tl or b_ == tl:
                    del alias[a_]
            if not s["p"]["pr"] and s["rv"]["k"] == "use" and is_place(s["rv"]["op"]) and not s["rv"]["op"]["p"]["pr"] and s["rv"]["op"]["p"]["l"] != tl:
                alias[tl] = s["rv"]["op"]["p"]["l"]
        self._alias = alias
        if k == "switch":
            d = t["discr"]
            pred = None
            dl = None
            if is_place(d) and not d["p"]["pr"]:
                dl = d["p"]["l"]
                pred = self.predicate_of(bb, dl)
            out = []
            for v, tgt in t["targets"]:
                s2 = dict(st)
                if pred is not None and v == 0:
                    s2 = self.refine(st, pred, False)
                elif dl is not None and self.body.local_ty(dl) in INT_RANGE:
                    cur = self.val(st, d)
                    s2[dl] = intersect(cur, v, v)
                out.append((tgt, s2))
            s3 = dict(st)
            if pred is not None and [v for v, _ in t["targets"]] == [0]:
                s3 = self.refine(st, pred, True)
            elif dl is not None and self.body.local_ty(dl) in INT_RANGE:
                cur = self.val(st, d)
                for v, _ in t["targets"]:
                    cur = remove(cur, v, v, self.ty_range(dl))
                if cur is not None:
                    s3[dl] = cur
            out.append((t["otherwise"], s3))
            return out
        if k == "call":
            self.transfer_call(st, t)
            return [(t["target"], st)] if t["target"] is not None else []
        if k == "assert":
            # on the continuing edge the asserted condition holds
            c = t["cond"]
            if is_place(c) and not c["p"]["pr"]:
                pred = self.predicate_of(bb, c["p"]["l"])
                if pred is not None:
                    st = self.refine(st, pred, t["expected"])
            return [(t["target"], st)]
        return [(x, dict(st)) for x in body.succ(bb)]

    def join(self, a, b):
        out = {}
        for k in a:
            if k in b:
                u = union(a[k], b[k])
                if u is not None:
                    out[k] = u
        return out

    def _thread(self, bb, st):
        """Jump threading: when block bb does nothing but switch on a local whose value is one known constant
        in `st` (the join block of `let m = matches!(x, A..=B)`: each predecessor stores `true` or `false`),
        return the successor that state takes, so that the facts established on the way to each predecessor
        are not merged away at the join; else None."""
        blk = self.body.blocks[bb]
        t = blk["term"]
        if blk["stmts"] or t["k"] != "switch" or not is_place(t["discr"]) or t["discr"]["p"]["pr"]:
            return None
        v = st.get(t["discr"]["p"]["l"])
        if not v or len(v) != 1 or v[0][0] != v[0][1]:
            return None
        for val, tgt in t["targets"]:
            if val == v[0][0]:
                return tgt
        return t["otherwise"]

    def run(self):
        body = self.body
        self.entry = {0: dict(self.params)}
        self.threaded = {}
        ret_blocks = set(body.return_blocks())
        work = [0]
        count = {}
        while work:
            bb = work.pop(0)
            st = self.entry[bb]
            for succ, s2 in self.out_states(bb, st):
                # unreachable refinement: an empty interval set means the edge is infeasible
                if any(v == () for v in s2.values()):
                    continue
                for _ in range(4):
                    nxt = self._thread(succ, s2)
                    if nxt is None:
                        break
                    self.threaded[succ] = self.join(self.threaded[succ], s2) if succ in self.threaded else dict(s2)
                    succ = nxt
                if succ in ret_blocks:
                    self.return_states.append(dict(s2))
                if succ not in self.entry:
                    self.entry[succ] = s2
                    work.append(succ)
                else:
                    j = self.join(self.entry[succ], s2)
                    if j != self.entry[succ]:
                        count[succ] = count.get(succ, 0) + 1
                        if count[succ] > 12:
                            # widen: drop everything that still changes
                            j = {k: v for k, v in j.items() if self.entry[succ].get(k) == v}
                        self.entry[succ] = j
                        if succ not in work:
                            work.append(succ)

    def state_after(self, bb, idx):
        """State after statement `idx` of block bb."""
        if bb not in self.entry and bb not in self.threaded:
            return None
        st = dict(self.entry[bb]) if bb in self.entry else dict(self.threaded[bb])
        if bb in self.entry and bb in self.threaded:
            st = self.join(st, self.threaded[bb])
        for i, s in enumerate(self.body.blocks[bb]["stmts"]):
            self.transfer_stmt(st, s)
            if i == idx:
                break
        return st

    def at_call(self, bb, op):
        """Intervals of operand `op` as evaluated at the terminator of block bb."""
        if bb not in self.entry and bb not in self.threaded:
            return ()  # unreachable
        st = dict(self.entry[bb]) if bb in self.entry else dict(self.threaded[bb])
        if bb in self.entry and bb in self.threaded:
            st = self.join(st, self.threaded[bb])
        for s in self.body.blocks[bb]["stmts"]:
            self.transfer_stmt(st, s)
        return self.val_or_pointee(st, op)


_SUMMARIES = {}


def bool_summary(crate, f):
    """(accepted, rejected) interval sets of the single integer parameter of a same-crate `fn(x) -> bool` whose
    result depends on x alone (every return edge yields a constant, and the two sets are disjoint); else None."""
    fid = (f or {}).get("resolved") or (f or {}).get("def")
    if not f or not f.get("local") or fid is None:
        return None
    key = (id(crate), fid)
    if key in _SUMMARIES:
        return _SUMMARIES[key]
    _SUMMARIES[key] = None
    b = crate.by_id.get(fid)
    if b is None or b.nargs != 1 or b.local_ty(0) != "bool" or b.local_ty(1).lstrip("&") not in INT_RANGE:
        return None
    if b.local_ty(1).startswith("&"):
        return None
    r = INT_RANGE[b.local_ty(1)]
    # `fn f(x) -> bool { TABLE.iter().any(|&(lo, hi)| (lo..=hi).contains(&x)) }`: a constant table of ranges
    ts = _table_any_summary(crate, b, r)
    if ts is not None:
        _SUMMARIES[key] = ts
        return ts
    ms = _mask_test_summary(b, r)
    if ms is not None:
        _SUMMARIES[key] = ms
        return ms
    # no calls other than further summarised helpers / contains
    iv = Interval(b)
    tset, fset = [], []
    if not iv.return_states:
        return None
    # `fn f(x) -> bool { (A..B).contains(&x) }`: the call's result is the return value itself
    direct = [(bb, t) for bb, t in b.calls() if not t["dest"]["pr"] and t["dest"]["l"] == 0]
    if len(direct) == 1 and len(list(b.calls())) == 1:
        cp = iv.contains_pred(direct[0][0], direct[0][1])
        if cp is not None and cp[1] == 1:
            lo, hi = max(cp[2], r[0]), min(cp[3], r[1])
            _SUMMARIES[key] = (norm([(lo, hi)]), remove((r,), lo, hi, r))
            return _SUMMARIES[key]
        return None
    for st in iv.return_states:
        ret = st.get(0)
        px = st.get(1)
        if px is None:
            px = (r,)
        if ret == ((1, 1),):
            tset += list(px)
        elif ret == ((0, 0),):
            fset += list(px)
        else:
            return None
    tset, fset = norm(tset), norm(fset)
    for lo, hi in tset:
        for lo2, hi2 in fset:
            if max(lo, lo2) <= min(hi, hi2):
                return None
    # only arithmetic-free bodies are summarised: a call with side effects would make the answer depend on more
    for _, t in b.calls():
        tf = fn_of(t) or {}
        if not (tf.get("name") == "contains" or bool_summary(crate, tf) is not None):
            return None
    _SUMMARIES[key] = (tset, fset)
    return _SUMMARIES[key]


_RET = {}


def ret_summary(crate, f):
    """Intervals of the integer a same-crate function returns, whatever it is given (None when nothing better than
    the type's range is known)."""
    b = crate.by_id.get(f.get("resolved") or f.get("def"))
    if b is None:
        return None
    key = (id(crate), b.id)
    if key in _RET:
        return _RET[key]
    _RET[key] = None  # recursion guard
    if b.local_ty(0) not in INT_RANGE:
        return None
    iv = Interval(b)
    acc = ()
    for st in iv.return_states:
        v = st.get(0)
        if v is None:
            return None
        acc = union(acc, v) if acc != () else v
    if acc and acc != (INT_RANGE[b.local_ty(0)],):
        _RET[key] = acc
    return _RET[key]


def mask_set(m, v, r):
    """Values x of the range r with `x & m == v`, when that set is one interval: m keeps a run of high bits and drops
    all bits below it (`x & 0xF800 == 0xD800` is 0xD800..=0xDFFF); None otherwise."""
    if not (isinstance(m, int) and isinstance(v, int)) or m < 0 or v < 0 or r[0] != 0:
        return None
    width = r[1].bit_length()
    low = 0
    while low < width and not (m >> low) & 1:
        low += 1
    if m != ((1 << width) - 1) & ~((1 << low) - 1):
        return None
    if v & ~m:
        return ()  # never equal
    return ((v, v + (1 << low) - 1),)


def _mask_test_summary(b, r):
    """(accepted, rejected) for `fn f(x: uN) -> bool { x & M == V }` (or `!=`)."""
    from model import const_value, trace

    if len(list(b.calls())) != 0 or len([x for x in b.reach()]) != 1:
        return None
    ds = b.whole_defs(0)
    if len(ds) != 1 or ds[0][2] != "assign" or ds[0][3]["rv"]["k"] != "binop" or ds[0][3]["rv"]["op"] not in ("Eq", "Ne"):
        return None
    rv = ds[0][3]["rv"]
    v = const_value(rv["b"])
    at = trace(b, rv["a"])
    if not (at.origin and at.origin[0] == "rvalue" and at.origin[1]["rv"]["k"] == "binop" and at.origin[1]["rv"]["op"] == "BitAnd"):
        return None
    m = const_value(at.origin[1]["rv"]["b"])
    xt = trace(b, at.origin[1]["rv"]["a"])
    if xt.origin != ("arg", 1) or not all(s_[0] == "use" for s_ in xt.steps):
        return None
    acc = mask_set(m, v, r)
    if acc is None:
        return None
    rej = (r,)
    for lo, hi in acc:
        rej = remove(rej, lo, hi, r)
    return (acc, rej) if rv["op"] == "Eq" else (rej, acc)


def _table_any_summary(crate, b, r):
    """(accepted, rejected) for `CONST_TABLE.iter().any(|&(lo, hi)| (lo..=hi).contains(&x))` (or `lo..hi`) with x the
    function's parameter; None when the body is not of that form."""
    from model import trace

    calls = list(b.calls())
    anyc = [(bb, t) for bb, t in calls if (fn_of(t) or {}).get("def") == "std::iter::Iterator::any" and not t["dest"]["pr"] and t["dest"]["l"] == 0]
    if len(anyc) != 1 or len(calls) != 2:
        return None
    bb, t = anyc[0]
    f = fn_of(t)
    cls = [crate.by_id.get(c) for c in f.get("closures", [])]
    if len(cls) != 1 or cls[0] is None:
        return None
    c = cls[0]
    # the table
    rt = trace(b, t["args"][0])
    if not (rt.origin and rt.origin[0] == "call" and (fn_of(rt.origin[2]) or {}).get("name") == "iter"):
        return None
    tt = trace(b, rt.origin[2]["args"][0])
    dec = tt.origin[1].get("decoded") if tt.origin and tt.origin[0] == "const" else None
    rows = []
    for e in (dec or {}).get("seq", []):
        tup = e.get("tuple")
        if not (tup and len(tup) == 2 and all(isinstance(x.get("v"), int) for x in tup)):
            return None
        rows.append((tup[0]["v"], tup[1]["v"]))
    if not rows:
        return None
    # the closure: one range constructor (or aggregate) over the element's two fields, one contains on the captured x
    cont = [(cb, ct) for cb, ct in c.calls() if (fn_of(ct) or {}).get("name") == "contains" and "std::ops::Range" in (fn_of(ct) or {}).get("def", "")]
    if len(cont) != 1 or cont[0][1]["dest"]["pr"] or cont[0][1]["dest"]["l"] != 0:
        return None
    ct = cont[0][1]
    inclusive = "RangeInclusive" in fn_of(ct)["def"]
    rng = trace(c, ct["args"][0])
    ops = None
    if rng.origin and rng.origin[0] == "call" and (fn_of(rng.origin[2]) or {}).get("name") == "new" and "RangeInclusive" in (fn_of(rng.origin[2]) or {}).get("def", ""):
        ops = rng.origin[2]["args"]
    elif rng.origin and rng.origin[0] == "agg" and rng.origin[1]["rv"].get("adt", "").endswith("::Range"):
        ops = rng.origin[1]["rv"]["ops"]
    if not ops or len(ops) != 2:
        return None
    for i, o in enumerate(ops):
        ot = trace(c, o)
        flds = [s_[1] for s_ in ot.steps if s_[0] == "field"]
        if not (ot.origin == ("arg", 2) and flds == [str(i)]):
            return None
    it = trace(c, ct["args"][1])
    if not (it.origin == ("arg", 1) and any(s_[0] == "field" for s_ in it.steps)):
        return None
    # the captured variable is the function's own parameter
    env = trace(b, t["args"][1])
    if not (env.origin and env.origin[0] == "agg" and len(env.origin[1]["rv"]["ops"]) == 1):
        return None
    pt = trace(b, env.origin[1]["rv"]["ops"][0])
    if not (pt.origin == ("arg", 1)):
        return None
    acc = norm([(max(lo, r[0]), min(hi if inclusive else hi - 1, r[1])) for lo, hi in rows if (hi if inclusive else hi - 1) >= lo])
    rej = (r,)
    for lo, hi in acc:
        rej = remove(rej, lo, hi, r)
    return acc, rej


_FOR_BODY = {}


_CTOR_RANGE = {}


def ctor_payload_range(crate, adt, variant, field):
    """Intervals of the integer payload `field` of `adt::variant`, as established by every construction of that
    variant in the crate (a crate-local enum whose variants are built by aggregates only); None when the enum is not
    local, is never constructed, or some construction's operand is not known."""
    key = (id(crate), adt, variant, field)
    if key in _CTOR_RANGE:
        return _CTOR_RANGE[key]
    _CTOR_RANGE[key] = None  # recursion guard: a payload that depends on itself is unknown
    a = crate.adts.get(adt.split("<")[0]) or crate.adts.get(adt)
    if not a or a.get("crate") != crate.raw.get("crate", a.get("crate")) and not a.get("local", True):
        return None
    if a.get("kind") != "enum":
        return None
    acc = ()
    n = 0
    for b in crate.bodies:
        for bi, blk in enumerate(b.blocks):
            for si, s_ in enumerate(blk["stmts"]):
                if s_["k"] != "assign" or s_["rv"]["k"] != "aggregate":
                    continue
                rv = s_["rv"]
                if rv.get("adt") != a["path"] or rv.get("variant") != variant:
                    continue
                fields = rv.get("fields") or [str(i) for i in range(len(rv["ops"]))]
                if field not in fields:
                    return None
                n += 1
                iv = for_body(b) or Interval(b)
                st = iv.state_after(bi, si - 1) if si > 0 else dict(iv.entry.get(bi, {}))
                v = iv.val(st, rv["ops"][fields.index(field)]) if st is not None else None
                if v is None:
                    return None
                acc = union(acc, v) if acc != () else v
    res = acc if n and acc != () else None
    _CTOR_RANGE[key] = res
    return res


def for_body(b, _depth=0):
    """Interval analysis of a body; for a private helper whose every use is a direct call from this crate, the
    parameters start with the union of the argument intervals at its call sites (one level of context)."""
    key = (id(b.crate), b.id)
    if key in _FOR_BODY:
        return _FOR_BODY[key]
    params = {}
    crate = b.crate
    private = b.raw.get("vis") not in ("Public",) and not b.raw.get("impl_trait") and b.raw["def_kind"] in ("Fn", "AssocFn")
    if private and _depth < 2 and b.nargs:
        sites = []
        escaped = False
        for cb in crate.bodies:
            for bi, blk in enumerate(cb.blocks):
                for s_ in blk["stmts"]:
                    if s_["k"] == "assign":
                        rv = s_["rv"]
                        for o in [rv.get("op")] + list(rv.get("ops", [])):
                            if isinstance(o, dict) and o.get("k") == "fn" and o.get("def") == b.id:
                                escaped = True
                t = blk["term"]
                if t["k"] == "call":
                    f = fn_of(t) or {}
                    if (f.get("resolved") or f.get("def")) == b.id:
                        sites.append((cb, bi, t))
                    if any(a.get("k") == "fn" and a.get("def") == b.id for a in t["args"]):
                        escaped = True
        if sites and not escaped and all(cb.id != b.id for cb, _, _ in sites):
            _FOR_BODY[key] = None  # recursion guard
            for i in range(1, b.nargs + 1):
                ty = b.local_ty(i)
                if ty not in INT_RANGE:
                    continue
                acc = ()
                for cb, bi, t in sites:
                    civ = for_body(cb, _depth + 1) or Interval(cb)
                    v = civ.at_call(bi, t["args"][i - 1]) if len(t["args"]) >= i else None
                    if v is None:
                        acc = None
                        break
                    acc = union(acc, v) if acc != () else v
                if acc not in (None, ()):
                    params[i] = acc
    iv = Interval(b, params=params)
    _FOR_BODY[key] = iv
    return iv
