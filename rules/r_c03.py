"""C03 (multi-document framing / order), C05 (streaming), C10 (self-recognition) structural rules."""
import re

from engine import rule, AnchorLost
from model import enum_edge, Super, PathSens, fn_of, trace, strace, is_place, site, const_value, carriers, switches_on_carriers
import common
import cfgbound
import vocab
import deny
import tables


# --------------------------------------------------------------------------- C03


def _direct_writes(b):
    """Direct io::Write calls on (a field of) self in an Output entry point: [(bb, term, template)]."""
    out = []
    for bb, t in b.calls():
        if not common.is_io_write_call(t):
            continue
        tr = trace(b, t["args"][0])
        if tr.origin and tr.origin[0] == "arg" and tr.origin[1] == 1:
            tmpl = None
            if fn_of(t)["name"] == "write_fmt":
                tp = common.template_of(b, t["args"][1])
                tmpl = tp[1] if tp else None
            elif len(t["args"]) > 1:
                c = trace(b, t["args"][1])
                if c.origin and c.origin[0] == "const":
                    tmpl = c.origin[1].get("str")
                    if tmpl is None and "bytes" in c.origin[1]:
                        tmpl = bytes(c.origin[1]["bytes"]).decode("latin-1")
            out.append((bb, t, tmpl))
    return out


def _serializer_calls(lib, b, fmt):
    """Calls in an Output entry point that hand the document to the target serializer."""
    crates = common.FOREIGN_FMT[fmt]
    out = []
    for bb, t in b.calls():
        f = fn_of(t) or {}
        if common.is_io_write_call(t):
            continue
        if f.get("crate") in crates and f.get("name") not in ("new", "with_formatter", "pretty"):
            out.append((bb, t))
        elif f.get("local") and any((fn_of(tt) or {}).get("name") == "deserialize_any" for _, tt in (lib.by_id.get(f.get("resolved") or f["def"]).calls() if lib.by_id.get(f.get("resolved") or f["def"]) else [])):
            out.append((bb, t))
        elif f.get("trait") == "serde::Serialize" and f.get("name") == "serialize":
            out.append((bb, t))
    return out


def _ok_blocks(b):
    out = []
    for bi in sorted(b.reach()):
        for s in b.blocks[bi]["stmts"]:
            if s["k"] == "assign" and s["p"]["l"] == 0 and not s["p"]["pr"] and s["rv"]["k"] == "aggregate" and s["rv"].get("variant") == "Ok":
                out.append(bi)
    return out


def _direct_writes_sup(sup):
    """io::Write calls on (a field of) the root's self, in the entry point or an inlined same-crate helper:
    [(node, term, template)]."""
    out = []
    for n, b, t in sup.calls():
        if not common.is_io_write_call(t):
            continue
        tr = strace(sup, n, t["args"][0])
        if tr.origin and tr.origin[0] == "arg" and tr.origin[1] == 1 and not tr.origin_node[0]:
            tmpl = None
            if fn_of(t)["name"] == "write_fmt":
                tp = common.template_of(b, t["args"][1])
                tmpl = tp[1] if tp else None
            elif len(t["args"]) > 1:
                c = strace(sup, n, t["args"][1])
                if c.origin and c.origin[0] == "const":
                    tmpl = c.origin[1].get("str")
                    if tmpl is None and "bytes" in c.origin[1]:
                        tmpl = bytes(c.origin[1]["bytes"]).decode("latin-1")
            out.append((n, t, tmpl))
    return out


def _failure_fails_root(sup, node, term):
    """If the call at `node` returns Err, the root cannot return Ok: with the success edges of every test of
    that result (and of the values it is propagated into) removed, no root return that may carry Ok is
    reachable from the call. Also requires that the result is tested at all."""
    if term["dest"]["pr"]:
        return False
    carr = carriers(sup, node, term["dest"]["l"])
    succ_edges = []
    for sn, t, how in switches_on_carriers(sup, carr):
        if how != "discr":
            continue
        sb = sup.body_of(sn)
        e = enum_edge(sb, sn[1], 0)  # Ok / Continue
        if e:
            succ_edges.append((sn, e[1], (sn[0], e[2])))
    if not succ_edges:
        # the result is never taken apart: it may still be what the root returns, as it is or through combinators that
        # keep its variant (`writeln!(w).map_err(Error::from)` returned by a helper and then by the method). Decided by
        # assuming the call failed and looking at every root return that is reachable from there.
        ps = PathSens(sup)
        ps.assume[node] = (("var", 1), None)
        entry_states = ps.explore([(sup.entry, {})])
        starts = []
        for f in entry_states.get(node, []):
            for lab, m, f2 in ps.step(node, f):
                if lab not in ("call", "maycall"):
                    starts.append((m, f2))
        reached = ps.explore(starts)
        seen_ret = False
        for n in reached:
            if n[0] or sup.root.blocks[n[1]]["term"]["k"] != "return":
                continue
            for st in reached[n]:
                seen_ret = True
                f_end = dict(st)
                for s_ in sup.root.blocks[n[1]]["stmts"]:
                    ps._stmt(f_end, (), s_)
                if f_end.get(((), 0)) != ("var", 1):
                    return False
        return seen_ret and not ps.overflow
    ps = PathSens(sup)
    entry_states = ps.explore([(sup.entry, {})])
    starts = []
    for f in entry_states.get(node, []):
        for lab, m, f2 in ps.step(node, f):
            if lab not in ("call", "maycall"):
                starts.append((m, f2))
    reached = ps.explore(starts, removed_edges=succ_edges)
    for n in reached:
        if n[0] or sup.root.blocks[n[1]]["term"]["k"] != "return":
            continue
        for st in reached[n]:
            f_end = dict(st)
            for s_ in sup.root.blocks[n[1]]["stmts"]:
                ps._stmt(f_end, (), s_)
            if f_end.get(((), 0)) != ("var", 1):
                return False
    return True


def _success_requires(sup, node):
    """Every return of the root that may carry Ok has passed `node`: with the node removed, each state
    reaching the root's return knows `_0` to be the Err variant (variant-aware exploration; an unknown
    variant counts as a possible Ok)."""
    ps = PathSens(sup)
    reached = ps.explore([(sup.entry, {})], removed_nodes=[node])
    rets = [n for n in reached if not n[0] and sup.root.blocks[n[1]]["term"]["k"] == "return"]
    for n in rets:
        for st in reached[n]:
            f_end = dict(st)
            for s_ in sup.root.blocks[n[1]]["stmts"]:
                ps._stmt(f_end, (), s_)
            if f_end.get(((), 0)) != ("var", 1):
                return False
    # and the root does return somewhere in the full graph
    return any(not n[0] and sup.root.blocks[n[1]]["term"]["k"] == "return" for n in sup.nodes())


@rule("R03.1", 10, "framing: JSON writes exactly one '\\n' after each document, YAML exactly one '---\\n' before, MessagePack nothing", ["C03", "C10"])
def r03_1(ctx):
    lib = ctx.lib
    outs = common.output_impls(ctx.facts)
    for fmt in ("json", "yaml", "msgpack"):
        for m in ("transcode_from", "transcode_value"):
            b = outs[fmt][m]
            sup = Super(lib, b, depth=2)
            ws = _direct_writes_sup(sup)
            sers = [(((), bb), t) for bb, t in _serializer_calls(lib, b, fmt)]
            oks = [((), bi) for bi in _ok_blocks(b)]
            key = f"{fmt}:{m}"
            ctx.ob(f"{key}:serializer-call", len(sers) >= 1, site(b), f"{len(sers)} serializer call(s)")
            if fmt == "msgpack":
                ctx.ob(f"{key}:no-direct-write", not ws, site(b), "the serializer is the only writer" if not ws else f"direct write(s) {[w[2] for w in ws]} add bytes between MessagePack values")
                continue
            want = "\n" if fmt == "json" else "---\n"
            ctx.ob(f"{key}:one-framing-write", len(ws) == 1 and ws[0][2] == want, site(b), f"direct writes: {[w[2] for w in ws]} (expected exactly [{want!r}])")
            if len(ws) != 1:
                continue
            wn = ws[0][0]
            if fmt == "json":
                after = all(sup.dominates(sn, wn) and sn != wn for sn, _ in sers)
                ctx.ob(f"{key}:newline-after-document", after, sup.site(wn), "newline follows the serialised document" if after else "newline is not written after the document")
                allok = _success_requires(sup, wn)
                ctx.ob(f"{key}:newline-on-every-success", allok, sup.site(wn), "every Ok return has passed the newline write" if allok else "a success path skips the newline (two documents would share a line)")
            else:
                before = all(sup.dominates(wn, sn) and sn != wn for sn, _ in sers)
                ctx.ob(f"{key}:marker-before-document", before, sup.site(wn), "'---' precedes the serialised document" if before else "'---' is not written before the document")
            ctx.ob(f"{key}:framing-write-once", not sup.on_cycle(wn), sup.site(wn), "framing write is not in a loop")
            # the framing write's result is propagated (`?`), directly or after being returned by a helper
            used = _failure_fails_root(sup, wn, ws[0][1])
            ctx.ob(f"{key}:framing-error-propagates", used, sup.site(wn), "a failing framing write fails the translation" if used else "the framing write's error is ignored (a path on which the write failed still returns Ok)")


def lib_on_cycle(body, callee_id):
    """Is some call of `callee_id` in `body` inside a loop of that body?"""
    return any(body.on_cycle(bb) for bb, t in body.calls() if ((fn_of(t) or {}).get("resolved") or (fn_of(t) or {}).get("def")) == callee_id)


@rule("R03.2", 7, "one sink per translator: outputs are constructed only by the dispatcher constructor, which only the translator constructor calls; entry points reborrow the same field", ["C03"])
def r03_2(ctx):
    lib = ctx.lib
    outs = common.output_impls(ctx.facts)
    disp = common.dispatcher_impl(ctx.facts)
    disp_adt = disp.get("self_adt")
    out_adts = {o["adt"]: f for f, o in outs.items()}

    def ctor_of(adt):
        return [b for b in lib.bodies if b.raw["def_kind"] == "AssocFn" and b.local_ty(0).startswith(adt) and b.raw.get("impl_self_adt") == adt and b.nargs >= 1 and "&" not in b.local_ty(1)[:1]]

    # the dispatcher's constructor by role: the function (associated or free) that returns a fresh dispatcher
    # from a writer and a format
    disp_ctor = [b for b in lib.bodies if b.raw["def_kind"] in ("AssocFn", "Fn") and b.local_ty(0).startswith(disp_adt) and b.nargs >= 2 and not any(b.local_ty(i).startswith("&") for i in (1, 2))]
    ctx.need(len(disp_ctor) == 1, "dispatcher constructor not found")
    disp_ctor = disp_ctor[0]
    for adt, fmt in sorted(out_adts.items()):
        cs = ctor_of(adt)
        ctx.need(cs, f"constructor of {adt} not found")
        callers = set()
        for b in lib.bodies:
            for bb, t in b.calls():
                f = fn_of(t) or {}
                if (f.get("resolved") or f.get("def")) in {c.id for c in cs} or f.get("def") in {c.id for c in cs}:
                    callers.add(b.id)
            for bi, blk in enumerate(b.blocks):
                for s in blk["stmts"]:
                    if s["k"] == "assign" and s["rv"]["k"] == "aggregate" and s["rv"].get("adt") == adt and b.id not in {c.id for c in cs}:
                        callers.add(b.id + " (literal)")
        ok = callers == {disp_ctor.id}
        ctx.ob(f"output-ctor:{fmt}", ok, site(cs[0]), f"constructed only by {sorted(callers)}" if ok else f"{adt} is also constructed by {sorted(callers - {disp_ctor.id})}: per-call outputs lose one-shot / framing state")
    callers = set()
    for b in lib.bodies:
        for bb, t in b.calls():
            f = fn_of(t) or {}
            if (f.get("resolved") or f.get("def")) == disp_ctor.id or f.get("def") == disp_ctor.id:
                callers.add(b.id)
    pub_new = [c for c in callers if lib.by_id[c].raw.get("vis") == "Public" and lib.by_id[c].name == "new"]
    ok_ctor = len(callers) == 1 and len(pub_new) == 1
    if not ok_ctor and len(callers) == 1:
        # `Translator::new` delegating to a second public constructor (`with_limit(output, to, limit)`) that builds
        # the dispatcher: still one dispatcher per translator, made where the translator is made
        cb_ = lib.by_id[next(iter(callers))]
        self_adt = cb_.raw.get("impl_self_adt")
        is_ctor = cb_.raw.get("vis") == "Public" and cb_.raw["def_kind"] == "AssocFn" and self_adt and cb_.local_ty(0).startswith(self_adt) and not (cb_.nargs >= 1 and cb_.local_ty(1).lstrip("&").replace("mut ", "").startswith(self_adt))
        news = [b_ for b_ in lib.bodies if b_.raw.get("impl_self_adt") == self_adt and b_.name == "new" and b_.raw.get("vis") == "Public"]
        delegates = bool(news) and all(any(((fn_of(t_) or {}).get("resolved") or (fn_of(t_) or {}).get("def")) == cb_.id for _, t_ in nb.calls()) for nb in news)
        ok_ctor = bool(is_ctor and delegates and not lib_on_cycle(cb_, disp_ctor.id))
    ctx.ob("dispatcher-ctor:only-translator-new", ok_ctor, site(disp_ctor), f"dispatcher constructed by {sorted(callers)}")
    # entry points receive a reborrow of the translator's own dispatcher field
    eps = common.input_entry_points(ctx.facts)
    ids = {b.id: f for f, b in eps.items()}
    deleg = {}
    for fmt_ in eps:
        for db in common.input_entry_delegators(ctx.facts, fmt_):
            ids[db.id] = fmt_
            deleg[db.id] = db
    n = 0
    for b in lib.bodies:
        for bb, t in b.calls():
            f = fn_of(t) or {}
            r = f.get("resolved") if f.get("resolved") in ids else f.get("def")
            if r in ids:
                n += 1
                tr = trace(b, t["args"][1])
                ok = bool(tr.origin and tr.origin[0] == "arg" and tr.origin[1] == 1 and tr.has("field") and all(s[0] in ("use", "ref", "deref", "field") for s in tr.steps))
                if not ok and b.id in deleg and ids.get(b.id) == ids[r]:
                    # a delegating entry point hands on the output it was given
                    ok = bool(tr.origin and tr.origin[0] == "arg" and tr.origin[1] == 2 and all(s[0] in ("use", "ref", "deref") for s in tr.steps))
                ctx.ob(f"entry:{ids[r]}:same-dispatcher", ok, site(b, bb), "output argument is `&mut self.<dispatcher>`" if ok else "input entry point receives something other than the translator's own dispatcher")
    ctx.ob("entry-call-sites", n >= 4, "lib", f"{n} entry-point call site(s)")


def _iterator_impl_bodies(crate):
    return [b for b in crate.bodies if b.raw.get("impl_trait") == "std::iter::Iterator"]


@rule("R03.3", 3, "the CLI feeds one translator in argument order: constructed before the loop, no dropping/reordering adaptor", ["C03", "C08"])
def r03_3(ctx):
    import cliview
    import r_cli

    v = cliview.view(ctx.facts)
    sup = v.sup
    binc = ctx.bin
    ctx.need(v.new, "translator construction not found")
    nn = v.new[0][0]
    ctx.ob("translator-not-in-loop", not sup.on_cycle(nn), v.site(nn), "translator is constructed once, outside the input loop")
    for n_, b_, t_ in v.translate:
        ctx.ob(f"translator-dominates:{r_cli._variant_key(t_)}", sup.dominates(nn, n_), v.site(n_), "every translate_* call uses the translator built before the loop")
    # every bin body on the way from main to the translate calls (main, helpers, closures, the parser) and
    # the path iterator
    bodies = []
    for n_ in sorted(v.nodes, key=str):
        b_ = sup.body_of(n_)
        if b_ not in bodies:
            bodies.append(b_)
    for b_ in _iterator_impl_bodies(binc) + binc.closures_of(v.main):
        if b_ not in bodies:
            bodies.append(b_)
    eps = common.input_entry_points(ctx.facts)
    for f_, b in eps.items():
        bodies.append(b)
        for _, _, t in Super(ctx.lib, b, depth=2).calls():
            pass
    # local helpers of the entry points (same file, called from them)
    for f_, b in eps.items():
        for bb, t in b.calls():
            f = fn_of(t) or {}
            cb = ctx.lib.by_id.get(f.get("resolved") or f.get("def"))
            if cb and cb.file == b.file and cb not in bodies and cb.raw["def_kind"] == "Fn":
                bodies.append(cb)
    hs0 = deny.hits(bodies, "reorder")
    hs = []
    for entry, b, bb, t in hs0:
        # what is being iterated: the characters or bytes of one string (`s.chars().last()`), or a constant table
        # (`FORMAT_NAMES.iter().filter(..)`), cannot be the inputs or the documents
        st = str((fn_of(t) or {}).get("self_ty") or "")
        over_text = any(w in st for w in ("std::str::Chars", "std::str::CharIndices", "std::str::Bytes", "std::str::Split", "std::str::Lines"))
        rt = trace(b, t["args"][0], passthrough_extra=("::iter", "::into_iter", "std::iter::Iterator::", "std::iter::IntoIterator::into_iter")) if t["args"] else None
        over_const = bool(rt and rt.origin and rt.origin[0] == "const" and rt.origin[1].get("def"))
        if over_text or over_const:
            ctx.ob(f"adaptor:{entry}:{b.name}", True, site(b, bb), f"`{fn_of(t)['def']}` over " + ("the characters of a string" if over_text else f"the constant table {rt.origin[1].get('def')}") + ": not the inputs or the documents", trivial=True)
            continue
        hs.append((entry, b, bb, t))
    for entry, b, bb, t in hs:
        ctx.ob(f"adaptor:{entry}:{b.name}", False, site(b, bb), f"`{fn_of(t)['def']}` can drop or reorder inputs/documents")
    ctx.ob("no-reordering-adaptor", not hs, "bin+lib", f"{len(bodies)} bodies scanned (main, argument parser, path iterator, input entry points)")
    deny.control_obligations(ctx, "reorder")


# iterator combinators that run a closure once per item -> whether an Err/Break result of the closure stops them
ITER_DRIVERS = {
    "std::iter::Iterator::try_for_each": True,
    "std::iter::Iterator::try_fold": True,
    "std::iter::Iterator::for_each": False,
}


@rule("R03.4", 4, "document loops forward every document exactly once per iteration", ["C03"])
def r03_4(ctx):
    lib = ctx.lib
    eps = common.input_entry_points(ctx.facts)
    n = 0
    for fmt, ep in sorted(eps.items()):
        bodies = [ep]
        for bb, t in ep.calls():
            f = fn_of(t) or {}
            cb = lib.by_id.get(f.get("resolved") or f.get("def"))
            if cb and cb.file == ep.file and cb.raw["def_kind"] == "Fn" and cb not in bodies:
                bodies.append(cb)
        for b in bodies:
            tcalls = [(bb, t) for bb, t in b.calls() if common.output_role(ctx.facts, fn_of(t)) in ("from", "value")]
            heads = sorted({v for u, v in b.back_edges()})
            for h in heads:
                srcs = [u for u, v in b.back_edges() if v == h]
                on = [(bb, t) for bb, t in tcalls if h in b.reachable_from(bb) and bb in b.reachable_from(h) and any(u in b.reachable_from(bb) for u in srcs)]
                if not on:
                    # loops that do not forward documents (e.g. none in these functions today)
                    continue
                n += 1
                key = f"{fmt}:{b.name}:loop{heads.index(h)}"
                thr = [bb for bb, _ in on]
                ok = all(b.must_pass(h, [u], thr) for u in srcs)
                ctx.ob(f"{key}:every-iteration-forwards", ok, site(b, h), "each trip around the loop passes through Output::transcode_*" if ok else "an iteration can complete without forwarding its document (document dropped)")
                ctx.ob(f"{key}:forwards-once", len(on) == 1, site(b, h), f"{len(on)} transcode call(s) per iteration" if len(on) == 1 else f"{len(on)} transcode calls in one iteration (document duplicated)")
                # the transcode result is propagated
                for bb, t in on:
                    res = t["dest"]["l"]
                    used = any((fn_of(tt) or {}).get("def") == "std::ops::Try::branch" and is_place(tt["args"][0]) and tt["args"][0]["p"]["l"] == res for _, tt in b.calls()) or res == 0
                    ctx.ob(f"{key}:failure-stops-loop", used, site(b, bb), "a failed document ends the translation" if used else "a failed document is skipped silently")
            # a loop driven by an iterator combinator: the closure body is the loop body
            for dbb, dt in b.calls():
                df = fn_of(dt) or {}
                if df.get("def") not in ITER_DRIVERS:
                    continue
                for cid in df.get("closures", []):
                    cb = lib.by_id.get(cid)
                    if cb is None:
                        continue
                    con = [(bb, t) for bb, t in cb.calls() if common.output_role(ctx.facts, fn_of(t)) in ("from", "value")]
                    if not con:
                        continue
                    n += 1
                    key = f"{fmt}:{b.name}:{df['def'].rsplit('::', 1)[-1]}"
                    # an iteration ends either by forwarding or by an error return, which stops a try_* driver
                    stops = [bb for bb, t in cb.calls() if (fn_of(t) or {}).get("def") == "std::ops::FromResidual::from_residual"] if ITER_DRIVERS[df["def"]] else []
                    ok = cb.must_pass(0, cb.return_blocks(), [bb for bb, _ in con] + stops)
                    ctx.ob(f"{key}:every-iteration-forwards", ok, site(cb, 0), "each run of the loop closure passes through Output::transcode_* or stops the loop with an error" if ok else "an iteration can complete without forwarding its document (document dropped)")
                    once = len(con) == 1 and not cb.on_cycle(con[0][0])
                    ctx.ob(f"{key}:forwards-once", once, site(cb, 0), f"{len(con)} transcode call(s) per iteration" if once else "more than one transcode call in one iteration (document duplicated)")
                    for bb, t in con:
                        res = t["dest"]["l"]
                        inner = res == 0 or any((fn_of(tt) or {}).get("def") == "std::ops::Try::branch" and is_place(tt["args"][0]) and tt["args"][0]["p"]["l"] == res for _, tt in cb.calls())
                        dres = dt["dest"]["l"]
                        outer = dres == 0 or any((fn_of(tt) or {}).get("def") == "std::ops::Try::branch" and is_place(tt["args"][0]) and tt["args"][0]["p"]["l"] == dres for _, tt in b.calls())
                        used = bool(ITER_DRIVERS[df["def"]]) and inner and outer
                        ctx.ob(f"{key}:failure-stops-loop", used, site(cb, bb), "a failed document ends the translation" if used else "a failed document does not end the translation")
            if not heads and tcalls and b is ep and fmt == "toml":
                ctx.ob(f"{fmt}:single-document", len(tcalls) == 1 and not b.on_cycle(tcalls[0][0]), site(b), "TOML input forwards exactly one document", trivial=True)
    ctx.ob("document-loops", n >= 3, "lib", f"{n} document loop(s) analysed")


# --------------------------------------------------------------------------- C05


def _callers_map(lib):
    cm = {}
    for b in lib.bodies:
        for bb, t in b.calls():
            f = fn_of(t) or {}
            for key in ("resolved", "def"):
                d = f.get(key)
                if d in lib.by_id:
                    cm.setdefault(d, []).append((b, bb, t))
                    break
    return cm


def _bounded_by_constants(lib, cm, body, op, depth=0, seen=None):
    """The operand's value is bounded by constants only: a constant, own parameter fed by constants at
    every call site, or saturating_sub/min/sub of such a value. Returns (ok, [constants])."""
    seen = seen or set()
    if depth > 6:
        return False, []
    tr = trace(body, op)
    if not tr.origin:
        return False, []
    if tr.origin[0] == "const":
        v = tr.origin[1].get("v")
        return isinstance(v, int), [v]
    if tr.origin[0] == "arg":
        key = (body.id, tr.origin[1])
        if key in seen:
            return True, []
        seen.add(key)
        sites = cm.get(body.id, [])
        if not sites:
            return False, []
        consts = []
        for cb, cbb, ct in sites:
            ok, cs = _bounded_by_constants(lib, cm, cb, ct["args"][tr.origin[1] - 1], depth + 1, seen)
            if not ok:
                return False, []
            consts += cs
        return True, consts
    if tr.origin[0] == "call":
        f = fn_of(tr.origin[2]) or {}
        acv = common.accessor_const(lib, body, op)
        if acv is not None:
            return True, [acv]
        # (not `wrapping_sub`: where the subtrahend is the larger one it wraps to a value near the type's maximum, which is
        # no bound at all)
        if f.get("name") in ("saturating_sub", "min", "checked_sub") and tr.origin[2]["args"]:
            if f["name"] == "min":
                a = _bounded_by_constants(lib, cm, body, tr.origin[2]["args"][0], depth + 1, seen)
                b_ = _bounded_by_constants(lib, cm, body, tr.origin[2]["args"][1], depth + 1, seen)
                return (a[0] or b_[0]), a[1] + b_[1]
            return _bounded_by_constants(lib, cm, body, tr.origin[2]["args"][0], depth + 1, seen)
        # a checked integer conversion and its unwrapping keep the value: `u64::try_from(n).unwrap_or(u64::MAX)` is
        # n whenever n fits, and a value bounded by small constants always fits (the fallback is never taken)
        if (f.get("trait") in ("std::convert::TryFrom", "std::convert::TryInto", "std::convert::From", "std::convert::Into") or f.get("def", "").startswith("std::result::Result::<T, E>::unwrap") or f.get("def") == "std::result::Result::<T, E>::expect") and tr.origin[2]["args"]:
            return _bounded_by_constants(lib, cm, body, tr.origin[2]["args"][0], depth + 1, seen)
        # `x.checked_sub(y).unwrap_or(0)`: the payload, or a default that is itself bounded
        if f.get("def", "").startswith("std::option::Option::<T>::") and f.get("name") in ("unwrap", "expect", "unwrap_or_default", "unwrap_or") and tr.origin[2]["args"]:
            a = _bounded_by_constants(lib, cm, body, tr.origin[2]["args"][0], depth + 1, seen)
            if f["name"] == "unwrap_or" and len(tr.origin[2]["args"]) == 2:
                d_ = _bounded_by_constants(lib, cm, body, tr.origin[2]["args"][1], depth + 1, seen)
                return (a[0] and d_[0]), a[1] + d_[1]
            return a
        # `x.checked_sub(y).filter(|&n| n > 0)`: a filter keeps the value or drops it
        if f.get("def") in ("std::option::Option::<T>::filter",) and tr.origin[2]["args"]:
            return _bounded_by_constants(lib, cm, body, tr.origin[2]["args"][0], depth + 1, seen)
    if tr.origin[0] == "rvalue":
        rv = tr.origin[1]["rv"]
        if rv["k"] == "cast":
            return _bounded_by_constants(lib, cm, body, rv["op"], depth + 1, seen)
        # unsigned `a - b`, `a / b`, `a >> b` (when they do not panic) are at most `a`
        if rv["k"] == "binop" and rv["op"] in ("Sub", "SubWithOverflow", "SubUnchecked", "Div", "Shr") and is_place(rv["a"]) and rv["a"]["p"].get("ty", "") in ("usize", "u64", "u32", "u16", "u8", "u128"):
            return _bounded_by_constants(lib, cm, body, rv["a"], depth + 1, seen)
    return False, []


SLURP_CAP = 1 << 24


@rule("R05.1", 3, "who-may-slurp: read_to_end & co. occur only in the TOML path or on a Take bounded by constants", ["C05"])
def r05_1(ctx):
    lib = ctx.lib
    cm = _callers_map(lib)
    eps = common.input_entry_points(ctx.facts)
    trials = common.trial_functions(ctx.facts)
    toml_roots = {eps["toml"].id}
    # functions reachable from non-TOML roots without passing through the TOML entry point
    roots = [b for b in lib.bodies if b.raw.get("vis") == "Public" and b.raw["def_kind"] in ("Fn", "AssocFn") and not b.raw.get("impl_trait")]
    reach = set()
    stack = [b.id for b in roots]
    while stack:
        x = stack.pop()
        if x in reach or x in toml_roots:
            continue
        reach.add(x)
        b = lib.by_id[x]
        for bb, t in b.calls():
            f = fn_of(t) or {}
            for key in ("resolved", "def"):
                dd = f.get(key)
                if dd in lib.by_id:
                    stack.append(dd)
                    break
            for c in f.get("closures", []):
                if c in lib.by_id:
                    stack.append(c)
        # trait-object / generic dispatch to local impls (Read for local readers): treat every local
        # io::Read / Iterator impl method as reachable once any streaming root is
    for b in lib.bodies:
        if b.raw.get("impl_trait") in ("std::io::Read", "std::io::BufRead", "std::iter::Iterator", "serde::de::Visitor", "serde::Serialize", "serde::de::DeserializeSeed", common.output_trait(ctx.facts)["path"]):
            stack.append(b.id)
    while stack:
        x = stack.pop()
        if x in reach or x in toml_roots:
            continue
        reach.add(x)
        for bb, t in lib.by_id[x].calls():
            f = fn_of(t) or {}
            for key in ("resolved", "def"):
                dd = f.get(key)
                if dd in lib.by_id:
                    stack.append(dd)
                    break
    hs = deny.hits(lib.bodies, "slurp")
    extra = []
    for b in lib.bodies:
        for bb, t in b.calls():
            f = fn_of(t) or {}
            if f.get("crate") in ("serde_yaml", "toml") and f.get("name") == "from_reader":
                extra.append(("from_reader", b, bb, t))
    n = 0
    for entry, b, bb, t in hs + extra:
        n += 1
        f = fn_of(t)
        recv_ty = f.get("self_ty", "") or (f["args"][0] if f.get("args") else "")
        key = f"{entry}:{b.name}"
        if "std::io::Take<" in recv_ty:
            # the Take's limit
            tr = trace(b, t["args"][0])
            lim_ok, consts = False, []
            if tr.origin and tr.origin[0] in ("call", "multi"):
                tk = tr.origin[2] if tr.origin[0] == "call" else None
                # find the Read::take call producing the receiver
                for bb2, t2 in b.calls():
                    if (fn_of(t2) or {}).get("def") == "std::io::Read::take":
                        lim_ok, consts = _bounded_by_constants(lib, cm, b, t2["args"][1])
            # "bounded" means bounded by something a machine can hold: the largest constant a limit derives from is
            # capped (16 MiB; today's largest is the 2 MiB TOML detection cut-off). `take(u64::MAX)` is not a bound.
            if not lim_ok:
                # an adjustable look-ahead: built-in values within the cap, which only a caller's own setting replaces
                for bb2, t2 in b.calls():
                    if (fn_of(t2) or {}).get("def") == "std::io::Read::take":
                        alts = cfgbound.alternatives(lib, b, t2["args"][1])
                        if cfgbound.is_default_with_override(alts, 0, SLURP_CAP):
                            ctx.ob(key + ":bounded-take", True, site(b, bb), f"reads at most n bytes with n from {cfgbound.describe(alts)}: built-in values within the cap, otherwise the caller's own setting")
                            lim_ok = None
                if lim_ok is None:
                    continue
                lim_ok = False
            big = [c for c in consts if isinstance(c, int) and c > SLURP_CAP]
            if lim_ok and big:
                ctx.ob(key + ":bounded-take", False, site(b, bb), f"the Take limit derives from the constant {big[0]}: not a bound on look-ahead (cap {SLURP_CAP} bytes)")
                continue
            ctx.ob(key + ":bounded-take", lim_ok, site(b, bb), f"reads at most a constant number of bytes (limits from constants {sorted(set(c for c in consts if c is not None))})" if lim_ok else "the Take limit is not bounded by constants: look-ahead can grow with the stream")
        else:
            only_toml = b.id not in reach
            ctx.ob(key + ":toml-only", only_toml, site(b, bb), "reached only through the TOML entry point (TOML must buffer)" if only_toml else "a streaming path reads the whole input before translating (unbounded memory, no streaming)")
    ctx.ob("slurp-sites", n >= 1, "lib", f"{n} slurping call site(s) classified")
    # the CLI hands its inputs to the library as they are (mapping or reader): it never reads one up itself
    for entry, b, bb, t in deny.hits(ctx.bin.bodies, "slurp"):
        ctx.ob(f"cli:{entry}:{b.name}", False, site(b, bb), f"the CLI reads a whole input into memory ({fn_of(t)['def']}) before translating: no streaming for that input")
    ctx.ob("cli-does-not-slurp", True, "bin", f"{len(ctx.bin.bodies)} bin bodies scanned", trivial=True)
    deny.control_obligations(ctx, "slurp")


@rule("R05.2", 2, "the capture wrapper never reaches the translator: Input::Reader boxes only the bare source or chain(prefix, source)", ["C05"])
def r05_2(ctx):
    import r_c09

    lib = ctx.lib
    cap, guard = r_c09._capture_adts(lib)
    n = 0
    bodies = []
    for cb, sup in r_c09.conversion_supers(lib):
        for nd in sorted(sup.nodes(), key=str):
            bx = sup.body_of(nd)
            if bx not in bodies and bx.raw.get("impl_self_adt") != cap:
                bodies.append(bx)
    for b in bodies:
        for bi, blk in enumerate(b.blocks):
            for s in blk["stmts"]:
                if s["k"] == "assign" and s["rv"]["k"] == "cast" and "Unsize" in s["rv"]["cast"] and "dyn std::io::Read" in s["rv"]["ty"]:
                    n += 1
                    bad = cap in s["rv"]["from_ty"]
                    ctx.ob(f"boxed-reader:{n}", not bad, site(b, line=s["line"]), f"boxes {s['rv']['from_ty']}" if not bad else f"the capturing reader itself ({s['rv']['from_ty']}) is handed to the translator: every byte of the stream would be retained")
        # the bare-source arm: `Input::Reader(source)` with source from into_inner
        for bi, blk in enumerate(b.blocks):
            for s in blk["stmts"]:
                if s["k"] == "assign" and s["rv"]["k"] == "aggregate" and s["rv"].get("variant") == vocab.lib_vocab(ctx.facts)["input"]["stream"] and s["rv"].get("adt") == vocab.lib_vocab(ctx.facts)["input"]["path"]:
                    src_ty = b.local_ty(s["rv"]["ops"][0]["p"]["l"]) if is_place(s["rv"]["ops"][0]) else ""
                    ctx.ob(f"reader-arm:{b.name}:{s['line'] - b.raw['span']['line']}", cap not in src_ty, site(b, line=s["line"]), f"Input::Reader payload type {src_ty}", trivial=True)
    ctx.ob("boxing-sites", n >= 1, "lib", f"{n} unsizing coercion(s) to Box<dyn Read> in the Handle->Input conversion")


@rule("R05.3", 4, "bounded look-ahead: prefix sizes are constants, each streaming trial examines one document (no loop), the TOML trial gives up at its cap", ["C05"])
def r05_3(ctx):
    lib = ctx.lib
    trials = common.trial_functions(ctx.facts)
    n = 0
    for fmt, b in sorted(trials.items()):
        # the trial with its same-crate helpers inlined
        sup = Super(lib, b, depth=3)
        ps = PathSens(sup)
        for nn, bx, t in sup.calls():
            f = fn_of(t) or {}
            cb = lib.by_id.get(f.get("resolved") or f.get("def"))
            if common.is_prefix_accessor(lib, cb) and len(t["args"]) == 2:
                n += 1
                v = const_value(t["args"][1]) if t["args"][1].get("k") == "const" else None
                if v is None:
                    tr = strace(sup, nn, t["args"][1])
                    v = tr.origin[1].get("v") if tr.origin and tr.origin[0] == "const" else None
                if v is None:
                    # a named constant behind a newtype and its accessor: `CUTOFF.size_hint()`
                    v = common.accessor_const(lib, bx, t["args"][1])
                cap = (16 << 20) if fmt == "toml" else 4096
                if v is None:
                    # an adjustable look-ahead: a built-in default within the accepted bound, which only a value
                    # chosen through the public API may replace (a constant as far as the stream is concerned)
                    alts = cfgbound.alternatives(lib, bx, t["args"][1])
                    if cfgbound.is_default_with_override(alts, 0, cap):
                        ctx.ob(f"{fmt}:prefix-size-constant", True, sup.site(nn), f"prefix(n) with n from {cfgbound.describe(alts)}: the built-in value is within the accepted look-ahead for this trial (<= {cap} bytes) and only the caller's own setting replaces it")
                        continue
                    ctx.ob(f"{fmt}:prefix-size-constant", False, sup.site(nn), f"prefix(n) with n from {cfgbound.describe(alts)}: not a built-in value <= {cap} bytes that only a caller's setting replaces")
                    continue
                ctx.ob(f"{fmt}:prefix-size-constant", isinstance(v, int) and v <= cap, sup.site(nn), f"prefix({v}) (accepted look-ahead for this trial: <= {cap} bytes)")
                if fmt == "toml" and isinstance(v, int) and v > 0:
                    # (a `prefix(0)` peek at what earlier trials captured is no look-ahead and has no cap to test)
                    # the prefix length is compared with the same constant and the at-or-above-cap outcome
                    # never reaches the parser
                    parsers = [x for x, _, tt in sup.calls() if (fn_of(tt) or {}).get("crate") == "toml"]
                    ok = False
                    for cn in sorted(sup.nodes(), key=str):
                        cbody = sup.body_of(cn)
                        for s in cbody.blocks[cn[1]]["stmts"]:
                            if not (s["k"] == "assign" and s["rv"]["k"] == "binop" and s["rv"]["op"] in ("Ge", "Gt", "Lt", "Le") and not s["p"]["pr"]):
                                continue
                            if const_value(s["rv"]["b"]) != v:
                                # (the cap may reach the comparison as a helper's parameter: `CUTOFF.reached_by(prefix)`)
                                bt_ = strace(sup, cn, s["rv"]["b"]) if is_place(s["rv"]["b"]) else None
                                if not (bt_ and bt_.origin and bt_.origin[0] == "const" and bt_.origin[1].get("v") == v):
                                    continue
                            over_when_true = s["rv"]["op"] in ("Ge", "Gt")
                            carr = carriers(sup, cn, s["p"]["l"], extra_pass=("then_some",))
                            for sn, sw, how in switches_on_carriers(sup, carr):
                                sb = sup.body_of(sn)
                                zero = [x for vv, x in sw["targets"] if vv == 0]
                                one = [x for vv, x in sw["targets"] if vv == 1]
                                edge = None
                                if how == "value" and sw.get("discr_ty") == "bool":
                                    edge = (sn, "otherwise", (sn[0], sw["otherwise"])) if over_when_true else ((sn, 0, (sn[0], zero[0])) if zero else None)
                                elif how == "discr":
                                    scrut = [st["rv"]["p"]["l"] for st in sb.blocks[sn[1]]["stmts"] if st["k"] == "assign" and st["rv"]["k"] == "discr"]
                                    if not scrut or not sb.local_ty(scrut[-1]).startswith("std::option::Option<"):
                                        continue
                                    # bool::then_some: Some <=> the comparison held
                                    want = 1 if over_when_true else 0
                                    tgt = [x for vv, x in sw["targets"] if vv == want]
                                    if tgt:
                                        edge = (sn, want, (sn[0], tgt[0]))
                                    elif want not in [vv for vv, _ in sw["targets"]]:
                                        edge = (sn, "otherwise", (sn[0], sw["otherwise"]))
                                if edge is None:
                                    continue
                                r = ps.reach_from_edge(*edge)
                                if r and not [x for x in parsers if x in r]:
                                    ok = True
                    ctx.ob("toml:gives-up-at-cap", ok, site(b), "input at or above the cap is answered without parsing" if ok else "the TOML trial parses a prefix that may be truncated at its cap")
        if fmt in ("json", "msgpack", "yaml"):
            cyc = []
            for nn, bb_, t in sup.calls():
                f = fn_of(t) or {}
                if (f.get("crate") in ("serde_json", "rmp_serde", "serde_yaml") or common.is_chunker_next(ctx.facts, f)) and sup.on_cycle(nn):
                    cyc.append(f["def"])
            ctx.ob(f"{fmt}:one-document-examined", not cyc, site(b), "parser calls are not in a loop" if not cyc else f"trial loops over the stream: {cyc}")
    ctx.ob("prefix-calls", n >= 2, "lib", f"{n} prefix accessor call(s)")


@rule("R05.4", 3, "streaming trials run before the buffering TOML trial", ["C05"])
def r05_4(ctx):
    ts = common.trial_sequence(ctx.facts)
    det = ts.driver
    for p in ts.problems:
        ctx.ob(f"driver-shape:{p[:40]}", False, site(det), p)
    where = ts.entries.get("toml", {}).get("site", site(det))
    for fmt in ("msgpack", "json", "yaml"):
        ok = ts.before(fmt, "toml")
        ctx.ob(f"{fmt}-before-toml", ok, where, f"{fmt} trial precedes the TOML trial (trial order: {ts.order})" if ok else f"the TOML trial (buffers up to its cap) can run before the streaming {fmt} trial (trial order: {ts.order})")


def _pulls_bytes(lib, memo_, fid, depth=0):
    """The same-crate function `fid` can read from an io::Read source (directly or through helpers)."""
    if fid in memo_:
        return memo_[fid]
    memo_[fid] = False
    b = lib.by_id.get(fid)
    if b is None or depth > 5:
        return False
    for _, t in b.calls():
        f = fn_of(t) or {}
        if f.get("trait") in ("std::io::Read", "std::io::BufRead") and f.get("name") not in ("by_ref", "take", "chain", "bytes", "consume") or f.get("def") in ("std::io::copy", "std::io::read_to_string"):
            memo_[fid] = True
            return True
        callee = f.get("resolved") or f.get("def")
        if f.get("local") and callee in lib.by_id and _pulls_bytes(lib, memo_, callee, depth + 1):
            memo_[fid] = True
            return True
    return False


@rule("R05.6", 2, "the detection driver reads nothing by itself: every call that can pull bytes from the input during detection sits inside one of the trials (so the first trial's own look-ahead is the first read)", ["C05"])
def r05_6(ctx):
    lib = ctx.lib
    ts = common.trial_sequence(ctx.facts)
    det = ts.driver
    trials = {b.id for b in common.trial_functions(ctx.facts).values()}
    sup = Super(lib, det, depth=4)
    memo_ = {}
    n = 0
    bad = []
    # the smallest look-ahead a trial asks for by itself (`prefix(1)` of the MessagePack trial): a request of at most
    # that size made in front of the trials (an "is the input empty?" test on the detection arm) reads nothing the
    # first trial would not have read as its first step
    min_trial = None
    for tb in common.trial_functions(ctx.facts).values():
        for _, bx_, t_ in Super(lib, tb, depth=2).calls():
            cb_ = lib.by_id.get((fn_of(t_) or {}).get("resolved") or (fn_of(t_) or {}).get("def"))
            if common.is_prefix_accessor(lib, cb_) and len(t_["args"]) == 2:
                v_ = common.accessor_const(lib, bx_, t_["args"][1])
                if isinstance(v_, int):
                    min_trial = v_ if min_trial is None else min(min_trial, v_)

    def _small_prefix(bx_, t_):
        cb_ = lib.by_id.get((fn_of(t_) or {}).get("resolved") or (fn_of(t_) or {}).get("def"))
        if not (common.is_prefix_accessor(lib, cb_) and len(t_["args"]) == 2):
            return False
        v_ = common.accessor_const(lib, bx_, t_["args"][1])
        return isinstance(v_, int) and min_trial is not None and v_ <= min_trial

    def _under_small_prefix(sup_, nn_):
        for i_, cs in enumerate(nn_[0]):
            caller = sup_.body_of((nn_[0][:i_], 0)) if i_ else sup_.root
            ct_ = caller.blocks[cs[1]]["term"]
            if _small_prefix(caller, ct_):
                return True
        return False

    for nn, bx, t in sup.calls():
        if any(cs[2] in trials for cs in nn[0]):
            continue
        if _small_prefix(bx, t) or _under_small_prefix(sup, nn):
            continue
        f = fn_of(t) or {}
        callee = f.get("resolved") or f.get("def")
        if callee in trials or (ts.dispatcher is not None and callee == ts.dispatcher.id):
            # the dispatcher's own calls are examined as inlined nodes; its trial calls are skipped above
            continue
        n += 1
        direct = (f.get("trait") in ("std::io::Read", "std::io::BufRead") and f.get("name") not in ("by_ref", "take", "chain", "bytes", "consume")) or f.get("def") in ("std::io::copy", "std::io::read_to_string")
        via = bool(f.get("local") and callee in lib.by_id and _pulls_bytes(lib, memo_, callee))
        if direct or via:
            bad.append((sup.site(nn), f.get("def")))
    # ... nor does whoever calls the driver, on the way to that call
    n_callers = 0
    for cb in lib.bodies:
        sites_ = [bb for bb, t in cb.calls() if ((fn_of(t) or {}).get("resolved") or (fn_of(t) or {}).get("def")) == det.id]
        if not sites_ or cb.id in trials:
            continue
        n_callers += 1
        csup = Super(lib, cb, depth=4)
        dnodes = [((), bb) for bb in sites_]
        for nn, bx, t in csup.calls():
            if nn in dnodes or any(cs[2] in trials or cs[2] == det.id for cs in nn[0]):
                continue
            f = fn_of(t) or {}
            callee = f.get("resolved") or f.get("def")
            if callee == det.id or callee in trials:
                continue
            if _small_prefix(bx, t) or _under_small_prefix(csup, nn):
                continue
            if not any(d in csup.reachable_from(nn) for d in dnodes):
                continue
            n += 1
            direct = (f.get("trait") in ("std::io::Read", "std::io::BufRead") and f.get("name") not in ("by_ref", "take", "chain", "bytes", "consume")) or f.get("def") in ("std::io::copy", "std::io::read_to_string")
            via = bool(f.get("local") and callee in lib.by_id and _pulls_bytes(lib, memo_, callee))
            if direct or via:
                bad.append((csup.site(nn), f.get("def")))
    ctx.ob("driver-callers", n_callers >= 1, site(det), f"{n_callers} caller(s) of the detection driver examined up to the call")
    for where_, d_ in bad[:3]:
        ctx.ob(f"driver-reads:{d_}", False, where_, f"the detection driver pulls input bytes outside any trial (`{d_}`): look-ahead no longer starts with the first trial's own minimal read")
    if not bad:
        ctx.ob("driver-reads-nothing", True, site(det), f"{n} call(s) of the driver outside the trials, none can read from the source")
    ctx.ob("driver-calls-seen", n >= 1, site(det), f"{n} non-trial call(s) examined in {det.name}")


_PULL_METHODS = ("read", "read_vectored", "read_exact", "read_to_end", "read_to_string", "fill_buf", "read_until", "read_line")
_FILLING_PULLS = ("read_exact", "read_to_end", "read_to_string", "read_until", "read_line")


def _generic_source_ty(ty):
    """The receiver type of an io::Read call is an unknown, possibly blocking source: a type parameter (or a trait
    object), possibly behind references and std's thin wrappers; not an in-memory reader (Cursor, &[u8], xt's own
    array buffer)."""
    t = (ty or "").strip()
    for _ in range(6):
        t0 = t
        for pre in ("&mut ", "&"):
            if t.startswith(pre):
                t = t[len(pre):].strip()
        for wrap in ("std::io::Take<", "std::io::BufReader<", "std::boxed::Box<"):
            if t.startswith(wrap) and t.endswith(">"):
                t = t[len(wrap):-1].strip()
        if t == t0:
            break
    return bool(re.match(r"^[A-Z][A-Za-z0-9_]*$", t)) or t.startswith("dyn std::io::Read") or t.startswith("dyn std::io::BufRead")


@rule("R05.8", 5, "read adapters are transparent to the read schedule: one call of an adapter's `read` (and of the libyaml read callback) asks the underlying source for data at most once after a successful read (no fill-the-buffer loop, no read_exact/read_to_end on the source), so a consumer never waits for more of the stream than it asked the source for", ["C05"])
def r05_8(ctx):
    lib = ctx.lib
    n_ad = 0
    n_it = 0
    seen_reads = 0
    for b in lib.bodies:
        is_read_impl = b.id.startswith("<") and b.id.endswith(" as std::io::Read>::read")
        if not (is_read_impl or b.raw.get("unsafe_fn")):
            continue
        if is_read_impl:
            seen_reads += 1
        sup = Super(lib, b, depth=3)
        pulls = []
        for nn, bx, t in sup.calls():
            f = fn_of(t) or {}
            if f.get("trait") in ("std::io::Read", "std::io::BufRead") and f.get("name") in _PULL_METHODS and _generic_source_ty(f.get("self_ty")):
                pulls.append((nn, f["name"]))
            elif f.get("def") == "std::io::copy" and _generic_source_ty((f.get("args") or [""])[0]):
                pulls.append((nn, "read_to_end"))
        # a generic iterator of io::Result items is a byte source in disguise (the UTF-16/32 decoders behind the
        # re-encoder): each `next` may block on the underlying reader.  Inside an adapter's `read` such a pull must not
        # sit on a cycle that is still reachable after it has yielded an item: "keep decoding until the caller's
        # buffer is full" makes the consumer wait for a whole buffer of a stream that trickles in.
        ipulls = []
        isome = {}
        if is_read_impl:
            for nn, bx, t in sup.calls():
                f = fn_of(t) or {}
                if any(str(cs[2]).endswith(" as std::io::Read>::read") for cs in nn[0]):
                    # inside another adapter's `read` inlined here: judged at that adapter
                    continue
                dty = ((t.get("dest") or {}).get("ty") or "")
                if (f.get("def") == "std::iter::Iterator::next" or (f.get("trait") and not str(f.get("trait")).startswith("std::"))) and _generic_source_ty(f.get("self_ty")) and "std::io::Error" in dty:
                    # `Iterator::next` or the method of a crate-local "character source" trait on a type parameter
                    ipulls.append(nn)
                    isome[nn] = 1 if dty.startswith("std::option::Option<") else 0
        if ipulls:
            n_it += 1
            ps_i = PathSens(sup)
            for nn in ipulls:
                ps_i.assume[nn] = (("var", isome[nn]), None)
            loops = [nn for nn in ipulls if nn in ps_i.reach_from_node(nn)]
            nm_i = b.id.split(' as ')[0].lstrip('<').split('<')[0].rsplit('::', 1)[-1]
            ctx.ob(f"one-pull-per-call:{nm_i}", not loops, sup.site(loops[0]) if loops else site(b),
                   f"{len(ipulls)} pull(s) of a fallible iterator over the source; none is repeated within one `read` call once it has yielded an item" if not loops else
                   f"`{b.id}` pulls the next item of a generic iterator of io::Result items (a decoder over the blocking source) in a loop that goes on after an item has been yielded, until the caller's buffer is full: one `read` of the adapter waits for a whole buffer of the stream, so documents that have already arrived stay unwritten while a slow stream trickles in")
        if not pulls:
            continue
        n_ad += 1
        filling = [(nn, m) for nn, m in pulls if m in _FILLING_PULLS]
        ps = PathSens(sup)
        for nn, _ in pulls:
            ps.assume[nn] = (("var", 0), None)
        again = []
        if not filling:
            pn = {nn for nn, _ in pulls}
            for nn, m in pulls:
                r = ps.reach_from_node(nn)
                hit = sorted(pn & set(r))
                if hit:
                    again.append((nn, hit[0]))
        ok = not filling and not again
        if ok:
            ctx.ob(f"one-pull-per-call:{b.name if not is_read_impl else b.id.split(' as ')[0].lstrip('<').split('<')[0].rsplit('::', 1)[-1]}", True, site(b),
                   f"{len(pulls)} source read site(s); after one of them succeeds no further source read is reachable in the same call")
        elif filling:
            ctx.ob(f"one-pull-per-call:{b.name if not is_read_impl else b.id.split(' as ')[0].lstrip('<').split('<')[0].rsplit('::', 1)[-1]}", False, sup.site(filling[0][0]),
                   f"`{filling[0][1]}` on the underlying source inside an adapter's `read`: it keeps reading until the buffer is full or the source ends, so the consumer waits for data it did not need yet (documents stay unwritten while a slow stream trickles in)")
        else:
            ctx.ob(f"one-pull-per-call:{b.name if not is_read_impl else b.id.split(' as ')[0].lstrip('<').split('<')[0].rsplit('::', 1)[-1]}", False, sup.site(again[0][0]),
                   f"after this source read has succeeded another source read (at {sup.site(again[0][1])}) is reachable within the same `read` call: the adapter fills the caller's buffer over several reads, so the consumer waits for more of the stream than one read delivers")
    ctx.ob("iterator-fed-adapters", n_it >= 1, "lib", f"{n_it} io::Read impl(s) fed by a generic fallible iterator / character source examined (the UTF-8 re-encoder)")
    ctx.ob("read-adapters", n_ad >= 4, "lib", f"{n_ad} adapter body(ies) with a read of a generic source examined ({seen_reads} io::Read impls in the crate)")


@rule("R03.6", 3, "the YAML chunk reader cuts its capture buffer at `mark - offset of the buffer's first byte`: wherever an event offset handed to the reader meets the reader's start-offset field in a subtraction, the offset is the minuend; and the method that cuts also moves the field to that offset", ["C03", "C05", "C02"])
def r03_6(ctx):
    lib = ctx.lib
    crs = common.chunk_readers(ctx.facts)
    ctx.need(len(crs) == 1, "capturing chunk reader not found")
    cr = crs[0]
    cr_adt = cr.raw.get("impl_self_adt")
    own = [b for b in lib.bodies if b.raw.get("impl_self_adt") == cr_adt and b.raw["def_kind"] != "Closure"]
    own_ids = {b.id for b in own}

    def kind_of(body, op):
        """'param' (a u64 parameter of this body other than self), ('field', name) (a u64 field of self), or None."""
        if not is_place(op):
            return None
        tr = trace(body, op)
        if not (tr.origin and tr.origin[0] == "arg"):
            return None
        if tr.origin[1] >= 2 and body.local_ty(tr.origin[1]) == "u64" and all(s_[0] == "use" for s_ in tr.steps):
            return "param"
        fs = [s_ for s_ in tr.steps if s_[0] == "field"]
        if tr.origin[1] == 1 and len(fs) == 1:
            return ("field", fs[0][1])
        return None

    n = 0
    for e in own:
        if e.nargs < 2 or not any(e.local_ty(k) == "u64" for k in range(2, e.nargs + 1)):
            continue
        if not any(((fn_of(t) or {}).get("resolved") or (fn_of(t) or {}).get("def")) == e.id for c in lib.bodies if c.id not in own_ids for _, t in c.calls()):
            continue
        sup = Super(lib, e, depth=2)
        subs = []
        fields = set()
        for node in sorted(sup.nodes(), key=str):
            body = sup.body_of(node)
            if body.id not in own_ids:
                continue
            blk = body.blocks[node[1]]
            pairs = []
            for s_ in blk["stmts"]:
                if s_["k"] == "assign" and s_["rv"]["k"] == "binop" and s_["rv"]["op"] in ("Sub", "SubWithOverflow", "SubUnchecked"):
                    pairs.append((s_["rv"]["a"], s_["rv"]["b"], s_.get("line")))
            t = blk["term"]
            if t["k"] == "call" and (fn_of(t) or {}).get("name") in ("saturating_sub", "checked_sub", "wrapping_sub", "abs_diff") and len(t["args"]) == 2:
                pairs.append((t["args"][0], t["args"][1], t.get("line")))
            for a_, c_, ln in pairs:
                ka, kc = kind_of(body, a_), kind_of(body, c_)
                if ka == "param" and isinstance(kc, tuple):
                    subs.append((node, True, kc[1]))
                    fields.add(kc[1])
                elif kc == "param" and isinstance(ka, tuple):
                    subs.append((node, False, ka[1]))
                    fields.add(ka[1])
        if not subs:
            continue
        n += 1
        wrong = [x for x in subs if not x[1]]
        ctx.ob(f"cut-length:{e.name}", not wrong, sup.site(wrong[0][0]) if wrong else site(e),
               f"{len(subs)} subtraction(s) of the form (event offset) - self.{sorted(fields)[0]}" if not wrong else
               f"self.{wrong[0][2]} minus the event offset: the operands of the cut length are the wrong way round (with a saturating or wrapping subtraction the result is 0 or garbage instead of a panic): the buffer is cut at the wrong byte, documents lose their tails or leading bytes are never dropped")
        stored = False
        for node in sorted(sup.nodes(), key=str):
            body = sup.body_of(node)
            if body.id not in own_ids:
                continue
            for s_ in body.blocks[node[1]]["stmts"]:
                if s_["k"] == "assign" and s_["p"]["pr"] and s_["p"]["pr"][-1]["k"] == "field" and s_["p"]["pr"][-1].get("name") in fields and s_["rv"]["k"] == "use" and kind_of(body, s_["rv"]["op"]) == "param":
                    stored = True
        ctx.ob(f"start-offset-follows:{e.name}", stored, site(e), f"self.{sorted(fields)[0]} is set to the offset the buffer was cut at" if stored else f"self.{sorted(fields)[0]} is not moved to the cut point: every later cut is computed from a stale start offset")
    ctx.ob("cutting-methods", n >= 2, site(cr), f"{n} method(s) of the chunk reader that cut at an event offset")


# --------------------------------------------------------------------------- C10


@rule("R10.1", 2, "trial order: JSON before YAML and MessagePack before YAML", ["C10"])
def r10_1(ctx):
    ts = common.trial_sequence(ctx.facts)
    det = ts.driver
    for p in ts.problems:
        ctx.ob(f"driver-shape:{p[:40]}", False, site(det), p)
    where = ts.entries.get("yaml", {}).get("site", site(det))
    for a in ("json", "msgpack"):
        ok = ts.before(a, "yaml")
        ctx.ob(f"{a}-before-yaml", ok, where, f"{a} trial precedes the YAML trial (trial order: {ts.order})" if ok else (f"YAML is tried before {a}: xt's own {a} output would be claimed as YAML" if a == "json" else f"YAML is tried before {a}"))


def _mark_of(lib, sup, node, op, depth=0):
    """'start_mark' / 'end_mark': the libyaml event mark whose byte index the operand holds (read directly or
    through same-crate accessors), else None."""
    tr = strace(sup, node, op)
    for st in tr.steps:
        if st[0] == "field" and st[1] in ("start_mark", "end_mark"):
            return st[1]
    if tr.origin and tr.origin[0] == "call" and depth < 3:
        f = fn_of(tr.origin[2]) or {}
        acc = lib.by_id.get(f.get("resolved") or f.get("def"))
        if acc is not None and f.get("local"):
            marks = set()
            for dbb, idx, kind, payload in acc.whole_defs(0):
                if kind == "assign" and payload["rv"]["k"] == "use":
                    t2 = trace(acc, payload["rv"]["op"])
                    marks |= {st[1] for st in t2.steps if st[0] == "field" and st[1] in ("start_mark", "end_mark")}
                    if not marks and t2.origin and t2.origin[0] == "call":
                        # one more accessor level (`stream_index(&self.0.end_mark)`)
                        for a in t2.origin[2]["args"]:
                            t3 = trace(acc, a)
                            marks |= {st[1] for st in t3.steps if st[0] == "field" and st[1] in ("start_mark", "end_mark")}
                elif kind == "call":
                    for a in payload["args"]:
                        t3 = trace(acc, a)
                        marks |= {st[1] for st in t3.steps if st[0] == "field" and st[1] in ("start_mark", "end_mark")}
            if len(marks) == 1:
                return marks.pop()
            if marks == {"start_mark", "end_mark"}:
                # an accessor that answers with one or the other depending on the event
                return "either"
    return None


@rule("R03.5", 2, "the YAML chunker cuts at the right marks: the captured text is trimmed at the START mark of a DOCUMENT_START event and taken up to the END mark of a DOCUMENT_END event", ["C03"])
def r03_5(ctx):
    lib = ctx.lib
    ch = common.chunker(ctx.facts)
    sup = ch["sup"]
    edges = common.chunker_event_edges(ctx.facts)
    polls = [n for n, b_, t in sup.calls() if _is_parser_poll(lib, b_, t)]
    ctx.need(polls, "parser poll not found in the chunker")
    # the chunk reader: the capturing io::Read of R05.5
    crs = common.chunk_readers(ctx.facts)
    ctx.need(len(crs) == 1, "capturing chunk reader not found")
    cr_adt = crs[0].raw.get("impl_self_adt")
    WANT = {"YAML_DOCUMENT_START_EVENT": "start_mark", "YAML_DOCUMENT_END_EVENT": "end_mark"}
    n = 0
    start_cuts = []
    for ev, want in sorted(WANT.items(), reverse=True):
        reach = set()
        for sn, lab, dst in edges.get(ev, []):
            reach |= set(sup.reachable_from(dst, removed_nodes=polls))
        cuts = []
        for nn, b_, t in sup.calls():
            f = fn_of(t) or {}
            callee = lib.by_id.get(f.get("resolved") or f.get("def"))
            if nn in reach and callee is not None and callee.raw.get("impl_self_adt") == cr_adt and len(t["args"]) == 2 and sup.body_of(nn).raw.get("impl_self_adt") != cr_adt and callee.local_ty(2) == "u64":
                cuts.append((nn, t))
        ctx.ob(f"cut-site:{ev}", len(cuts) >= 1, sup.site(edges[ev][0][0]) if ev in edges else site(ch["loop"]), f"{len(cuts)} offset-taking call(s) on the chunk reader after a {ev}")
        if ev == "YAML_DOCUMENT_START_EVENT":
            start_cuts = [nn for nn, _ in cuts]
        for nn, t in cuts:
            n += 1
            got = _mark_of(lib, sup, nn, t["args"][1])
            ok_m = got == want
            det_m = f"offset is the event's {want}"
            if not ok_m and ev == "YAML_DOCUMENT_END_EVENT" and got in ("start_mark", "either"):
                # ending the chunk where the DOCUMENT_END event starts leaves an explicit `...` terminator in the
                # buffer: harmless exactly when every DOCUMENT_START trims up to its own start before anything else
                # happens to the buffer (the terminator is then dropped, never glued onto the next chunk)
                always_trimmed = bool(start_cuts) and all(sup.must_pass(dst, polls + sup.exits(), start_cuts) for _, _, dst in edges.get("YAML_DOCUMENT_START_EVENT", []))
                ok_m = always_trimmed
                det_m = "chunk ends at the start of the DOCUMENT_END event (the `...` terminator stays behind); every DOCUMENT_START trims it away before returning or polling again" if ok_m else \
                    "chunk ends at the start of the DOCUMENT_END event, but a DOCUMENT_START can return or poll again without trimming: a left-over `...` terminator becomes the first line of the next chunk"
            ctx.ob(f"cut-mark:{ev}:{(fn_of(t) or {}).get('name')}", ok_m, sup.site(nn), det_m if ok_m or got in ("start_mark", "either") else f"offset comes from {got or 'something other than an event mark'}, expected the event's {want}: documents are cut at the wrong byte")
    ctx.ob("cut-sites", n >= 2, site(ch["loop"]), f"{n} cut(s) examined")


@rule("R10.5", 3, "the YAML chunker hands out a document only when libyaml has started the next one or ended the stream: on every other event it goes back to the parser (a first document is judged only after the parser got past its end)", ["C10", "C03"])
def r10_5(ctx):
    lib = ctx.lib
    ch = common.chunker(ctx.facts)
    sup = ch["sup"]
    edges = common.chunker_event_edges(ctx.facts)
    polls = [n for n, b_, t in sup.calls() if _is_parser_poll(lib, b_, t)]
    ctx.need(polls, "parser poll not found in the chunker")
    exits = set(sup.exits())
    YIELDING = ("YAML_DOCUMENT_START_EVENT", "YAML_STREAM_END_EVENT")
    n = 0
    for ev, es in sorted(edges.items()):
        if ev in YIELDING:
            continue
        bad = None
        for sn, lab, dst in es:
            n += 1
            reach = sup.reachable_from(dst, removed_nodes=polls)
            hit = [x for x in reach if x in exits]
            if hit:
                bad = (sn, hit[0])
        ctx.ob(f"polls-again:{ev}", bad is None, sup.site(bad[0]) if bad else sup.site(es[0][0]),
               "the parser is polled again before `next` can return" if bad is None else f"`next` can return on a {ev} without asking the parser for more: a document (or an error of the chunker's own) is produced before libyaml has seen the end of it")
    for ev in YIELDING:
        ctx.ob(f"arm:{ev}", ev in edges and any(lab != "otherwise" for _, lab, _ in edges[ev]), sup.site(edges[ev][0][0]) if ev in edges else site(ch["loop"]), "event has its own arm in the dispatch")
    ctx.ob("content-event-edges", n >= 3, site(ch["loop"]), f"{n} edge(s) of non-yielding events examined")


@rule("R10.4", 3, "the TOML trial's size cap applies to unbuffered reader input only, and is not below the 2 MiB the properties are stated for: in-memory input of any size is parsed", ["C10", "C09", "C02", "C14"])
def r10_4(ctx):
    lib = ctx.lib
    trial = common.trial_functions(ctx.facts)["toml"]
    sup = Super(lib, trial, depth=3)
    ps = PathSens(sup)
    # the input enum of the trial and its reader variant (the one that does not hold a byte slice)
    ref_adt = None
    for path_, a in lib.adts.items():
        if a["crate"] == "xt" and a["kind"] == "enum" and path_.split("<")[0] in trial.local_ty(1) and len(a["variants"]) == 2:
            ref_adt = a
    ctx.need(ref_adt, f"input enum of the TOML trial not found in ADT facts ({trial.local_ty(1)})")
    readers = [v_["idx"] for v_ in ref_adt["variants"] if not any("[u8]" in f_["ty"] for f_ in v_["fields"])]
    ctx.need(len(readers) == 1, "reader variant of the trial's input enum not identified")
    ridx = readers[0]
    # cap = the constant handed to the prefix accessor
    caps = []
    cap_params = []
    for nn, bx, t in sup.calls():
        f = fn_of(t) or {}
        cb = lib.by_id.get(f.get("resolved") or f.get("def"))
        if common.is_prefix_accessor(lib, cb) and len(t["args"]) == 2:
            tr = strace(sup, nn, t["args"][1])
            v = const_value(t["args"][1]) if t["args"][1].get("k") == "const" else (tr.origin[1].get("v") if tr.origin and tr.origin[0] == "const" else None)
            if v is None:
                v = common.accessor_const(lib, bx, t["args"][1])
            if isinstance(v, int):
                caps.append(v)
            elif tr.origin and tr.origin[0] == "arg" and not tr.origin_node[0] and all(x[0] in ("use", "cast", "enter_caller") for x in tr.steps):
                # an adjustable cap handed to the trial: the parameter stands for the cap, its sources are judged below
                cap_params.append((tr.origin[1], cfgbound.alternatives(lib, trial, {"k": "copy", "p": {"l": tr.origin[1], "pr": []}})))
            elif tr.origin and tr.origin[0] == "call" and all(x[0] in ("use", "cast", "enter_caller") for x in tr.steps):
                # .. or read from the input object (`r.lookahead()`): that call's result stands for the cap
                cap_params.append((tr.origin[2], cfgbound.alternatives(lib, bx, t["args"][1])))
    ctx.need(caps or cap_params, "prefix accessor call with a constant size (or a size parameter of the trial) not found in the TOML trial")
    # reader edges of switches on the input enum
    redges = []
    for sn in sorted(sup.nodes(), key=str):
        sb = sup.body_of(sn)
        t = sb.blocks[sn[1]]["term"]
        if t["k"] != "switch":
            continue
        for s_ in sb.blocks[sn[1]]["stmts"]:
            if s_["k"] == "assign" and s_["rv"]["k"] == "discr" and ref_adt["path"].split("<")[0] in s_["rv"]["p"]["ty"]:
                e = enum_edge(sb, sn[1], ridx)
                if e:
                    redges.append((sn, e[1], (sn[0], e[2])))
    n = 0
    for cn in sorted(sup.nodes(), key=str):
        cbody = sup.body_of(cn)
        for s_ in cbody.blocks[cn[1]]["stmts"]:
            def _is_cap(o_):
                if const_value(o_) in caps:
                    return True
                if is_place(o_):
                    t_ = strace(sup, cn, o_)
                    if t_.origin and t_.origin[0] == "arg" and not t_.origin_node[0] and any(p_ == t_.origin[1] for p_, _ in cap_params if isinstance(p_, int)) and all(x[0] in ("use", "cast", "enter_caller") for x in t_.steps):
                        return True
                    if t_.origin and t_.origin[0] == "call" and any(p_ is t_.origin[2] for p_, _ in cap_params if not isinstance(p_, int)) and all(x[0] in ("use", "cast", "enter_caller") for x in t_.steps):
                        return True
                    return bool(t_.origin and t_.origin[0] == "const" and t_.origin[1].get("v") in caps)
                return False

            if s_["k"] == "assign" and s_["rv"]["k"] == "binop" and s_["rv"]["op"] in ("Ge", "Gt", "Lt", "Le") and (_is_cap(s_["rv"]["b"]) or _is_cap(s_["rv"]["a"])):
                n += 1
                ok = any(ps.edge_dominates(e[0], e[1], e[2], cn) for e in redges)
                ctx.ob(f"cap-test-under-reader-arm:{n}", ok, sup.site(cn), "the size cap is tested only for reader input" if ok else "the size cap is also applied to in-memory input: a large TOML document (xt's own output) is no longer recognised")
    ctx.ob("cap-tests-found", n >= 1, site(trial), f"{n} comparison(s) with the cap {sorted(set(caps)) or 'parameter'}")
    # the properties are stated for inputs up to 2 MiB (C09's quantifier; the manual's "documents under 2 MiB"): a
    # smaller cap makes the TOML trial refuse reader input that it recognises from a slice
    floor_ = 2 << 20
    if not caps:
        okc = all(cfgbound.is_default_with_override(a_, floor_, 1 << 62) for _, a_ in cap_params)
        ctx.ob("cap-covers-2MiB", okc, site(trial), f"the adjustable TOML look-ahead cap comes from {[cfgbound.describe(a_) for _, a_ in cap_params]}: " + (f"every built-in value is >= {floor_}, anything else is the caller's own setting" if okc else f"not a built-in value >= {floor_} that only a caller's setting replaces"))
        return
    # (the cap is the largest look-ahead the trial asks for: a `prefix(0)` peek at what is already captured is not it)
    caps = [max(caps)]
    ctx.ob("cap-covers-2MiB", min(caps) >= floor_, site(trial), f"TOML look-ahead cap {min(caps)} >= {floor_}" if min(caps) >= floor_ else
           f"the TOML trial gives up on unbuffered reader input of {min(caps)} bytes or more, below the 2 MiB ({floor_}) up to which detected and explicit runs must agree: xt's own TOML output between the two sizes is no longer recognised when piped back")


@rule("R10.2", 5, "collection-marker tables agree: MessagePack trial accepts exactly rmp's array/map markers; YAML trial accepts exactly sequence/mapping roots", ["C10"])
def r10_2(ctx):
    lib = ctx.lib
    trials = common.trial_functions(ctx.facts)
    mp = trials["msgpack"]
    marker = lib.adts.get("rmp::Marker")
    ctx.need(marker, "rmp::Marker ADT facts missing")
    want = {v["name"] for v in marker["variants"] if "Array" in v["name"] or "Map" in v["name"]}
    got = set()
    found = False
    # the trial and the same-crate helpers / closures it reaches
    msup = Super(lib, mp, depth=3)
    owners = []
    for n_ in sorted(msup.nodes(), key=str):
        bid = msup.body_of(n_).id
        if bid not in owners:
            owners.append(bid)
    mtables = [t for o in owners for t in lib.tables_of(o)]
    for t in mtables:
        if "rmp::Marker" not in t["scrutinee_ty"]:
            continue
        for arm in t["arms"]:
            res = tables.body_result(arm.get("body", {}))
            if res == ("lit", True):
                found = True
                for l in tables.pat_literals(arm["pat"]):
                    x = l
                    while x[0] == "ctor":
                        nm = tables.short(x[1])
                        if x[1].startswith("rmp::Marker"):
                            got.add(nm)
                        x = x[2]
                    if x[0] == "path" and x[1].startswith("rmp::Marker"):
                        got.add(tables.short(x[1]))
    if not found:
        # the gate may test the raw first byte instead of decoding it (`matches!(b, 0x80..=0x9f | 0xdc..=0xdf)`,
        # possibly in a bool helper): the set of byte values with which the parser is reached, by interval analysis
        import ival

        RMP_COLLECTION_BYTES = ((0x80, 0x9F), (0xDC, 0xDF))  # fixmap, fixarray | array16, array32, map16, map32 (rmp 0.8 Marker::from_u8)
        iv = ival.for_body(mp)
        sets = set()
        for bb, t in mp.calls():
            f = fn_of(t) or {}
            callee = lib.by_id.get(f.get("resolved") or f.get("def"))
            if callee is None or not f.get("local"):
                continue
            if not any((fn_of(tt) or {}).get("crate") in ("rmp_serde", "serde") for _, _, tt in Super(lib, callee, depth=2).calls()):
                continue
            st = iv.entry.get(bb)
            if st is None:
                continue
            for l, v in st.items():
                if isinstance(l, int) and mp.local_ty(l) == "u8" and v is not None and v != ((0, 255),):
                    sets.add(v)
                elif isinstance(l, tuple) and getattr(iv, "_key_ty", {}).get(l) == "u8" and v is not None and v != ((0, 255),):
                    # the byte tested in place as an Option's payload: `matches!(first, Some(0x80..=0x9f | ..))`
                    sets.add(v)
        ok_b = sets == {RMP_COLLECTION_BYTES}
        shown = [" ∪ ".join(f"[{lo:#x}, {hi:#x}]" for lo, hi in v) for v in sorted(sets)]
        ctx.ob("msgpack:marker-table-found", bool(sets), site(mp), "first-byte filter over the raw marker byte found" if sets else "no first-byte filter found in the MessagePack trial")
        ctx.ob("msgpack:marker-bytes", ok_b, site(mp), f"the parser is reached exactly for first bytes {shown} (rmp's array and map markers)" if ok_b else f"the parser is reached for first bytes {shown}, rmp's array and map markers are [0x80, 0x9f] ∪ [0xdc, 0xdf]")
    else:
        ctx.ob("msgpack:marker-table-found", found, site(mp), "first-byte filter over rmp::Marker found")
        for nm in sorted(want | got):
            ctx.ob(f"msgpack:marker:{nm}", (nm in want) == (nm in got), site(mp), f"rmp collection marker: {nm in want}; accepted by the trial: {nm in got}")
    # the filter's false edge answers Ok(false) without parsing; true edge parses
    # YAML: document kind table in the chunker
    cn = common.chunker(ctx.facts)["loop"]
    dk = vocab.doc_kind(ctx.facts)
    coll_events = set()
    scalar_events = set()
    for t in lib.tables_of(cn.id):
        if t["form"] != "match":
            continue
        for arm in t["arms"]:
            lits = tables.pat_literals(arm["pat"])
            names = {tables.short(l[1]) for l in lits if l[0] == "path"}
            if not names:
                continue
            sp = arm["span"]
            # which DocumentKind variant is built within this arm's lines
            kinds = set()
            for bi in cn.reach():
                for s in cn.blocks[bi]["stmts"]:
                    if s["k"] == "assign" and s["rv"]["k"] == "aggregate" and s["rv"].get("adt") == dk["path"] and sp["line"] <= s["line"] <= sp["end_line"]:
                        kinds.add(s["rv"]["variant"])
            if kinds == {dk["collection"]}:
                coll_events |= names
            elif kinds == {dk["scalar"]}:
                scalar_events |= names
    ok = coll_events == {"YAML_SEQUENCE_START_EVENT", "YAML_MAPPING_START_EVENT"}
    ctx.ob("yaml:collection-events", ok, site(cn), f"events classifying a document as a collection: {sorted(coll_events)}")
    ctx.ob("yaml:scalar-events", scalar_events == {"YAML_SCALAR_EVENT"}, site(cn), f"events classifying a document as a scalar: {sorted(scalar_events)}")
    chb = common.chunker(ctx.facts)["bodies"]
    chb = [x for x in chb if x.file == cn.file]
    # the kind slot: an Option<DocumentKind> field; it may be filled only while it is empty
    # (get_or_insert, or a store of Some(..) under `slot.is_none()`), and emptied by None / take()
    first_wins = all((fn_of(t) or {}).get("name") != "insert" for x in chb for _, t in x.calls())
    fills = 0
    for cb in chb:
        for _, t in cb.calls():
            if (fn_of(t) or {}).get("name") == "get_or_insert" and t["args"] and dk["path"] in cb.local_ty(t["dest"]["l"]):
                fills += 1
        for bi, blk in enumerate(cb.blocks):
            for s_ in blk["stmts"]:
                if not (s_["k"] == "assign" and s_["p"]["pr"] and s_["p"]["pr"][-1]["k"] == "field" and "Option<" in s_["p"]["pr"][-1].get("ty", "") and dk["path"] in s_["p"]["pr"][-1].get("ty", "")):
                    continue
                fld = (s_["p"]["pr"][-1]["name"], s_["p"]["pr"][-1].get("adt"))
                rv = s_["rv"]
                is_none = (rv["k"] == "aggregate" and rv.get("variant") == "None") or (rv["k"] == "use" and is_place(rv["op"]) and (lambda o: bool(o.origin and o.origin[0] == "agg" and o.origin[1]["rv"].get("variant") == "None"))(trace(cb, rv["op"])))
                if is_none:
                    continue
                # a store of Some(..): must lie on the empty edge of a test of the same field
                guarded = False
                for tb, tt in cb.calls():
                    tf = fn_of(tt) or {}
                    if tf.get("name") not in ("is_none", "is_some") or not tt["args"] or tt["target"] is None:
                        continue
                    a = trace(cb, tt["args"][0])
                    if not any(st[0] == "field" and (st[1], st[2]) == fld for st in a.steps):
                        continue
                    sw = cb.blocks[tt["target"]]["term"]
                    if sw["k"] != "switch":
                        continue
                    zero = [x for v, x in sw["targets"] if v == 0]
                    if not zero:
                        continue
                    edge = (tt["target"], "otherwise", sw["otherwise"]) if tf["name"] == "is_none" else (tt["target"], 0, zero[0])
                    if cb.edge_dominates(edge[0], edge[1], edge[2], bi):
                        guarded = True
                if guarded:
                    fills += 1
                else:
                    first_wins = False
    first_wins = first_wins and fills >= 1
    ctx.ob("yaml:first-node-decides", first_wins, site(cn), "the first node event fixes the document kind (get_or_insert)" if first_wins else "a later node can overwrite the document kind")
    # the YAML trial answers with is_collection of the first chunk
    yt = trials["yaml"]
    okc = False
    for _, _, t in Super(lib, yt, depth=2).calls():
        f = fn_of(t) or {}
        cb = lib.by_id.get(f.get("resolved") or f.get("def"))
        if cb and cb.raw.get("ret_ty") == "bool" and cb.nargs == 1:
            for tb in lib.tables_of(cb.id):
                for arm in tb["arms"]:
                    if any(dk["collection"] in str(l) for l in tables.pat_literals(arm["pat"])) and tables.body_result(arm.get("body", {})) == ("lit", True):
                        okc = True
    ctx.ob("yaml:trial-answers-is-collection", okc, site(yt), "YAML trial accepts only collection-rooted first documents")


def _is_parser_poll(lib, body, t):
    """The call polls the libyaml parser: a same-crate method defined outside the chunker's file that returns
    an io::Result and reaches unsafe_libyaml (recognised by shape, not by name)."""
    f = fn_of(t) or {}
    callee = lib.by_id.get(f.get("resolved") or f.get("def"))
    if not (callee and callee.file != body.file and callee.local_ty(0).startswith("std::result::Result<") and "std::io::Error" in callee.local_ty(0)):
        return False
    return any((fn_of(tt) or {}).get("crate") == "unsafe_libyaml" for _, _, tt in Super(lib, callee, depth=2).calls())


@rule("R05.5", 3, "the YAML chunker's capture buffer is emptied once per document (bounded by the largest document, not the stream)", ["C05"])
def r05_5(ctx):
    lib = ctx.lib
    crs = common.chunk_readers(ctx.facts)
    ctx.need(len(crs) == 1, "capturing chunk reader not found")
    cr = crs[0]
    cr_adt = cr.raw.get("impl_self_adt")
    ext = [t for _, t in cr.calls() if (fn_of(t) or {}).get("name") == "extend_from_slice"][0]
    tr = trace(cr, ext["args"][0])
    fld = [s[1] for s in tr.steps if s[0] == "field"]
    ctx.need(fld, "capture field not identified")
    fld = fld[0]
    SHRINK = ("split_off", "drain", "clear", "truncate", "replace", "take")
    shrinkers = {}
    for b in lib.bodies:
        if b.raw.get("impl_self_adt") != cr_adt:
            continue
        for bb, t in b.calls():
            f = fn_of(t) or {}
            if f.get("name") in SHRINK and t["args"]:
                a = trace(b, t["args"][0])
                if any(s[0] == "field" and s[1] == fld for s in a.steps):
                    shrinkers.setdefault(b.id, []).append(f["name"])
    ctx.ob("shrinkers-exist", bool(shrinkers), site(cr), f"methods that empty `{fld}`: { {k.rsplit('::', 1)[-1]: v for k, v in shrinkers.items()} }")
    movers = {k for k, v in shrinkers.items() if any(x in ("split_off", "replace", "take") for x in v)}
    ch = common.chunker(ctx.facts)
    cn = ch["loop"]
    sup = ch["sup"]
    # on the edge the event dispatch takes for DOCUMENT_END, the captured bytes are moved out of the buffer
    # before the parser is polled again or `next` returns (decided on the chunker's supergraph: the arm may
    # do it itself or through a helper method)
    end_edges = common.chunker_event_edges(ctx.facts)["YAML_DOCUMENT_END_EVENT"]
    polls = [n for n, b_, t in sup.calls() if _is_parser_poll(lib, b_, t)]
    mover_calls = [(n, b_, t) for n, b_, t in sup.calls() if ((fn_of(t) or {}).get("resolved") or (fn_of(t) or {}).get("def")) in movers]
    ctx.need(polls, "parser poll not found in the chunker")
    for sn, lab, dst in end_edges:
        through = [n for n, _, _ in mover_calls]
        ok = bool(through) and sup.must_pass(dst, polls + sup.exits(), through)
        at = sup.site(sn)
        if ok:
            # the cut point is an offset reported by the event itself (a method of the polled event)
            ok = False
            reach = sup.reachable_from(dst)
            for mn, mb, mt in mover_calls:
                if mn not in reach or len(mt["args"]) < 2:
                    continue
                off = strace(sup, mn, mt["args"][1])
                if off.origin and off.origin[0] == "call" and (fn_of(off.origin[2]) or {}).get("local") and off.origin[2]["args"]:
                    onode = (off.origin_node[0], off.origin[1])
                    ob_ = sup.body_of(onode)
                    ev = strace(sup, onode, off.origin[2]["args"][0], extra=("std::result::Result::<T, E>::map_err",))
                    ok = bool(ev.origin and ev.origin[0] == "call" and _is_parser_poll(lib, sup.body_of((ev.origin_node[0], ev.origin[1])), ev.origin[2]) and ob_.local_ty(off.origin[2]["dest"]["l"]) == "u64")
                    at = sup.site(mn)
        ctx.ob("document-end-takes-chunk", ok, at, "on DOCUMENT_END the captured bytes up to the event's end offset are moved out of the buffer" if ok else "the capture buffer is not emptied at the end of a document: it grows with the stream")
    # the loop polls the parser once per iteration and does not retain events
    pe = [(bb, t) for bb, t in cn.calls() if _is_parser_poll(lib, cn, t)]
    ctx.ob("one-parser-poll-per-iteration", len(pe) == 1 and cn.on_cycle(pe[0][0]), site(cn), "events are consumed one at a time")
