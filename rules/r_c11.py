"""C11 — errors name their true cause (the transcoder's error plumbing)."""
from engine import rule, AnchorLost
from model import enum_edge, Super, fn_of, trace, is_place, site, const_value
import common

TEXT = "translation failed"


def _state(lib):
    """The transcoder state ADT: a local struct with Cell fields, one of them holding a fieldless
    two-variant local enum (the error source). Returns (adt_path, src_field, src_enum)."""
    for path, a in lib.adts.items():
        if a["crate"] != "xt" or a["kind"] != "struct":
            continue
        fs = a["variants"][0]["fields"]
        cells = [f for f in fs if f["ty"].startswith("std::cell::Cell<")]
        if len(cells) < 2:
            continue
        for f in cells:
            inner = f["ty"][len("std::cell::Cell<"):-1]
            e = lib.adts.get(inner)
            if e and e["kind"] == "enum" and len(e["variants"]) == 2 and all(not v["fields"] for v in e["variants"]):
                errs = [c for c in cells if c is not f and "Option<E>" in c["ty"]]
                return path, f["name"], inner, [c["name"] for c in cells if c is not f]
    raise AnchorLost("transcoder State (struct of Cells with an error-source enum) not found")


def _field_of_receiver(body, op):
    tr = trace(body, op)
    fs = [s for s in tr.steps if s[0] == "field"]
    return (fs[0][1], fs[0][2]) if fs else (None, None)


def _is_ser(lib, src_enum, body, op):
    """Operand is the constant `Ser` variant of the source enum."""
    tr = trace(body, op)
    if tr.origin and tr.origin[0] == "agg" and tr.origin[1]["rv"].get("adt") == src_enum:
        return tr.origin[1]["rv"]["variant"] == _roles(lib)["ser"] and all(s[0] == "use" for s in tr.steps)
    if tr.origin and tr.origin[0] == "const":
        return tr.origin[1].get("variant") == _roles(lib)["ser"]
    return False


_ROLES = {}


def _entry_arms(lib):
    """The transcoder entry (fn(ser, de) calling deserialize_any), the two-variant error it builds, and for
    each of the two error aggregates the error-source variant on whose arm it is built."""
    cap, st, src_enum = _capture_fn(lib)
    entry = None
    for b in lib.bodies:
        if b.raw["def_kind"] == "Fn" and b.nargs >= 2 and any((fn_of(t) or {}).get("name") == "deserialize_any" for _, t in b.calls()):
            entry = b
    if entry is None:
        raise AnchorLost("transcoder entry (fn(ser, de) calling deserialize_any) not found")
    err_adt = None
    aggs = []
    # the error may be built in the entry itself or in a closure it hands to a combinator (`.map_err(|e| ..)`)
    bodies = [entry]
    for x in bodies:
        for c in lib.closures_of(x):
            if c not in bodies:
                bodies.append(c)
    for body in bodies:
        for bi in sorted(body.reach()):
            for s in body.blocks[bi]["stmts"]:
                if s["k"] == "assign" and s["rv"]["k"] == "aggregate" and s["rv"].get("agg") == "adt":
                    a = lib.adts.get(s["rv"]["adt"])
                    if a and a["crate"] == "xt" and a["kind"] == "enum" and len(a["variants"]) == 2 and a["path"] != src_enum and sorted(len(v_["fields"]) for v_ in a["variants"]) == [1, 2]:
                        err_adt = s["rv"]["adt"]
                        aggs.append((body, bi, s))
    if not (err_adt and len(aggs) == 2):
        raise AnchorLost("two-variant transcoding error not built in the entry")
    out = []
    for body, bi, s in aggs:
        arm = None
        for sb in body.reach():
            sw = body.blocks[sb]["term"]
            if sw["k"] != "switch":
                continue
            tr = trace(body, sw["discr"])
            if tr.origin and tr.origin[0] == "call" and (fn_of(tr.origin[2]) or {}).get("impl_self_adt") == st and tr.has("discr"):
                for var in lib.adts[src_enum]["variants"]:
                    e = enum_edge(body, sb, var["idx"])
                    if e and body.edge_dominates(e[0], e[1], e[2], bi):
                        arm = var["name"]
        out.append((body, bi, s, arm))
    return entry, err_adt, out


def _roles(lib):
    """{'ser': variant, 'de': variant} of the error-source enum: 'ser' is the source on whose arm the
    top level builds the two-field error (captured serializer error + deserializer error)."""
    k = id(lib)
    if k not in _ROLES:
        entry, err_adt, arms = _entry_arms(lib)
        two = [arm for _, bi, s_, arm in arms if len(s_["rv"]["ops"]) == 2]
        one = [arm for _, bi, s_, arm in arms if len(s_["rv"]["ops"]) == 1]
        if len(two) != 1 or len(one) != 1 or two[0] is None or one[0] is None or two[0] == one[0]:
            raise AnchorLost(f"error-source roles not identifiable from the top-level arms (two-field on {two}, one-field on {one})")
        _ROLES[k] = {"ser": two[0], "de": one[0]}
    return _ROLES[k]


@rule("R11.1", 3, "State invariant source==Ser => error captured: the source cell is written only together with Some(error) or by copying both cells", ["C11", "C04"])
def r11_1(ctx):
    lib = ctx.lib
    st, srcf, src_enum, others = _state(lib)
    writers = {}
    for b in lib.bodies:
        for bb, t in b.calls():
            f = fn_of(t) or {}
            if not f.get("def", "").startswith("std::cell::Cell::<T>::"):
                continue
            fld, adt = _field_of_receiver(b, t["args"][0])
            if adt != st:
                continue
            writers.setdefault(b.id, []).append((bb, t, fld, f["name"]))
    capture_fns = []
    for bid, ws in sorted(writers.items()):
        b = lib.by_id[bid]
        src_writes = [w for w in ws if w[2] == srcf and w[3] in ("set", "replace")]
        err_writes = [w for w in ws if w[2] != srcf and w[3] in ("set", "replace", "take")]
        for bb, t, fld, nm in ws:
            if fld != srcf and nm in ("take",) and "Option<E>" in b.local_ty(0) or (fld != srcf and nm == "take" and fld == "error"):
                ctx.ob(f"error-cell-taken:{b.name}", False, site(b, bb), "the captured error is taken out of the cell (source may stay Ser with no error)")
        if not src_writes:
            continue
        own = b.raw.get("impl_self_adt") == st
        for bb, t, fld, nm in src_writes:
            val = trace(b, t["args"][1])
            # find the error write on the same straight path
            ew = [w for w in ws if w[2] != srcf and w[3] == "set" and (b.dominates(w[0], bb) or b.must_pass(t["target"], b.return_blocks(), [w[0]]))]
            ok = False
            how = "?"
            for ebb, et, efld, enm in ew:
                ev = trace(b, et["args"][1])
                if ev.origin and ev.origin[0] == "agg" and ev.origin[1]["rv"].get("variant") == "Some":
                    ok = True
                    how = f"stores Some(error) into `{efld}` on the same path"
                    if val.origin and val.origin[0] == "arg":
                        capture_fns.append((b, val.origin[1]))
                elif ev.origin and ev.origin[0] == "call" and val.origin and val.origin[0] == "call":
                    # copy of both cells from one other state
                    s1 = trace(b, val.origin[2]["args"][0])
                    s2 = trace(b, ev.origin[2]["args"][0])
                    if s1.origin == s2.origin and s1.origin and s1.origin[0] == "arg":
                        ok = True
                        how = "copies both source and error from one other state"
            ctx.ob(f"source-write:{b.name}", ok and own, site(b, bb), how if ok else "the error source is written without capturing an error on the same path")
    ctx.ob("source-writers-found", len(capture_fns) >= 1, st, f"capture function(s): {[b.name for b, _ in capture_fns]}")
    # constructor starts with the other variant (De)
    for b in lib.bodies:
        for bi, blk in enumerate(b.blocks):
            for s in blk["stmts"]:
                if s["k"] == "assign" and s["rv"]["k"] == "aggregate" and s["rv"].get("adt") == st:
                    idx = s["rv"]["fields"].index(srcf)
                    tr = trace(b, s["rv"]["ops"][idx])
                    init = None
                    if tr.origin and tr.origin[0] == "call" and tr.origin[2]["args"]:
                        a = trace(b, tr.origin[2]["args"][0])
                        if a.origin and a.origin[0] == "agg":
                            init = a.origin[1]["rv"]["variant"]
                        elif a.origin and a.origin[0] == "const":
                            init = a.origin[1].get("variant")
                    ctx.ob(f"initial-source:{b.name}", init == _roles(lib)["de"], site(b, bi), f"a fresh state starts with source {init} (the deserializer's side: {_roles(lib)['de']})")


def _capture_fn(lib):
    st, srcf, src_enum, others = _state(lib)
    for b in lib.bodies:
        if b.raw.get("impl_self_adt") != st or b.nargs != 3:
            continue
        if b.local_ty(2) == src_enum:
            return b, st, src_enum
    raise AnchorLost("capture function (state, source, error) not found")


def _custom_sites(lib, trait, file):
    """Every `<trait>::custom(..)` call in the transcoder's source file (whatever its text): these are the
    synthetic errors that stand in for a failure of the other side."""
    out = []
    for b in lib.bodies:
        if b.file != file:
            continue
        for bb, t in b.calls():
            f = fn_of(t) or {}
            if f.get("trait") == trait and t["args"] and not b.local_ty(t["dest"]["l"]).startswith("&"):
                # custom(..) and the other constructors of the trait (invalid_type, invalid_length, ..)
                out.append((b, bb, t))
    return out


def _lift(lib, b, bb):
    """A site inside a closure is judged where the closure is handed to a combinator: returns
    (parent body, call block, call terminator) or (b, bb, None)."""
    if b.raw["def_kind"] != "Closure":
        return b, bb, None
    for pb in lib.bodies:
        for pbb, pt in pb.calls():
            if b.id in (fn_of(pt) or {}).get("closures", []):
                return pb, pbb, pt
    return b, bb, None


RUNS_ON_NONE = ("std::option::Option::<T>::unwrap_or_else", "std::option::Option::<T>::or_else", "std::option::Option::<T>::ok_or_else", "std::option::Option::<T>::map_or_else")


@rule("R11.2", 3, "every synthetic deserializer error is created under a capture with constant source Ser (and the synthetic serializer error under the deserializer's source)", ["C11"])
def r11_2(ctx):
    lib = ctx.lib
    cap, st, src_enum = _capture_fn(lib)
    de_sites = _custom_sites(lib, "serde::de::Error", cap.file)
    ser_sites = _custom_sites(lib, "serde::ser::Error", cap.file)
    seen = {}

    def is_cap(ct):
        return ((fn_of(ct) or {}).get("resolved") or (fn_of(ct) or {}).get("def")) == cap.id

    for b0, bb0, t in de_sites:
        # the capture may sit in the same body as the synthetic error (also when that body is a closure:
        # `.map_err(|e| { capture(Ser, e); custom(..) })`), or in the function that hands the closure on
        b, bb, via = b0, bb0, None
        caps = [(cb, ct) for cb, ct in b.calls() if is_cap(ct) and b.dominates(cb, bb) and cb != bb]
        if not caps:
            # `let de_err = custom(&ser_err); state.capture_error(Ser, ser_err); return Err(de_err)`: the synthetic
            # error is built first (it quotes the real one, which the capture then takes by value) and the capture
            # follows on every path from there to a return
            after = [(cb, ct) for cb, ct in b.calls() if is_cap(ct) and b.dominates(bb, cb) and cb != bb]
            if after and not any(rb in b.reachable_from(bb, removed_nodes=[cb for cb, _ in after]) for rb in b.return_blocks()):
                caps = after
        if not caps:
            b, bb, via = _lift(lib, b0, bb0)
            caps = [(cb, ct) for cb, ct in b.calls() if is_cap(ct) and b.dominates(cb, bb) and cb != bb]
        k = f"{b.raw.get('impl_self_adt', '').rsplit('::', 1)[-1]}::{b.name}"
        seen[k] = seen.get(k, 0) + 1
        key = f"de-custom:{k}:{seen[k] - 1}"
        if not caps:
            ctx.ob(key, False, site(b0, bb0), "synthetic deserializer error created without capturing the serializer's error first")
            continue
        # closest dominating capture
        cb, ct = max(caps, key=lambda x: len(b.dominators()[x[0]]))
        ok = _is_ser(lib, src_enum, b, ct["args"][1])
        ctx.ob(key, ok, site(b0, bb0), "the serializer's error is captured with source Ser before unwinding through the deserializer" if ok else
               "the capture before this synthetic error records a non-constant / deserializer source: the serializer's reason is dropped from the final message")
    for b0, bb0, t in ser_sites:
        b, bb, via = _lift(lib, b0, bb0)
        caps = [(cb, ct) for cb, ct in b.calls() if is_cap(ct) and b.dominates(cb, bb) and cb != bb]
        ok = False
        det = "synthetic serializer error without a capture"
        for cb, ct in caps:
            sv = trace(b, ct["args"][1])
            if sv.origin and sv.origin[0] == "call" and (fn_of(sv.origin[2]) or {}).get("impl_self_adt") == st:
                # source of state X; the site must run only when X.into_error() is None
                for ib, it in b.calls():
                    fi = fn_of(it) or {}
                    if not (fi.get("impl_self_adt") == st and b.local_ty(it["dest"]["l"]).startswith("std::option::Option<")):
                        continue
                    if via is not None and (fn_of(via) or {}).get("def") in RUNS_ON_NONE:
                        r = trace(b, via["args"][0])
                        if r.origin and r.origin[0] == "call" and r.origin[2] is it and all(s_[0] == "use" for s_ in r.steps):
                            ok = True
                    # `X.into_error().unwrap_or(custom(..))`: built eagerly, but used only when X holds no error
                    for ub, ut in b.calls():
                        if (fn_of(ut) or {}).get("def") == "std::option::Option::<T>::unwrap_or" and len(ut["args"]) == 2:
                            r0 = trace(b, ut["args"][0])
                            r1 = trace(b, ut["args"][1])
                            if r0.origin and r0.origin[0] == "call" and r0.origin[2] is it and r1.origin and r1.origin[0] == "call" and r1.origin[2] is t and all(s_[0] == "use" for s_ in r0.steps + r1.steps):
                                ok = True
                    sw = b.blocks[it["target"]]["term"]
                    if sw["k"] == "switch":
                        e = enum_edge(b, it["target"], 0)
                        if e and b.edge_dominates(e[0], e[1], e[2], bb):
                            ok = True
                    if ok:
                        det = "created only when the visitor captured no serializer error (source is then the deserializer)"
            elif _is_ser(lib, src_enum, b, ct["args"][1]):
                det = "capture before a synthetic *serializer* error claims the serializer as source"
        ctx.ob(f"ser-custom:{b.name}", ok, site(b0, bb0), det)
    ctx.ob("sites-counted", len(de_sites) >= 1 and len(ser_sites) >= 1, "lib", f"{len(de_sites)} de::Error::custom and {len(ser_sites)} ser::Error::custom site(s) in {cap.file}")


def _is_plain_conversion(lib, b, t):
    """`.map_err(From::from)` / `.map_err(Into::into)` / `.map_err(|e| e.into())`: the spelled-out form of what
    `?` does (the error value is boxed by the crate's blanket From impl, not replaced)."""
    f = fn_of(t) or {}
    if f.get("name") != "map_err" or len(t["args"]) != 2:
        return False
    a = t["args"][1]
    conv = ("std::convert::From::from", "std::convert::Into::into")
    if a.get("k") == "fn":
        return a.get("def") in conv
    for cid in f.get("closures", []):
        cb = lib.by_id.get(cid)
        if cb is None:
            return False
        tr = trace(cb, {"k": "copy", "p": {"l": 0, "pr": []}})
        if not (tr.origin and tr.origin[0] == "call" and (fn_of(tr.origin[2]) or {}).get("def") in conv and all(s_[0] == "use" for s_ in tr.steps)):
            return False
        at = trace(cb, tr.origin[2]["args"][0])
        return at.origin == ("arg", 2) and all(s_[0] == "use" for s_ in at.steps)
    return False


@rule("R11.3", 6, "top level keeps both sides: Ser arm builds (serializer error, deserializer error); Display prints both; outputs box the error unchanged", ["C11"])
def r11_3(ctx):
    lib = ctx.lib
    cap, st, src_enum = _capture_fn(lib)
    entry, err_adt, arms = _entry_arms(lib)
    roles = _roles(lib)
    de_call = [t for _, t in entry.calls() if (fn_of(t) or {}).get("name") == "deserialize_any"][0]

    def from_de_err(body, op, need_err):
        """`op` is the error of the entry's deserialize_any call: the Err payload of its result, or the
        parameter of a closure handed to map_err / or_else on that result."""
        tr = trace(body, op)
        if tr.origin and tr.origin[0] == "call" and tr.origin[2] is de_call:
            return (not need_err) or any(x[0] == "downcast" and x[1] == "Err" for x in tr.steps)
        if body is not entry and tr.origin and tr.origin[0] == "arg" and tr.origin[1] == 2 and all(x[0] == "use" for x in tr.steps):
            for _, pt in entry.calls():
                pf = fn_of(pt) or {}
                if body.id in pf.get("closures", []) and pf.get("def") in ("std::result::Result::<T, E>::map_err", "std::result::Result::<T, E>::or_else") and pt["args"]:
                    rt = trace(entry, pt["args"][0])
                    if rt.origin and rt.origin[0] == "call" and rt.origin[2] is de_call and all(x[0] == "use" for x in rt.steps):
                        return True
        return False

    for body, bi, s, arm in arms:
        v = s["rv"]["variant"]
        ops = s["rv"]["ops"]
        if len(ops) == 2:
            s_tr = trace(body, ops[0], passthrough_extra=("std::option::Option::<T>::unwrap", "std::option::Option::<T>::expect"))
            from_state = bool(s_tr.origin and s_tr.origin[0] == "call" and (fn_of(s_tr.origin[2]) or {}).get("impl_self_adt") == st)
            from_de = from_de_err(body, ops[1], True)
            ok = arm == roles["ser"] and from_state and from_de
            ctx.ob(f"entry:{v}", ok, site(body, bi), f"on the {arm} arm: (captured serializer error, deserializer error)" if ok else f"two-field error built on arm {arm} from state={from_state}, de={from_de}")
        else:
            from_de = from_de_err(body, ops[0], False)
            ok = arm == roles["de"] and from_de
            ctx.ob(f"entry:{v}", ok, site(body, bi), f"on the {arm} arm: the deserializer's own error" if ok else f"single-field error built on arm {arm}")
    # Display
    disp = [b for b in lib.bodies if b.raw.get("impl_trait") == "std::fmt::Display" and b.raw.get("impl_self_adt") == err_adt]
    ctx.need(len(disp) == 1, "Display impl of the transcoding error not found")
    d = disp[0]
    sw = d.blocks[0]["term"]
    ctx.need(sw["k"] == "switch", "Display impl does not match on the variant")
    a = lib.adts[err_adt]
    two = [v for v in a["variants"] if len(v["fields"]) == 2][0]
    one = [v for v in a["variants"] if len(v["fields"]) == 1][0]
    tg2 = [x for vv, x in sw["targets"] if vv == two["idx"]][0]
    tg1 = [x for vv, x in sw["targets"] if vv == one["idx"]][0]
    ok2 = False
    det = "no formatted write on the two-field arm"
    for bb, t in d.calls():
        f = fn_of(t) or {}
        if f.get("name") == "write_fmt" and d.edge_dominates(0, two["idx"], tg2, bb):
            tp = common.template_of(d, t["args"][1])
            tr = trace(d, t["args"][1])
            fields = set()
            if tr.origin and tr.origin[0] == "call" and len(tr.origin[2]["args"]) > 1:
                at = trace(d, tr.origin[2]["args"][1])
                if at.origin and at.origin[0] == "agg":
                    for o in at.origin[1]["rv"]["ops"]:
                        ot = trace(d, o)
                        if ot.origin and ot.origin[0] == "call" and ot.origin[2]["args"]:
                            ft = trace(d, ot.origin[2]["args"][0])
                            for stp in ft.steps:
                                if stp[0] == "field" and stp[2] == err_adt:
                                    fields.add(stp[1])
            ok2 = bool(tp and tp[1].count("{}") == 2) and fields == {"0", "1"}
            det = f"template {tp[1] if tp else None!r} with fields {sorted(fields)}"
    if not ok2:
        # the other way to keep the cause in the message: the two-field arm prints the deserializer error alone, and
        # every synthetic deserializer error that stands in for a serializer failure quotes that failure
        # (`de::Error::custom(&ser_err)` next to `capture_error(Ser, ser_err)`)
        delegates = False
        for bb, t in d.calls():
            f = fn_of(t) or {}
            if f.get("name") == "fmt" and f.get("trait") in ("std::fmt::Display",) and d.edge_dominates(0, two["idx"], tg2, bb) and t["args"]:
                ft = trace(d, t["args"][0])
                fs_ = [stp[1] for stp in ft.steps if stp[0] == "field" and stp[2] == err_adt]
                delegates = fs_ == ["1"]
        if delegates:
            capf, st_, src_enum_ = _capture_fn(lib)
            bad_sites = []
            n_sites = 0
            for b0, bb0, t in _custom_sites(lib, "serde::de::Error", capf.file):
                caps_ = [(cb, ct) for cb, ct in b0.calls() if ((fn_of(ct) or {}).get("resolved") or (fn_of(ct) or {}).get("def")) == capf.id and (b0.dominates(cb, bb0) or b0.dominates(bb0, cb)) and cb != bb0 and _is_ser(lib, src_enum_, b0, ct["args"][1])]
                if not caps_:
                    continue  # not a stand-in for a serializer failure (R11.2 judges it)
                n_sites += 1
                at = trace(b0, t["args"][0])
                quoted = None
                if at.origin and at.origin[0] in ("arg", "multi", "call", "rvalue", "agg", "partial"):
                    quoted = (at.origin[0], at.origin[1] if not isinstance(at.origin[1], dict) else id(at.origin[1]))
                same = False
                for cb, ct in caps_:
                    et = trace(b0, ct["args"][2])
                    eo = (et.origin[0], et.origin[1] if not isinstance(et.origin[1], dict) else id(et.origin[1])) if et.origin else None
                    if quoted is not None and eo == quoted:
                        same = True
                if not same:
                    bad_sites.append(site(b0, bb0))
            ok2 = n_sites >= 1 and not bad_sites
            det = (f"the two-field arm prints the deserializer error alone, and each of the {n_sites} synthetic deserializer error(s) standing in for a serializer failure is built from that failure's own text" if ok2 else
                   f"the two-field arm prints the deserializer error alone, but a synthetic error standing in for a serializer failure does not quote it ({bad_sites[0] if bad_sites else 'no such site'}): the serializer's reason is lost from the message")
    ctx.ob("display:two-field-arm-prints-both", ok2, site(d), det)
    ok1 = any((fn_of(t) or {}).get("trait") == "std::fmt::Display" and d.edge_dominates(0, one["idx"], tg1, bb) for bb, t in d.calls())
    ctx.ob("display:single-field-arm-delegates", ok1, site(d), "delegates to the deserializer error's Display")
    # outputs convert with ?/From, no map_err to a fresh message
    outs = common.output_impls(ctx.facts)
    for fmt, o in sorted(outs.items()):
        for m in ("transcode_from", "transcode_value"):
            b = o[m]
            bad = [fn_of(t)["name"] for _, t in b.calls() if (fn_of(t) or {}).get("name") in ("map_err", "or_else", "ok", "unwrap_or", "unwrap_or_else", "unwrap_or_default") and not _is_plain_conversion(lib, b, t)]
            ctx.ob(f"output:{fmt}:{m}:boxes-error-unchanged", not bad, site(b), "errors propagate through `?` (boxed by From)" if not bad else f"error is rewritten with {bad}")


def _merging_helper(lib, b, tr, t, merge, seed_local):
    """`Err(self.element_failed(seed.0, de_err))`: the returned error goes through a same-crate helper that merges
    the child state it is given and hands the error back unchanged. Returns None when the Err payload does not
    come from such a helper call fed by accessor call `t`; else whether the helper merges this element's state."""
    if not (tr.origin and tr.origin[0] == "call" and tr.origin[2] is not t):
        return None
    ht = tr.origin[2]
    hf = fn_of(ht) or {}
    h = lib.by_id.get(hf.get("resolved") or hf.get("def"))
    if h is None or not hf.get("local"):
        return None
    # which argument carries the accessor's error
    err_pos = [i for i, a in enumerate(ht["args"]) if (lambda x: x.origin and x.origin[0] == "call" and x.origin[2] is t and any(st_[0] == "downcast" and st_[1] == "Err" for st_ in x.steps))(trace(b, a))]
    if len(err_pos) != 1:
        return None
    r0 = trace(h, {"k": "copy", "p": {"l": 0, "pr": []}})
    passes = r0.origin == ("arg", err_pos[0] + 1) and all(st_[0] == "use" for st_ in r0.steps)
    if not passes:
        return False
    rets = h.return_blocks()
    for mb, mt in h.calls():
        if ((fn_of(mt) or {}).get("resolved") or (fn_of(mt) or {}).get("def")) != merge.id or len(mt["args"]) < 2:
            continue
        ctr = trace(h, mt["args"][1])
        if not (ctr.origin and ctr.origin[0] == "arg" and all(st_[0] == "use" for st_ in ctr.steps)):
            continue
        if not all(h.dominates(mb, r) for r in rets):
            continue
        child = trace(b, ht["args"][ctr.origin[1] - 1])
        if child.origin and ((child.origin[0] == "multi" and child.origin[1] == seed_local) or (child.origin[0] == "call" and child.origin[2]["dest"]["l"] == seed_local)):
            return True
    return False


@rule("R11.4", 3, "a failing element merges its child state into the visitor before the deserializer error is returned", ["C11"])
def r11_4(ctx):
    """Path rule on the visitor method's supergraph: with the accessor's result assumed Err, no path reaches the
    method's return without passing a call of the child-merge function whose child argument is the state of the
    seed that was handed to this accessor (directly, or inside a helper the seed's state is passed to)."""
    from model import PathSens, strace_deep

    lib = ctx.lib
    cap, st, src_enum = _capture_fn(lib)
    merge = [b for b in lib.bodies if b.raw.get("impl_self_adt") == st and b.nargs == 2 and b.local_ty(2).startswith(st)]
    ctx.need(len(merge) == 1, "child-merge function (state, child state) not found")
    merge = merge[0]
    n = 0
    roots = []
    for b in lib.bodies:
        if any((fn_of(t) or {}).get("name") in ("next_element_seed", "next_key_seed", "next_value_seed") for _, t in b.calls()):
            rb = b
            while rb.raw["def_kind"] == "Closure" and rb.raw.get("parent") in lib.by_id:
                rb = lib.by_id[rb.raw["parent"]]
            if rb not in roots:
                roots.append(rb)
    for b in roots:
        sup = Super(lib, b, depth=3)
        ps = PathSens(sup, payloads=True)
        entry_states = ps.explore([(sup.entry, {})])
        calls = sup.calls()
        rets = {(sup.entry[0], r) for r in b.return_blocks()}
        for nn, nb, t in calls:
            f = fn_of(t) or {}
            if f.get("name") not in ("next_element_seed", "next_key_seed", "next_value_seed") or t["dest"]["pr"]:
                continue
            n += 1
            # the seed handed to the accessor, where it is made
            from model import strace
            seed = strace(sup, nn, t["args"][-1])
            seed_call = seed.origin[2] if seed.origin and seed.origin[0] == "call" else None
            good = set()
            for mn, mb, mt in calls:
                mf = fn_of(mt) or {}
                if (mf.get("resolved") or mf.get("def")) != merge.id or len(mt["args"]) < 2:
                    continue
                ch = strace_deep(sup, mn, mt["args"][1], stop_at=(seed_call,) if seed_call is not None else ())
                if seed_call is not None and ch.origin and ch.origin[0] == "call" and ch.origin[2] is seed_call and (ch.origin_node[0], ch.origin[1]) == (seed.origin_node[0], seed.origin[1]):
                    good.add(mn)
            ps.assume[nn] = (("var", 1), None)
            starts = []
            for st_ in entry_states.get(nn, []):
                for lab, m, f2 in ps.step(nn, st_):
                    if lab not in ("call", "maycall"):
                        starts.append((m, f2))
            reached = ps.explore(starts, removed_nodes=good) if starts else {}
            del ps.assume[nn]
            escapes = sorted(r for r in rets if r in reached)
            ok = bool(starts) and bool(good) and not escapes and not ps.overflow
            ctx.ob(f"merge:{b.name}:{f['name']}", ok, sup.site(nn),
                   f"with this accessor failing, every path to the return passes a merge of this element's state ({len(good)} merge call(s))" if ok else
                   ("an element failure returns without merging the element's captured error/source" + ("" if good else ": no merge call is fed with the state of the seed given to this accessor")))
    ctx.ob("accessor-calls", n >= 3, "lib", f"{n} next_*_seed call(s)")


@rule("R11.5", 3, "once an element, key or value has failed, the visitor only merges that element's state and returns: no further serializer call and no new capture can overwrite the recorded cause", ["C11"])
def r11_5(ctx):
    from model import PathSens
    import r_c01

    lib = ctx.lib
    cap, st, src_enum = _capture_fn(lib)
    stream, _ = r_c01.visitor_impls(lib)
    vis = {it["name"]: lib.by_id[it["def"]] for it in stream["items"] if it["def"] in lib.by_id}
    n = 0
    for mname in ("visit_seq", "visit_map"):
        b = vis.get(mname)
        ctx.need(b is not None, f"{mname} of the streaming visitor not found")
        sup = Super(lib, b, depth=3)
        ps = PathSens(sup)
        entry_states = ps.explore([(sup.entry, {})])
        calls = sup.calls()
        for nn, nb, t in calls:
            f = fn_of(t) or {}
            if f.get("name") not in ("next_element_seed", "next_key_seed", "next_value_seed") or t["dest"]["pr"]:
                continue
            n += 1
            ps.assume[nn] = (("var", 1), None)
            starts = []
            for st_ in entry_states.get(nn, []):
                for lab, m, f2 in ps.step(nn, st_):
                    if lab not in ("call", "maycall"):
                        starts.append((m, f2))
            reached = ps.explore(starts) if starts else {}
            del ps.assume[nn]
            bad = []
            for rn, rb, rt in calls:
                if rn not in reached or rn == nn:
                    continue
                rf = fn_of(rt) or {}
                touches_ser = rf.get("trait") in ("serde::ser::SerializeSeq", "serde::ser::SerializeMap", "serde::Serializer", "serde::ser::Serializer", "serde::ser::SerializeStruct", "serde::ser::SerializeTuple")
                is_capture = (rf.get("resolved") or rf.get("def")) == cap.id
                is_next = rf.get("name") in ("next_element_seed", "next_key_seed", "next_value_seed", "next_element", "next_key", "next_value")
                if touches_ser or is_capture or is_next:
                    bad.append((rn, rf.get("def")))
            ok = bool(starts) and not bad and not ps.overflow
            ctx.ob(f"failure-is-final:{mname}:{f['name']}", ok, sup.site(bad[0][0]) if bad else sup.site(nn),
                   "after this accessor fails, control only merges the element's state and returns" if ok else
                   (f"after this accessor fails, `{bad[0][1]}` can still run: a later failure would overwrite the recorded cause of the translation error" if bad else "the failure edge of this accessor was not found"))
    ctx.ob("accessor-calls", n >= 3, "lib", f"{n} next_*_seed call(s)")


@rule("R11.6", 1, "a recorded error source that is not a constant is taken over from another state (the visitor that has just run, the child being merged), never read back from the very state it is written to: re-recording one's own source keeps the default 'deserializer' and drops the serializer's cause", ["C11"])
def r11_6(ctx):
    lib = ctx.lib
    capf, st, src_enum = _capture_fn(lib)
    n = 0
    seen = {}
    for b in lib.bodies:
        for bb, t in b.calls():
            f = fn_of(t) or {}
            if (f.get("resolved") or f.get("def")) != capf.id or len(t["args"]) < 3:
                continue
            tr = trace(b, t["args"][1])
            if not (tr.origin and tr.origin[0] == "call"):
                continue  # a constant source (R11.1 / R11.2), or a parameter handed on
            g = fn_of(tr.origin[2]) or {}
            gb = lib.by_id.get(g.get("resolved") or g.get("def"))
            if gb is None or gb.raw.get("impl_self_adt") != st or not tr.origin[2]["args"]:
                continue
            n += 1

            def state_of(op):
                t_ = trace(b, op)
                o = t_.origin
                root = (o[0], o[1]) if o and o[0] == "arg" else (o[0], o[1], id(o[2])) if o and o[0] == "call" else (o[0], id(o[1])) if o and len(o) > 1 else None
                if o and o[0] in ("partial", "multi"):
                    root = (o[0], o[1])
                return root, tuple(x[1] for x in t_.steps if x[0] == "field")

            src_state = state_of(tr.origin[2]["args"][0])
            dst_state = state_of(t["args"][0])
            k = seen.get(b.id, 0)
            seen[b.id] = k + 1
            ok = src_state != dst_state
            ctx.ob(f"source-from-another-state:{b.name}:{k}", ok, site(b, bb),
                   "the source is read from a different state than the one that records it" if ok else
                   "the source handed to the capture is read from the capturing state itself: a no-op that leaves the default source in place, so a failure of the serializer further down is reported as the input parser's")
    ctx.ob("non-constant-captures", n >= 1, site(capf), f"{n} capture(s) with a source read from a state")
