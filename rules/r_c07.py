"""C07 — YAML in UTF-16/UTF-32 (plus the shared clause R02.1 of C02 and R17.6 of C17)."""
import re
import itertools
import json
import os

from engine import rule, AnchorLost, VERIF
from model import Super, PathSens, fn_of, trace, strace, is_place, site, strace_deep, const_value
import common
import flagstate
import ival
import tables
import vocab

SCALAR_VALUES = [(0, 0xD7FF), (0xE000, 0x10FFFF)]


def _mem_variants(facts):
    """Names of the in-memory variants of the owned / borrowed input enums."""
    import vocab

    v = vocab.lib_vocab(facts)
    return {v["input"]["mem"], v["ref"]["mem"], v["source"]["mem"]}


def detect_fn(lib):
    """The encoding detector: the only lib fn whose HIR tables contain slice patterns with the BOM
    bytes 0xFE and 0xFF."""
    owners = set()
    for t in lib.tables:
        for arm in t["arms"]:
            s = json.dumps(arm["pat"])
            if '"slice"' in s and '"int": 254' in s and '"int": 255' in s:
                owners.add(t["owner"])
    if len(owners) != 1:
        raise AnchorLost(f"expected one function with BOM slice patterns (the encoding detector), found {sorted(owners)}")
    b = lib.by_id.get(next(iter(owners)))
    if not b:
        raise AnchorLost("encoding detector body not found")
    return b


def encoding_adt(lib, d):
    adt = lib.adts.get(d.raw["ret_ty"])
    if not adt or adt["kind"] != "enum":
        raise AnchorLost(f"encoding detector returns {d.raw['ret_ty']}, not a local enum")
    return adt


def canon_encodings(lib, d):
    """Map each variant of the encoding enum to a canonical name (utf8 / utf16be / ...), derived from
    the code: encoder constructor arm -> decoder type + endianness variant -> from_{be,le}_bytes of
    which integer width."""
    adt = encoding_adt(lib, d)
    enc_path = adt["path"]
    # endianness decode table: (endianness variant, width) -> be/le
    endian = {}
    width_of_method = {}
    for b in lib.bodies:
        if b.nargs == 2 and b.blocks[0]["term"]["k"] == "switch":
            sw = b.blocks[0]["term"]
            for v, tgt in sw["targets"]:
                tt = b.blocks[tgt]["term"]
                f = fn_of(tt) if tt["k"] == "call" else None
                if f and f["name"] in ("from_be_bytes", "from_le_bytes") and f["def"].startswith("core::num::<impl u"):
                    w = int(f["def"].split("<impl u")[1].split(">")[0])
                    self_adt = b.raw.get("impl_self_adt")
                    eadt = lib.adts.get(self_adt)
                    if eadt:
                        vname = [x["name"] for x in eadt["variants"] if x["idx"] == v][0]
                        endian[(b.id, vname)] = "be" if "be" in f["name"] else "le"
                        width_of_method[b.id] = w
    if not endian:
        raise AnchorLost("endianness decode table (from_be_bytes / from_le_bytes arms) not found")
    # decoder types -> which decode method they call (transitively, depth 2)
    def decode_methods(body):
        out = set()
        for _, _, t in Super(lib, body, depth=2).calls():
            f = fn_of(t) or {}
            r = f.get("resolved") or f.get("def")
            if r in width_of_method:
                out.add(r)
        return out

    # encoder constructor: fn(reader, Encoding) with a switch on the encoding
    # (the encoding may be any of its parameters, and the switch need not be the first thing it does:
    # `with_options(reader, from, lossy)` that sets up two closures first)
    ctor = None
    sw_bb = 0
    for b in lib.bodies:
        if b.raw["def_kind"] == "Closure" or b.id == d.id:
            continue
        params = [k for k in range(1, b.nargs + 1) if b.local_ty(k) == enc_path]
        if not params:
            continue
        for bi in sorted(b.reach()):
            tm = b.blocks[bi]["term"]
            if tm["k"] != "switch":
                continue
            on_param = any(s_["k"] == "assign" and s_["rv"]["k"] == "discr" and not s_["rv"]["p"]["pr"] and s_["rv"]["p"]["l"] in params and is_place(tm["discr"]) and tm["discr"]["p"]["l"] == s_["p"]["l"] for s_ in b.blocks[bi]["stmts"])
            if on_param and any((fn_of(t_) or {}).get("local") and (fn_of(t_) or {}).get("name") == "new" for _, _, t_ in Super(lib, b, depth=2).calls()):
                ctor, sw_bb = b, bi
                break
    if not ctor:
        raise AnchorLost("encoder constructor (switch on the detected encoding) not found")
    sw = ctor.blocks[sw_bb]["term"]
    canon = {}
    detail = {}
    for var in adt["variants"]:
        tgts = [t for v, t in sw["targets"] if v == var["idx"]]
        if not tgts:
            raise AnchorLost(f"encoder constructor has no arm for {var['name']}")
        # calls dominated by this arm
        dec = None
        en = None
        for bb, t in ctor.calls():
            if not ctor.edge_dominates(sw_bb, var["idx"], tgts[0], bb):
                continue
            f = fn_of(t) or {}
            if f.get("local") and f["name"] == "new" and len(t["args"]) >= 2:
                # decoder constructor with an endianness aggregate
                tr = trace(ctor, t["args"][1])
                if tr.origin and tr.origin[0] == "agg":
                    en = tr.origin[1]["rv"]["variant"]
                    dec = f.get("impl_self_adt")
        if dec is None:
            # the arm builds the decoder in a helper it calls (`Self::from_utf16(reader, Big)`): the same search on
            # the arm's part of the constructor's supergraph, the endianness followed through the helper's parameter
            csup = Super(lib, ctor, depth=2)
            found = set()
            for nn in csup.reachable_from((csup.entry[0], tgts[0])):
                if nn[0] == csup.entry[0]:
                    continue
                t = csup.body_of(nn).blocks[nn[1]]["term"]
                f = fn_of(t) if t["k"] == "call" else None
                if f and f.get("local") and f["name"] == "new" and len(t["args"]) >= 2 and f.get("impl_self_adt"):
                    tr = strace_deep(csup, nn, t["args"][1])
                    if tr.origin and tr.origin[0] == "agg" and tr.origin[1]["rv"].get("variant") and any(k_[1] == tr.origin[1]["rv"]["variant"] for k_ in endian):
                        found.add((f["impl_self_adt"], tr.origin[1]["rv"]["variant"]))
            if len(found) > 1:
                raise AnchorLost(f"encoder constructor arm {var['name']} builds several decoders: {sorted(found)}")
            if found:
                dec, en = next(iter(found))
        if dec is None:
            canon[var["name"]] = "utf8"
            detail[var["name"]] = "passthrough"
            continue
        # which decode method does this decoder's iterator use?
        meths = set()
        for b in lib.bodies:
            if b.raw.get("impl_self_adt") == dec:
                meths |= decode_methods(b)
        if len(meths) != 1:
            raise AnchorLost(f"decoder {dec} uses decode methods {sorted(meths)}")
        mth = next(iter(meths))
        e = endian.get((mth, en))
        if e is None:
            raise AnchorLost(f"no endianness arm for {en} in {mth}")
        canon[var["name"]] = f"utf{width_of_method[mth]}{e}"
        detail[var["name"]] = f"{dec} + {en} -> {mth.rsplit('::', 1)[-1]} -> {e}"
    return canon, detail, ctor, endian, width_of_method


def _verdict_sources(ctx, sup, node, op, det, cfg, _depth=0):
    """Where can the encoding value `op` (read at `node`) come from: {"detector"} (the detector applied to the in-memory
    input), {"override"} (the payload of an Option the root function was given; its parameter index goes to `cfg`),
    {"other:<what>"}. Follows helpers and closures the supergraph inlines, Option::unwrap_or / unwrap_or_else, and
    variables with several definitions (match arms)."""
    if _depth > 8:
        return {"other:depth"}
    tr = strace(sup, node, op)
    o = tr.origin
    frame = tr.origin_node[0]

    def of_call(bb, t):
        f = fn_of(t) or {}
        dd = f.get("resolved") or f.get("def")
        cn = (frame, bb)
        if dd == det.id:
            tr2 = strace(sup, cn, t["args"][0], extra=("std::option::Option::<T>::unwrap_or", "core::slice::<impl [T]>::get"))
            same = any(s[0] == "downcast" and s[1] in _mem_variants(ctx.facts) for s in tr2.steps)
            return {"detector"} if same else {"other:detector applied to a different buffer"}
        if f.get("def") in ("std::option::Option::<T>::unwrap_or_else", "std::option::Option::<T>::unwrap_or") and len(t["args"]) == 2:
            ot = strace(sup, cn, t["args"][0])
            out = set()
            if ot.origin and ot.origin[0] == "arg" and not ot.origin_node[0]:
                out.add("override")
                cfg.add(ot.origin[1])
            else:
                out.add("other:option that is not a parameter")
            if f["def"].endswith("unwrap_or"):
                return out | _verdict_sources(ctx, sup, cn, t["args"][1], det, cfg, _depth + 1)
            inl = [m for lab, m in sup.edges(cn) if lab in ("call", "maycall")]
            if not inl:
                return out | {"other:closure not resolved"}
            for m in inl:
                cb = sup.body_of(m)
                for rb in cb.return_blocks():
                    out |= _verdict_sources(ctx, sup, (m[0], rb), {"k": "copy", "p": {"l": 0, "pr": []}}, det, cfg, _depth + 1)
            return out
        inl = [m for lab, m in sup.edges(cn) if lab == "call"]
        if inl:
            out = set()
            for m in inl:
                cb = sup.body_of(m)
                for rb in cb.return_blocks():
                    out |= _verdict_sources(ctx, sup, (m[0], rb), {"k": "copy", "p": {"l": 0, "pr": []}}, det, cfg, _depth + 1)
            return out
        return {"other:" + str(f.get("def"))}

    if not o:
        return {"other:unknown"}
    if o[0] == "call":
        return of_call(o[1], o[2])
    if o[0] == "arg":
        if not frame and any(s[0] == "downcast" and s[1] == "Some" for s in tr.steps):
            cfg.add(o[1])
            return {"override"}
        return {"other:parameter"}
    if o[0] == "multi":
        out = set()
        for bb, idx, kind, payload in o[2]:
            if kind == "call":
                out |= of_call(bb, payload)
            elif kind == "assign" and payload["rv"]["k"] == "use":
                out |= _verdict_sources(ctx, sup, (frame, bb), payload["rv"]["op"], det, cfg, _depth + 1)
            else:
                out.add("other:assigned directly")
        return out
    return {"other:" + str(o[0])}


def _override_not_none(lib, ep, params):
    """The explicit-encoding Option (parameter(s) `params` of the entry point) must be None unless somebody set it: at
    every call of the entry point the operand is a literal None, or a field that every constructor of its struct
    initialises with a literal None. Returns None when that holds, else the complaint."""
    n_calls = 0
    for b in lib.bodies:
        for bb, t in b.calls():
            f = fn_of(t) or {}
            if (f.get("resolved") or f.get("def")) != ep.id:
                continue
            n_calls += 1
            for k in params:
                if k - 1 >= len(t["args"]):
                    return "the entry point is called without its explicit-encoding argument"
                tr = trace(b, t["args"][k - 1])
                o = tr.origin
                if o and o[0] == "agg" and o[1]["rv"].get("variant") == "None":
                    continue
                fs = [s_ for s_ in tr.steps if s_[0] == "field"]
                if o and o[0] == "arg" and len(fs) == 1 and fs[0][2]:
                    fname, fadt = fs[0][1], fs[0][2]
                    n_ctor = 0
                    for b2 in lib.bodies:
                        for bi, blk in enumerate(b2.blocks):
                            for s_ in blk["stmts"]:
                                if s_["k"] == "assign" and s_["rv"]["k"] == "aggregate" and s_["rv"].get("agg") == "adt" and s_["rv"].get("adt") == fadt and fname in s_["rv"].get("fields", []):
                                    n_ctor += 1
                                    vt = trace(b2, s_["rv"]["ops"][s_["rv"]["fields"].index(fname)])
                                    if not (vt.origin and vt.origin[0] == "agg" and vt.origin[1]["rv"].get("variant") == "None"):
                                        return f"the explicit encoding `{fadt}.{fname}` is not None from the start ({b2.name} initialises it otherwise): detection is bypassed without anybody asking"
                    if n_ctor == 0:
                        return f"no constructor of {fadt} found for the explicit-encoding field"
                    continue
                return f"the explicit encoding passed by {b.name} is neither None nor a field that starts as None"
    if n_calls == 0:
        return "no call of the YAML entry point found"
    return None


@rule("R02.1", 1, "YAML: the whole-text fast path is reached only on the UTF-8 edge of the encoding detector applied to the same buffer", ["C02", "C07"])
def r02_1(ctx):
    lib = ctx.lib
    ep = common.input_entry_points(ctx.facts)["yaml"]
    d = detect_fn(lib)
    adt = encoding_adt(lib, d)
    canon, _, _, _, _ = canon_encodings(lib, d)
    utf8 = [v["idx"] for v in adt["variants"] if canon.get(v["name"]) == "utf8"]
    ctx.need(len(utf8) == 1, "no unique UTF-8 variant in the encoding enum")
    sup = Super(lib, ep, depth=2)
    ps = PathSens(sup)
    n_sites = 0
    for n, b, t in sup.calls():
        f = fn_of(t) or {}
        if f.get("crate") != "serde_yaml" or f.get("name") not in ("from_str", "from_slice", "from_reader"):
            continue
        # provenance of the text: whole input (Input::Slice payload) vs a chunker document
        tr = strace(sup, n, t["args"][0], extra=("std::str::from_utf8", "core::str::from_utf8"))
        # exempt only text that provably comes from a chunker document (already re-encoded);
        # anything else is treated as derived from the whole input
        # accessors of the chunker's item type (whatever it is called) are looked through
        ch_next = common.chunker(ctx.facts)["next"]
        m_doc = re.search(r"Result<([A-Za-z0-9_:]+)[<,]", ch_next.local_ty(0))
        doc_short = (m_doc.group(1).rsplit("::", 1)[-1] + "::") if m_doc else "Document::"
        ctr = strace(sup, n, t["args"][0], extra=(doc_short,))
        chunk_fed = bool(ctr.origin and ctr.origin[0] == "call" and common.is_chunker_next(ctx.facts, fn_of(ctr.origin[2])))
        if not chunk_fed and ctr.origin and ctr.origin[0] == "multi":
            # `let mut next = docs.next(); while let Some(doc) = next { next = docs.next(); .. }`: every definition of
            # the variable is the chunker's next()
            defs_ = ctr.origin[2]
            ob_ = sup.body_of(ctr.origin_node)

            def from_next(kind_, payload_):
                if kind_ == "call":
                    return common.is_chunker_next(ctx.facts, fn_of(payload_))
                if kind_ == "assign" and payload_["rv"]["k"] == "use" and is_place(payload_["rv"]["op"]):
                    t_ = trace(ob_, payload_["rv"]["op"])
                    return bool(t_.origin and t_.origin[0] == "call" and common.is_chunker_next(ctx.facts, fn_of(t_.origin[2])) and all(x_[0] == "use" for x_ in t_.steps))
                return False

            chunk_fed = bool(defs_) and all(from_next(kind_, payload_) for _, _, kind_, payload_ in defs_)
        if not chunk_fed and ctr.origin and ctr.origin[0] == "arg" and ctr.origin_node[0]:
            # the parse sits in a closure that an iterator adaptor runs once per item of the chunker
            # (`Chunker::new(..).try_for_each(|doc| ..)`): the closure's parameter is a chunker document
            caller_id, cbb, callee_id = ctr.origin_node[0][-1]
            ppath = ctr.origin_node[0][:-1]
            caller = sup.body_of((ppath, 0)) if ppath else sup.root
            ct_ = caller.blocks[cbb]["term"]
            cf_ = fn_of(ct_) or {}
            ch_adt = (common.chunker(ctx.facts)["adt"] or "").rsplit("::", 1)[-1]
            callee_b = lib.by_id.get(callee_id)
            if ct_["k"] == "call" and cf_.get("trait") == "std::iter::Iterator" and cf_.get("name") in ("try_for_each", "for_each", "try_fold", "fold", "map", "filter_map", "find_map", "all", "any") and ch_adt and ch_adt in (cf_.get("self_ty") or "") and callee_b is not None and callee_b.raw["def_kind"] == "Closure":
                chunk_fed = True
        whole = not chunk_fed
        if not whole:
            ctx.ob(f"site:{sup.body_of(n).name}:chunk-fed", True, sup.site(n), "parser fed by a chunker document (already re-encoded): exempt", trivial=True)
            continue
        n_sites += 1
        # detector calls on the same buffer
        ok = False
        any_same = False
        why = "the encoding detector is never consulted for the slice"
        for n2, b2, t2 in sup.calls():
            f2 = fn_of(t2) or {}
            if (f2.get("resolved") or f2.get("def")) != d.id:
                continue
            tr2 = strace(sup, n2, t2["args"][0], extra=("std::option::Option::<T>::unwrap_or", "core::slice::<impl [T]>::get"))
            same = any(s[0] == "downcast" and s[1] in _mem_variants(ctx.facts) for s in tr2.steps)
            if same and len(b2.whole_defs(t2["dest"]["l"])) != 1 and not t2["dest"]["pr"]:
                # `let enc = match .. { Some(p) => detect(p), None => Encoding::Utf8 }`: what is switched on is not
                # always the detector's verdict
                why = "the value the fast path is selected by is not always the detector's verdict (another definition assigns the encoding without consulting it)"
                continue
            if not same:
                if not any_same:
                    why = "the detector is applied to a different buffer"
                continue
            any_same = True
            why = "the fast path is not confined to the detector's UTF-8 edge"
            # switches on the detector's result
            res = t2["dest"]["l"]
            for n3 in sup.nodes():
                if n3[0] != n2[0]:
                    continue
                b3 = sup.body_of(n3)
                t3 = b3.blocks[n3[1]]["term"]
                if t3["k"] != "switch":
                    continue
                for s in b3.blocks[n3[1]]["stmts"]:
                    if s["k"] == "assign" and s["rv"]["k"] == "discr" and not s["rv"]["p"]["pr"] and s["rv"]["p"]["l"] == res:
                        tg = [x for v, x in t3["targets"] if v == utf8[0]]
                        if tg and ps.edge_dominates(n3, utf8[0], (n3[0], tg[0]), n):
                            ok = True
                        else:
                            why = "the fast path is not confined to the detector's UTF-8 edge"
        how = "whole-slice text reaches serde_yaml only when the detector says UTF-8"
        if not ok:
            # the verdict may reach the switch through helpers and closures, and an explicit configuration value may
            # take its place: `encoding.unwrap_or_else(|| Encoding::detect(b))` / `match cfg { Some(e) => e, None =>
            # detect(b) }`. Accepted when every source of the switched value is the detector applied to this buffer or
            # the payload of an Option the entry point was given, and that Option is None unless somebody set it
            for n3 in sup.nodes():
                b3 = sup.body_of(n3)
                t3 = b3.blocks[n3[1]]["term"]
                if t3["k"] != "switch":
                    continue
                for s in b3.blocks[n3[1]]["stmts"]:
                    if not (s["k"] == "assign" and s["rv"]["k"] == "discr" and vocab.ty_is(str(s["rv"]["p"].get("ty", "")), adt)):
                        continue
                    tg = [x for v, x in t3["targets"] if v == utf8[0]]
                    if not (tg and ps.edge_dominates(n3, utf8[0], (n3[0], tg[0]), n)):
                        continue
                    cfg = set()
                    srcs = _verdict_sources(ctx, Super(lib, ep, depth=4), n3, {"k": "copy", "p": s["rv"]["p"]}, d, cfg)
                    if "detector" in srcs and srcs <= {"detector", "override"}:
                        bad = _override_not_none(lib, ep, cfg)
                        if bad is None:
                            ok = True
                            how = "whole-slice text reaches serde_yaml only when the detector says UTF-8, or when the caller's explicit encoding (None unless set) does"
                        else:
                            why = bad
                    elif srcs:
                        why = f"the value the fast path is selected by is not always the detector's verdict (sources: {sorted(srcs)})"
        ctx.ob("whole-text-parse:gated-by-encoding-detection", ok, sup.site(n),
               how if ok else why + " (UTF-16/32 text made of ASCII is valid UTF-8 and would be parsed as-is)")
    if n_sites == 0:
        ctx.ob("whole-text-parse:none", True, site(ep), "no whole-input fast path: every parse goes through the re-encoder", trivial=False)


def _ref_table():
    return json.load(open(os.path.join(VERIF, "tables", "yaml_5_2.json")))


def _match_row(pat, bs, exact=False):
    if len(bs) < len(pat) or (exact and len(bs) != len(pat)):
        return False
    for p, b in zip(pat, bs):
        if p is not None and p != b:
            return False
    return True


def _eval_rows(rows, default, bs):
    for row in rows:
        if _match_row(row[0], bs, row[2] if len(row) > 2 else False):
            return row[1]
    return default


def _code_rows(lib, d, canon):
    """Ordered rows ([byte|None,...], canonical encoding, exact_length) from the detector's HIR match
    tables, plus the fall-through encoding and the arities of fixed-size (array) windows.

    Array scrutinee `[u8; N]` (obtained from `get(0..N)`): a row applies to every input of at least N bytes.
    Slice scrutinee `[u8]`: `[a, b, ..]` applies to every input of at least 2 bytes, `[a, b]` only to
    inputs of exactly 2 bytes; `_ => Variant` is a catch-all row."""
    tabs = [t for t in lib.tables_of(d.id) if t["form"] == "match"]
    tabs.sort(key=lambda t: (t["span"]["line"], t["span"]["col"]))
    rows = []
    arities = set()
    for t in tabs:
        is_array = bool(re.match(r"\[u8; \d+\]$", t.get("scrutinee_ty", "")))
        is_slice = t.get("scrutinee_ty", "") in ("[u8]", "&[u8]")
        if not (is_array or is_slice):
            raise AnchorLost(f"encoding detector matches on {t.get('scrutinee_ty')!r} (expected [u8; N] or [u8])")
        for arm in t["arms"]:
            res = tables.body_result(arm.get("body", {}))
            pats = arm["pat"]["alts"] if arm["pat"]["k"] == "or" else [arm["pat"]]
            for p in pats:
                if p["k"] == "wild":
                    if res[0] == "path" and tables.short(res[1]) in canon:
                        if arm.get("guard"):
                            raise AnchorLost("guarded arm in the encoding detector")
                        rows.append(([], canon[tables.short(res[1])], False))
                    continue
                if p["k"] != "slice" or p["after"]:
                    raise AnchorLost(f"unrecognised pattern form in the encoding detector: {p['k']}")
                if p.get("mid") and p["mid"].get("k") != "wild":
                    raise AnchorLost("binding rest pattern in the encoding detector")
                row = []
                for e in p["before"]:
                    if e["k"] == "wild":
                        row.append(None)
                    elif e["k"] == "lit" and "int" in e:
                        row.append(e["int"])
                    else:
                        raise AnchorLost("unrecognised element pattern in the encoding detector")
                if res[0] != "path":
                    raise AnchorLost("detector arm does not return an encoding variant")
                if arm.get("guard"):
                    raise AnchorLost("guarded arm in the encoding detector")
                if is_array:
                    arities.add(len(row))
                rows.append((row, canon[tables.short(res[1])], is_slice and not p.get("mid")))
    tail = [t for t in lib.raw["hir"]["tails"] if t["owner"] == d.id]
    default = None
    if tail and tail[0]["tail"].get("k") == "path":
        default = canon.get(tables.short(tail[0]["tail"]["res"]))
    return rows, default, sorted(arities, reverse=True)


@rule("R07.2", 17, "encoding detection table == YAML 1.2.2 section 5.2 (as first-match decision tables over all byte-class prefixes); constructor and endianness tables consistent", ["C07", "C09", "C02"])
def r07_2(ctx):
    lib = ctx.lib
    d = detect_fn(lib)
    canon, detail, ctor, endian, widths = canon_encodings(lib, d)
    for vn, c in sorted(canon.items()):
        ctx.ob(f"variant:{vn}", True, site(ctor), f"{vn} = {c} ({detail[vn]})")
    want = {"utf8", "utf16be", "utf16le", "utf32be", "utf32le"}
    ctx.ob("five-encodings", set(canon.values()) == want and len(canon) == 5, site(ctor), f"canonical encodings {sorted(canon.values())}")
    for (mth, vn), e in sorted(endian.items()):
        ctx.ob(f"endianness:{mth.rsplit('::', 1)[-1]}:{vn}", (vn.lower().startswith("big") and e == "be") or (vn.lower().startswith("little") and e == "le") or vn.lower() not in ("big", "little"), mth, f"{vn} -> from_{e}_bytes (u{widths[mth]})")
    rows, default, arities = _code_rows(lib, d, canon)
    ref = _ref_table()
    ref_rows = [([None if x is None else int(x, 16) for x in r["bytes"]], r["encoding"]) for r in ref["rows"]]
    empty = _eval_rows(rows, default, ())
    ctx.ob("default-is-utf8", empty == ref["default"], site(d), f"encoding of an empty / unmatched prefix: {empty}")
    # fixed-size prefix windows: get(0..N) ranges in MIR must start at 0 and match the pattern arity
    ranges = []
    for bi, blk in enumerate(d.blocks):
        for s in blk["stmts"]:
            if s["k"] == "assign" and s["rv"]["k"] == "aggregate" and s["rv"].get("adt") == "std::ops::Range":
                vals = [o.get("v") for o in s["rv"]["ops"]]
                ranges.append(tuple(vals))
    # `prefix.first_chunk::<N>()` is the window 0..N
    for _, t_ in d.calls():
        f_ = fn_of(t_) or {}
        if f_.get("name") in ("first_chunk", "split_first_chunk") and f_.get("def", "").startswith("core::slice") and len(f_.get("args", [])) == 2 and str(f_["args"][1]).isdigit():
            ranges.append((0, int(f_["args"][1])))
    okr = sorted(ranges, reverse=True) == [(0, a) for a in arities]
    ctx.ob("windows-start-at-zero", okr, site(d), f"prefix windows {ranges} for pattern arities {arities}")
    # exhaustive comparison over byte classes
    classes = [0x00, 0xFE, 0xFF, 0xEF, 0xBB, 0xBF, 0x41]
    n = 0
    bad = []
    # lengths 0-5: the detector is also handed whole inputs (slice path), so what a pattern does with bytes beyond the
    # fourth matters (`[_, 0, 0, 0]` without `..` matches a 4-byte input only)
    for ln in range(0, 6):
        for bs in itertools.product(classes, repeat=ln):
            n += 1
            a = _eval_rows(rows, default, bs)
            b = _eval_rows(ref_rows, ref["default"], bs)
            if a != b:
                bad.append((bs, a, b))
    ctx.ob("decision-table-equivalence", not bad, site(d),
           f"{n} prefixes over byte classes {[hex(c) for c in classes]} x lengths 0-5 agree with the spec table" if not bad else
           f"{len(bad)} of {n} prefixes differ, e.g. {' '.join('%02X' % x for x in bad[0][0])}: code says {bad[0][1]}, YAML 1.2.2 section 5.2 says {bad[0][2]}")
    # row-level report (helps triage)
    for r, enc in ref_rows:
        a = _eval_rows(rows, default, [x if x is not None else 0x41 for x in r])
        ctx.ob("row:" + " ".join("xx" if x is None else "%02X" % x for x in r), a == enc, site(d), f"spec: {enc}; code: {a}")


def _helper_makes_char_safely(lib, f, depth=0):
    """A same-crate function returning `char` whose every returned value comes from from_u32_unchecked (each such
    site is bounded by the first part of R07.3) or is the Some payload of the checked char::from_u32."""
    hb = lib.by_id.get(f.get("resolved") or f.get("def"))
    if hb is None or not f.get("local") or hb.local_ty(0) != "char" or depth > 2:
        return False
    defs = hb.whole_defs(0)
    if not defs:
        return False
    for dbb, idx, kind, payload in defs:
        if kind == "call":
            pf = fn_of(payload) or {}
            if pf.get("name") == "from_u32_unchecked" or _helper_makes_char_safely(lib, pf, depth + 1):
                continue
            return False
        if kind == "assign" and payload["rv"]["k"] == "use":
            tr = trace(hb, payload["rv"]["op"])
            pf = fn_of(tr.origin[2]) if tr.origin and tr.origin[0] == "call" else None
            if pf and (pf.get("name") == "from_u32_unchecked" or (pf.get("name") == "from_u32" and any(st[0] == "downcast" and st[1] == "Some" for st in tr.steps)) or _helper_makes_char_safely(lib, pf, depth + 1)):
                continue
            return False
        return False
    return True


@rule("R07.3", 3, "no fabricated characters: every from_u32_unchecked argument is proven a Unicode scalar value (interval analysis); other chars come from checked conversions", ["C07", "C17"])
def r07_3(ctx):
    lib = ctx.lib
    n = 0
    for b in lib.bodies:
        sites = [(bb, t) for bb, t in b.calls() if (fn_of(t) or {}).get("name") == "from_u32_unchecked"]
        if not sites:
            continue
        iv = ival.for_body(b)
        for i, (bb, t) in enumerate(sites):
            n += 1
            v = iv.at_call(bb, t["args"][0])
            ok = v is not None and ival.subset(v, SCALAR_VALUES)
            shown = "unknown (cannot bound)" if v is None else " ∪ ".join(f"[{lo:#x}, {hi:#x}]" for lo, hi in v)
            ctx.ob(f"unchecked-char:{b.name}:{i}", ok, site(b, bb), f"argument ∈ {shown}" + ("" if ok else " — not within [0,0xD7FF] ∪ [0xE000,0x10FFFF]"))
    ctx.ob("unchecked-sites-counted", n >= 1, "lib", f"{n} from_u32_unchecked site(s) analysed")
    # transmutes producing char, other unchecked producers
    for b in ctx.facts.all_bodies():
        for bi, blk in enumerate(b.blocks):
            for s in blk["stmts"]:
                if s["k"] == "assign" and s["rv"]["k"] == "cast" and s["rv"]["cast"] == "Transmute" and s["rv"]["ty"] == "char" and not s.get("exp"):
                    ctx.ob(f"transmute-to-char:{b.name}", False, site(b, line=s["line"]), "char produced by transmute")
    # every Ok(char) comes from a proven unchecked conversion or the checked char::from_u32
    seen_keys = {}
    dec_files = {b.file for b in lib.bodies if any((fn_of(t) or {}).get("name") in ("from_u32_unchecked", "from_u32") for _, t in b.calls())}
    for b in lib.bodies:
        if b.file not in dec_files or "char" not in b.local_ty(0):
            continue
        for bi, blk in enumerate(b.blocks):
            if bi not in b.reach():
                continue
            for s in blk["stmts"]:
                if s["k"] == "assign" and s["rv"]["k"] == "aggregate" and s["rv"].get("variant") in ("Ok", "Some") and s["rv"].get("adt") in ("std::result::Result", "std::option::Option"):
                    op = s["rv"]["ops"][0]
                    if not is_place(op) or b.local_ty(op["p"]["l"]) != "char":
                        continue
                    tr = trace(b, op)
                    src = fn_of(tr.origin[2]) if tr.origin and tr.origin[0] == "call" else None
                    ok = False
                    det = f"char originates from {tr.origin[0] if tr.origin else '?'}"
                    if src and src["name"] == "from_u32_unchecked":
                        ok = True
                        det = "char from from_u32_unchecked (bounded above)"
                    elif src and src["name"] == "from_u32" and any(st[0] == "downcast" and st[1] == "Some" for st in tr.steps):
                        ok = True
                        det = "char is the Some payload of the checked char::from_u32"
                    elif src and _helper_makes_char_safely(lib, src):
                        ok = True
                        det = f"char returned by {src['def']}, which produces it with from_u32_unchecked (bounded above) / the checked char::from_u32"
                    elif src:
                        det = f"char produced by {src['def']}"
                    ctx.ob(f"ok-char-origin:{b.raw.get('impl_self_adt', '').rsplit('::', 1)[-1]}::{b.name}:{_nth(seen_keys, b.id)}", ok, site(b, line=s["line"]), det)


@rule("R07.5", 2, "surrogate pairs are decoded exactly: both halves are proven to be 10-bit offsets from a lead (D800..DBFF) and a trail (DC00..DFFF) unit", ["C07", "C01"])
def r07_5(ctx):
    lib = ctx.lib
    n = 0
    halves = set()
    for b in lib.bodies:
        sites = [(bb, t) for bb, t in b.calls() if (fn_of(t) or {}).get("name") == "from_u32_unchecked"]
        if not sites:
            continue
        iv = ival.for_body(b)
        feeding0 = _feeding_lines(b, sites)
        # subtractions of a constant from a 16-bit unit on the way into the unchecked conversion: each must take a
        # surrogate base (0xD800 from a lead unit, 0xDC00 from a trail unit), whichever way the constant is spelled
        # (literal, `RANGE.start()` of a constant range: `u16 - &u16` through the operator trait)
        subs = []  # (line, minuend intervals, base)
        for bi in sorted(b.reach()):
            for si, s in enumerate(b.blocks[bi]["stmts"]):
                if s["k"] != "assign" or s["rv"]["k"] != "binop" or not s["rv"]["op"].startswith("Sub"):
                    continue
                st = iv.state_after(bi, si - 1) if si > 0 else dict(iv.entry.get(bi, {}))
                cv = iv.val(st, s["rv"]["b"]) if st is not None else None
                if not (cv and len(cv) == 1 and cv[0][0] == cv[0][1]):
                    continue
                subs.append((s["line"], iv.val(st, s["rv"]["a"]) if st is not None else None, cv[0][0], b.local_ty(s["rv"]["a"]["p"]["l"]) if is_place(s["rv"]["a"]) else ""))
            t_ = b.blocks[bi]["term"]
            f_ = fn_of(t_) if t_["k"] == "call" else None
            if f_ and f_.get("trait") == "std::ops::Sub" and len(t_["args"]) == 2:
                cv = iv.at_call(bi, t_["args"][1])
                if cv and len(cv) == 1 and cv[0][0] == cv[0][1]:
                    subs.append((t_.get("line"), iv.at_call(bi, t_["args"][0]), cv[0][0], b.local_ty(t_["args"][0]["p"]["l"]) if is_place(t_["args"][0]) else ""))
        # the same 10-bit offsets taken with a mask: `unit & 0x3FF` is `unit - base` exactly when the unit is known to
        # lie in the 0x400-aligned block of a lead (D800..DBFF) or a trail (DC00..DFFF) surrogate
        for bi in sorted(b.reach()):
            for si, s in enumerate(b.blocks[bi]["stmts"]):
                if s["k"] != "assign" or s["rv"]["k"] != "binop" or s["rv"]["op"] != "BitAnd" or s.get("line") not in feeding0:
                    continue
                st = iv.state_after(bi, si - 1) if si > 0 else dict(iv.entry.get(bi, {}))
                mv = iv.val(st, s["rv"]["b"]) if st is not None else None
                if not (mv and mv == ((0x3FF, 0x3FF),)) or not is_place(s["rv"]["a"]) or b.local_ty(s["rv"]["a"]["p"]["l"]) != "u16":
                    continue
                v = iv.val(st, s["rv"]["a"])
                n += 1
                if v and ival.subset(v, [(0xD800, 0xDBFF)]):
                    which = "lead"
                elif v and ival.subset(v, [(0xDC00, 0xDFFF)]):
                    which = "trail"
                else:
                    which = None
                shown = "unknown" if not v else " ∪ ".join(f"[{lo:#x}, {hi:#x}]" for lo, hi in v)
                if which:
                    halves.add(which)
                ctx.ob(f"pair-half:{which or 'masked'}", which is not None, site(b, line=s["line"]),
                       f"{which} unit ∈ {shown}: `& 0x3FF` is its offset from the block's base" if which else f"`& 0x3FF` is applied to a unit ∈ {shown}, not confined to the lead (D800..DBFF) or the trail (DC00..DFFF) block: an ill-formed pair would decode to a fabricated character")
        for line, v, base, aty in subs:
            if line not in feeding0 or aty not in ("u16", "u32"):
                continue
            if base not in (0xD800, 0xDC00):
                if aty == "u16":
                    n += 1
                    ctx.ob(f"pair-half:base-{base:#x}", False, site(b, line=line), f"{base:#x} is subtracted from a UTF-16 unit on the way into the unchecked conversion: the surrogate bases are 0xD800 (lead) and 0xDC00 (trail)")
                continue
            n += 1
            halves.add("lead" if base == 0xD800 else "trail")
            ok = bool(v) and ival.subset(v, [(base, base + 0x3FF)])
            shown = "unknown" if not v else " ∪ ".join(f"[{lo:#x}, {hi:#x}]" for lo, hi in v)
            which = "lead" if base == 0xD800 else "trail"
            ctx.ob(f"pair-half:{which}", ok, site(b, line=line),
                   f"{which} unit ∈ {shown}" + ("" if ok else f" — not confined to [{base:#x}, {base + 0x3ff:#x}]: an ill-formed pair would decode to a fabricated character instead of an error"))
        # the combining arithmetic must be exact: no operation on the way to the unchecked conversion
        # may leave its type's range (a 16-bit shift of the lead offset silently drops plane bits)
        lines = set()
        for bb, t in sites:
            # lines of the statements feeding this argument: everything in the blocks dominating the call
            # that belongs to the expression (approximated by: same source line range as the call's argument)
            pass
        span = (b.raw["span"]["line"], b.raw["span"]["end_line"])
        wl = [ln for ln in iv.wrap_lines]
        feeding = _feeding_lines(b, sites)
        bad = [ln for ln in wl if ln in feeding]
        ctx.ob(f"pair-arithmetic-exact:{b.name}", not bad, site(b, line=bad[0] if bad else None),
               "no arithmetic feeding the unchecked conversions can wrap" if not bad else f"arithmetic at line(s) {bad} can exceed its integer type: the combined code point is truncated (characters above the affected plane decode to wrong characters)")
        # `|` stands in for `+` only where the two operands cannot have a bit in common (`hi << 10 | lo` with lo < 0x400):
        # `0x10000 | payload` with a 20-bit payload loses the carry into bit 16 (every even supplementary plane decodes
        # to the plane below it)
        for bi in sorted(b.reach()):
            for si, s_ in enumerate(b.blocks[bi]["stmts"]):
                if s_["k"] != "assign" or s_["rv"]["k"] != "binop" or s_["rv"]["op"] not in ("BitOr", "BitXor") or s_.get("line") not in feeding:
                    continue
                st = iv.state_after(bi, si - 1) if si > 0 else dict(iv.entry.get(bi, {}))
                va = iv.val(st, s_["rv"]["a"]) if st is not None else None
                vb = iv.val(st, s_["rv"]["b"]) if st is not None else None

                def bits(v_):
                    """(mask of bits that may be set, known?) for an interval set: exact for a constant, else every bit
                    below the highest bit of the maximum; a value known to be a multiple of 2^k (a left shift) is
                    recognised from its defining statement below."""
                    if not v_:
                        return None
                    hi_ = max(h for _, h in v_)
                    if len(v_) == 1 and v_[0][0] == v_[0][1]:
                        return v_[0][0]
                    return (1 << hi_.bit_length()) - 1

                def low_zero_bits(op_):
                    # `x << k` with constant k: the low k bits are zero
                    if not is_place(op_):
                        return 0
                    t_ = trace(b, op_)
                    if t_.origin and t_.origin[0] == "rvalue" and t_.origin[1]["rv"]["k"] == "binop" and t_.origin[1]["rv"]["op"] in ("Shl", "ShlUnchecked"):
                        k_ = const_value(t_.origin[1]["rv"]["b"])
                        if k_ is None and is_place(t_.origin[1]["rv"]["b"]):
                            kt = trace(b, t_.origin[1]["rv"]["b"])
                            k_ = const_value(kt.origin[1]) if kt.origin and kt.origin[0] == "const" else None
                        return k_ if isinstance(k_, int) else 0
                    return 0

                ma, mb = bits(va), bits(vb)
                if ma is None or mb is None:
                    continue
                ma &= ~((1 << low_zero_bits(s_["rv"]["a"])) - 1)
                mb &= ~((1 << low_zero_bits(s_["rv"]["b"])) - 1)
                overlap = ma & mb
                n_or = 1
                ctx.ob(f"pair-or-is-add:{b.name}:{s_.get('line', 0) - b.raw['span']['line']}", overlap == 0, site(b, line=s_.get("line")),
                       "the operands of `|` have no bit in common: it adds" if overlap == 0 else
                       f"`|` combines operands that can both have bit(s) {overlap:#x} set: where `+` would carry, `|` does not, and the code point comes out {overlap & -overlap:#x} too low for part of its range (a character of an even supplementary plane decodes to the plane below)")
    if n == 0 or halves != {"lead", "trail"}:
        ctx.ob("pair-halves", False, "lib", f"surrogate-pair combination incomplete: offsets found for {sorted(halves)} (expected unit - 0xD800 and unit - 0xDC00 feeding the unchecked conversion)")


def _feeding_lines(b, sites):
    """Source lines of the assignments whose values flow into the arguments of the given calls."""
    lines = set()
    seen = set()
    work = []
    for bb, t in sites:
        for a in t["args"]:
            if is_place(a):
                work.append(a["p"]["l"])
    while work:
        l = work.pop()
        if l in seen:
            continue
        seen.add(l)
        for dbb, idx, kind, payload in b.defs().get(l, []):
            if kind == "assign":
                lines.add(payload["line"])
                rv = payload["rv"]
                ops = []
                if rv["k"] in ("use", "cast", "repeat"):
                    ops.append(rv["op"])
                elif rv["k"] == "binop":
                    ops += [rv["a"], rv["b"]]
                elif rv["k"] == "unop":
                    ops.append(rv["a"])
                elif rv["k"] == "aggregate":
                    ops += rv["ops"]
                for o in ops:
                    if is_place(o):
                        work.append(o["p"]["l"])
                if "p" in rv:
                    work.append(rv["p"]["l"])
            elif kind == "call":
                f = fn_of(payload) or {}
                if f.get("trait") == "std::convert::From" or f.get("name") in ("from",) or f.get("trait") in ival._ARITH_TRAITS:
                    lines.add(payload.get("line"))
                    for a in payload["args"]:
                        if is_place(a):
                            work.append(a["p"]["l"])
    return lines


def _nth(d, k):
    d[k] = d.get(k, 0) + 1
    return d[k] - 1


@rule("R07.4", 3, "a byte order mark is stripped once and only at the start of the stream", ["C07", "C01"])
def r07_4(ctx):
    lib = ctx.lib
    sites = []
    for b in lib.bodies:
        for bi in sorted(b.reach()):
            t = b.blocks[bi]["term"]
            if t["k"] == "switch" and any(v == 0xFEFF for v, _ in t["targets"]) and t.get("discr_ty") == "char":
                tgt = [x for v, x in t["targets"] if v == 0xFEFF][0]
                sites.append((b, bi, (bi, 0xFEFF, tgt), t["discr"]))
            for s in b.blocks[bi]["stmts"]:
                if s["k"] == "assign" and s["rv"]["k"] == "binop" and s["rv"]["op"] in ("Eq", "Ne"):
                    for o, other in ((s["rv"]["a"], s["rv"]["b"]), (s["rv"]["b"], s["rv"]["a"])):
                        if o.get("k") == "const" and o.get("v") == 0xFEFF and o.get("ty") == "char" and t["k"] == "switch":
                            zero = [x for v, x in t["targets"] if v == 0]
                            if s["rv"]["op"] == "Eq":
                                sites.append((b, bi, (bi, "otherwise", t["otherwise"]), other))
                            elif zero:
                                sites.append((b, bi, (bi, 0, zero[0]), other))
    ctx.ob("bom-compare-sites", len(sites) == 1, "lib", f"{len(sites)} comparison(s) with U+FEFF")
    for b, bi, match_edge, compared in sites:
        # the pull that produced the compared character, and further pulls of the same source after a match
        tr = trace(b, compared)
        pull = tr.origin[2] if tr.origin and tr.origin[0] == "call" else None
        pdef = (fn_of(pull) or {}).get("full") if pull else None
        after = b.reachable_from(match_edge[2])
        skips = [(bb, t) for bb, t in b.calls() if bb in after and t is not pull and pdef and (fn_of(t) or {}).get("full") == pdef]
        ctx.ob("bom:dropped-by-pulling-next", bool(skips), site(b, bi), f"after a U+FEFF match the source is pulled again at {len(skips)} site(s)" if skips else "no second pull of the source follows the U+FEFF match (BOM handling not recognised)")
        # the stream's start flag: a two-state field of the encoder (bool or two-variant enum), CLEAR until
        # the first character has been pulled
        bsup = Super(lib, b, depth=0)
        found = None
        for fl in flagstate.flags_of(lib, b.raw.get("impl_self_adt") or ""):
            for tst in flagstate.tests(bsup, fl):
                ce = tst["edges"][flagstate.CLEAR]
                if skips and all(b.edge_dominates(ce[0][1], ce[1], ce[2][1], sb) for sb, _ in skips):
                    found = (fl, tst)
        if not found:
            ctx.ob("bom:only-before-start", False, site(b, bi), "U+FEFF is compared (and dropped) without a start-of-stream guard: ZERO WIDTH NO-BREAK SPACE inside the text would be deleted")
            continue
        fl, tst = found
        gb = tst["node"][1]
        se = tst["edges"][flagstate.SET]
        started = (se[0][1], se[1], se[2][1])
        fld = fl.field
        ctx.ob("bom:only-before-start", True, site(b, bi), f"a matched U+FEFF is skipped only while `{fld}` is still in its initial state")
        ws = flagstate.writes(lib, fl)
        setters = [wbi for wb, wbi, role, how in ws if wb is b and role == flagstate.SET]
        # every way through the function sets the flag or has seen it set already
        r = b.reachable_from(0, removed_nodes=setters, removed_edges=[started])
        armed = bool(setters) and (0 in setters or not any(x in r for x in b.return_blocks()))
        ctx.ob("bom:flag-set-first", armed, site(b, gb), f"`{fld}` leaves its initial state on every path that saw it there" if armed else f"`{fld}` is not set on some path: a later U+FEFF would be dropped too")
        clears = [wb.id for wb, wbi, role, how in ws if role != flagstate.SET]
        clears += [wb.id for wb, wbi in flagstate.mut_borrow_escapes(lib, fl)]
        ctx.ob("bom:flag-never-cleared", not clears, site(b), "the start flag is never reset" if not clears else f"`{fld}` is reset in {clears}")
    # the same protocol for a mark tested as bytes inside a reader adapter (`impl Read for SkipBom`: `read` runs once per
    # chunk, so "the first chunk" needs a start flag that every first call sets)
    for b in lib.bodies:
        if b.raw.get("impl_trait") != "std::io::Read" or b.name != "read":
            continue
        for bb, t in b.calls():
            f = fn_of(t) or {}
            if f.get("name") not in ("starts_with", "strip_prefix") or len(t["args"]) != 2:
                continue
            nt = trace(b, t["args"][1], passthrough_extra=("core::str::<impl str>::as_bytes", "std::string::String::as_bytes"))
            dec = nt.origin[1].get("decoded") if nt.origin and nt.origin[0] == "const" else None
            seq = [x.get("v") for x in dec["seq"]] if isinstance(dec, dict) and isinstance(dec.get("seq"), list) else None
            if seq is None and nt.origin and nt.origin[0] == "const":
                txt = dec.get("str") if isinstance(dec, dict) and isinstance(dec.get("str"), str) else nt.origin[1].get("str")
                if isinstance(txt, str):
                    seq = list(txt.encode("utf-8"))
            if seq != [0xEF, 0xBB, 0xBF]:
                continue
            key = f"bom-bytes:{(b.raw.get('impl_self_adt') or '').rsplit('::', 1)[-1]}"
            bsup = Super(lib, b, depth=0)
            found = None
            for fl in flagstate.flags_of(lib, b.raw.get("impl_self_adt") or ""):
                for tst in flagstate.tests(bsup, fl):
                    found = found or (fl, tst)
            if not found:
                ctx.ob(key + ":only-before-start", False, site(b, bb), "a reader adapter compares every chunk with the UTF-8 byte order mark and has no start-of-stream flag: EF BB BF at the start of a later chunk (U+FEFF inside the text) would be deleted")
                continue
            fl, tst = found
            se = tst["edges"][flagstate.SET]
            started = (se[0][1], se[1], se[2][1])
            ws = flagstate.writes(lib, fl)
            setters = [wbi for wb, wbi, role, how in ws if wb is b and role == flagstate.SET]
            r = b.reachable_from(0, removed_nodes=setters, removed_edges=[started])
            # (returns that hand nothing to the caller do not count: an error, or an empty read)
            armed = bool(setters) and (0 in setters or not any(x in r for x in b.return_blocks()))
            if not armed and setters:
                # `let started = mem::replace(&mut self.started, true)`: the write comes before the test
                armed = all(b.dominates(sx, tst["node"][1]) for sx in setters[:1])
            ctx.ob(key + ":flag-set-first", armed, site(b, bb), f"`{fl.field}` leaves its initial state on every call that saw it there: only the first chunk is compared with the mark" if armed else
                   f"`{fl.field}` is not set on some path through `read` (it is set only where a mark was found): a stream without a leading mark keeps comparing, and EF BB BF at the start of a later chunk (U+FEFF inside a string that straddles a read boundary) is deleted")


def _derived_refs(b, arr):
    """Locals that hold a reference (re-borrow / unsized view) of the array local `arr`."""
    refs = set()
    changed = True
    while changed:
        changed = False
        for blk in b.blocks:
            for s_ in blk["stmts"]:
                if s_["k"] != "assign" or s_["p"]["pr"]:
                    continue
                rv = s_["rv"]
                src = None
                if rv["k"] in ("ref", "rawptr"):
                    base = rv["p"]["l"]
                    prk = [e["k"] for e in rv["p"]["pr"]]
                    if (base == arr and not prk) or (base in refs and prk in ([], ["deref"])):
                        src = base
                elif rv["k"] in ("use", "cast") and is_place(rv["op"]) and not rv["op"]["p"]["pr"] and rv["op"]["p"]["l"] in refs:
                    src = rv["op"]["p"]["l"]
                if src is not None and s_["p"]["l"] not in refs:
                    refs.add(s_["p"]["l"])
                    changed = True
    return refs


def _array_len_behind(b, op, depth=0):
    """N when the operand is (a reference / unsized view of) a local `[u8; N]` array, else None."""
    if depth > 8 or not is_place(op):
        return None
    l = op["p"]["l"]
    m = re.match(r"^&?(?:mut )?\[u8; (\d+)\]$", b.local_ty(l))
    if m and all(e["k"] == "deref" for e in op["p"]["pr"]):
        return int(m.group(1))
    ds = b.whole_defs(l)
    if len(ds) != 1 or ds[0][2] != "assign":
        return None
    rv = ds[0][3]["rv"]
    if rv["k"] in ("use", "cast"):
        return _array_len_behind(b, rv["op"], depth + 1)
    if rv["k"] in ("ref", "copyforderef"):
        return _array_len_behind(b, {"k": "copy", "p": {"l": rv["p"]["l"], "pr": [e for e in rv["p"]["pr"] if e["k"] != "deref"]}}, depth + 1)
    return None


def _byte_count(b, op):
    """The constant number of bytes an operand denotes: an integer constant, or `.len()` of a `[u8; N]` array."""
    if op.get("k") == "const":
        v = op.get("v")
        return v if isinstance(v, int) and not isinstance(v, bool) else None
    tr = trace(b, op)
    if tr.origin and tr.origin[0] == "const" and isinstance(tr.origin[1].get("v"), int):
        return tr.origin[1]["v"]
    if tr.origin and tr.origin[0] == "call" and (fn_of(tr.origin[2]) or {}).get("name") == "len" and tr.origin[2]["args"]:
        return _array_len_behind(b, tr.origin[2]["args"][0])
    return None


def _same_array(sup, node, op, arr):
    """`op` (read at `node`) is a view of the array local `arr` = (path, local): `&mut unit`, `&unit as &[u8]`."""
    cur_node, cur = node, op
    for _ in range(10):
        if not is_place(cur):
            return False
        body = sup.body_of(cur_node)
        l = cur["p"]["l"]
        if (cur_node[0], l) == arr and all(e["k"] == "deref" for e in cur["p"]["pr"]):
            return True
        ds = body.whole_defs(l)
        if not ds and 1 <= l <= body.nargs:
            res = sup.caller_operand(cur_node, l)
            if not res:
                return False
            cur_node, _, cur = res
            continue
        if len(ds) != 1 or ds[0][2] != "assign":
            return False
        rv = ds[0][3]["rv"]
        if rv["k"] in ("use", "cast"):
            cur = rv["op"]
        elif rv["k"] in ("ref", "copyforderef"):
            cur = {"k": "copy", "p": {"l": rv["p"]["l"], "pr": [e for e in rv["p"]["pr"] if e["k"] != "deref"]}}
        else:
            return False
    return False


def _read_then_exact(sup, arr, width):
    """{node: bytes} for the two-step fill of the decoded array: `let k = src.read(&mut arr)?; src.read_exact(&mut
    arr[k..])?` takes exactly the array's length from the source, whatever k was (the first call counts 0, the second
    the whole width; a path that leaves between the two is then counted short, as it should be)."""
    out = {}
    if arr is None:
        return out
    for nn, body, t in sup.calls():
        f = fn_of(t) or {}
        if not (f.get("trait") == "std::io::Read" and f.get("name") == "read_exact" and len(t["args"]) == 2):
            continue
        bt = trace(body, t["args"][1])
        if not (bt.origin and bt.origin[0] == "call" and (fn_of(bt.origin[2]) or {}).get("trait") in ("std::ops::IndexMut", "std::ops::Index") and len(bt.origin[2]["args"]) == 2):
            continue
        ix = bt.origin[2]
        if not _same_array(sup, (nn[0], bt.origin[1]), ix["args"][0], arr):
            continue
        rt = trace(body, ix["args"][1])
        if not (rt.origin and rt.origin[0] == "agg" and str(rt.origin[1]["rv"].get("variant") or rt.origin[1]["rv"].get("agg") or "").endswith("RangeFrom") and rt.origin[1]["rv"]["ops"]):
            continue
        kt = trace(body, rt.origin[1]["rv"]["ops"][0], passthrough_extra=("std::ops::Try::branch",))
        if not (kt.origin and kt.origin[0] == "call"):
            continue
        rc = kt.origin[2]
        rf = fn_of(rc) or {}
        if not (rf.get("trait") == "std::io::Read" and rf.get("name") == "read" and len(rc["args"]) == 2 and any(st[0] == "downcast" and st[1] in ("Continue", "Ok") for st in kt.steps)):
            continue
        rnode = (nn[0], kt.origin[1])
        if not _same_array(sup, rnode, rc["args"][1], arr):
            continue
        # same source, and the first read comes first
        if trace(body, rc["args"][0]).origin != trace(body, t["args"][0]).origin or not body.dominates(kt.origin[1], nn[1]):
            continue
        out[rnode] = 0
        out[nn] = width
    return out


_FILL_HELPERS = {}


def _fill_exact_param(lib, callee):
    """A hand-written `read_exact`: 1-based index of the `&mut [u8]` parameter that `callee` fills completely from a
    reader before it returns Ok, or None. Recognised shape: a loop around `Read::read(src, &mut unit[filled..])`, with
    `filled` starting at 0 and growing by the counts read, and `Ok` returned only on the edge where `filled <
    unit.len()` is false (so every Ok return has taken exactly `unit.len()` bytes; a 0-byte read is an error)."""
    key = (id(lib), callee.id)
    if key in _FILL_HELPERS:
        return _FILL_HELPERS[key]
    res = None
    try:
        slices = [k for k in range(1, callee.nargs + 1) if callee.local_ty(k).replace(" ", "") in ("&mut[u8]",) or callee.local_ty(k) == "&mut [u8]"]
        reads = [(bb, t) for bb, t in callee.calls() if (fn_of(t) or {}).get("trait") == "std::io::Read" and (fn_of(t) or {}).get("name") == "read" and len(t["args"]) == 2 and callee.on_cycle(bb)]
        other = [(bb, t) for bb, t in callee.calls() if (fn_of(t) or {}).get("trait") in ("std::io::Read", "std::io::BufRead") and (fn_of(t) or {}).get("name") in ("read_exact", "read_to_end", "consume", "read_vectored", "read_buf")]
        if len(slices) == 1 and len(reads) == 1 and not other:
            u = slices[0]
            rbb, rt = reads[0]
            # the read's destination is `unit[filled..]`
            dt = trace(callee, rt["args"][1], passthrough_extra=("std::ops::IndexMut::index_mut", "std::ops::Index::index"))
            on_unit = bool(dt.origin and dt.origin[0] == "arg" and dt.origin[1] == u)
            # the loop test: `filled < unit.len()`, Ok returned only from its false edge
            ok_edge = False
            for sb in sorted(callee.reach()):
                sw = callee.blocks[sb]["term"]
                if sw["k"] != "switch" or not is_place(sw["discr"]):
                    continue
                for s_ in callee.blocks[sb]["stmts"]:
                    if not (s_["k"] == "assign" and not s_["p"]["pr"] and s_["p"]["l"] == sw["discr"]["p"]["l"] and s_["rv"]["k"] == "binop" and s_["rv"]["op"] in ("Lt", "Ne")):
                        continue
                    lt = trace(callee, s_["rv"]["b"])
                    is_len = False
                    if lt.origin and lt.origin[0] == "call" and (fn_of(lt.origin[2]) or {}).get("name") == "len" and lt.origin[2]["args"]:
                        at = trace(callee, lt.origin[2]["args"][0])
                        is_len = bool(at.origin and at.origin[0] == "arg" and at.origin[1] == u)
                    elif lt.origin and lt.origin[0] == "rvalue" and lt.origin[1]["rv"]["k"] in ("len", "ptr_metadata", "unop"):
                        is_len = True
                    if not is_len:
                        continue
                    fl = s_["rv"]["a"]["p"]["l"] if is_place(s_["rv"]["a"]) and not s_["rv"]["a"]["p"]["pr"] else None
                    ft = trace(callee, s_["rv"]["a"]) if is_place(s_["rv"]["a"]) else None
                    froot = ft.origin[1] if ft and ft.origin and ft.origin[0] == "multi" else fl
                    if froot is None:
                        continue
                    # `filled`: 0 at first, then only `filled + n` with n the read's count
                    defs_ok = True
                    for _, _, k_, p_ in callee.whole_defs(froot):
                        if k_ == "assign" and p_["rv"]["k"] == "use" and const_value(p_["rv"]["op"]) == 0:
                            continue
                        if k_ == "assign" and p_["rv"]["k"] == "use" and is_place(p_["rv"]["op"]):
                            t2 = trace(callee, p_["rv"]["op"])
                            if t2.origin and t2.origin[0] == "rvalue" and t2.origin[1]["rv"]["k"] == "binop" and t2.origin[1]["rv"]["op"].startswith("Add"):
                                nt = trace(callee, t2.origin[1]["rv"]["b"], passthrough_extra=("std::ops::Try::branch",))
                                if nt.origin and nt.origin[0] == "call" and nt.origin[2] is rt:
                                    continue
                        if k_ == "assign" and p_["rv"]["k"] == "binop" and p_["rv"]["op"].startswith("Add"):
                            nt = trace(callee, p_["rv"]["b"], passthrough_extra=("std::ops::Try::branch",))
                            if nt.origin and nt.origin[0] == "call" and nt.origin[2] is rt:
                                continue
                        defs_ok = False
                    if not defs_ok:
                        continue
                    zero_t = [x for v, x in sw["targets"] if v == 0]
                    if not zero_t:
                        continue
                    ok_rets = []
                    for rb in callee.return_blocks():
                        for bb_, _, k_, p_ in callee.whole_defs(0):
                            if k_ == "assign" and p_["rv"]["k"] == "aggregate" and p_["rv"].get("variant") == "Ok":
                                ok_rets.append(bb_)
                    ok_rets = sorted(set(ok_rets))
                    if ok_rets and all(callee.edge_dominates(sb, 0, zero_t[0], ob) for ob in ok_rets):
                        ok_edge = True
            if on_unit and ok_edge:
                res = u
    except Exception:
        res = None
    _FILL_HELPERS[key] = res
    return res


def _unit_effects(sup, node, arr, width):
    """(bytes taken from a reader, bytes added to a u64 position) by the block `node` of a supergraph, in units of
    bytes; None for an amount that cannot be determined. A read_exact into the decoded array `arr` and a length
    of that array both count as `width` (the array handed to the decode function has exactly that many bytes)."""
    body = sup.body_of(node)
    blk = body.blocks[node[1]]
    used = adv = 0

    def amount(op):
        """Constant byte count of an operand: a literal, `.len()` of a [u8; K] array (K known, or the decoded
        array), or the const generic that is that array's length."""
        if op.get("k") == "const":
            if isinstance(op.get("v"), int) and not isinstance(op.get("v"), bool):
                return op["v"]
            if op.get("param") and arr is not None and re.search(r"\[u8; " + re.escape(op["param"]) + r"\]", sup.body_of((arr[0], 0)).local_ty(arr[1])):
                return width
            return None
        tr = trace(body, op)
        if tr.origin and tr.origin[0] == "const":
            return amount(tr.origin[1] if "k" in tr.origin[1] else dict(tr.origin[1], k="const"))
        if tr.origin and tr.origin[0] == "call" and (fn_of(tr.origin[2]) or {}).get("name") == "len" and tr.origin[2]["args"]:
            a0 = tr.origin[2]["args"][0]
            if arr is not None and _same_array(sup, (node[0], tr.origin[1]), a0, arr):
                return width
            return _array_len_behind(body, a0)
        if tr.origin and tr.origin[0] == "rvalue" and tr.origin[1]["rv"]["k"] == "cast":
            return amount(tr.origin[1]["rv"]["op"])
        return None

    t = blk["term"]
    if t["k"] == "call":
        f = fn_of(t) or {}
        if f.get("trait") == "std::io::Read" and f.get("name") == "read_exact" and len(t["args"]) == 2:
            if arr is not None and _same_array(sup, node, t["args"][1], arr):
                used = width
            else:
                used = _array_len_behind(body, t["args"][1])
        elif f.get("trait") == "std::io::BufRead" and f.get("name") == "consume" and len(t["args"]) == 2:
            used = amount(t["args"][1])
        elif f.get("trait") == "std::io::Read" and f.get("name") in ("read", "read_to_end", "read_buf", "read_vectored", "read_to_string"):
            used = None
        elif f.get("local") and sup.crate.by_id.get(f.get("resolved") or f.get("def")) is not None and _fill_exact_param(sup.crate, sup.crate.by_id[f.get("resolved") or f.get("def")]):
            # a hand-written read_exact (a loop of reads until the slice is full): on its Ok return it has taken the
            # slice's length
            cb_ = sup.crate.by_id[f.get("resolved") or f.get("def")]
            k_ = _fill_exact_param(sup.crate, cb_)
            if k_ - 1 < len(t["args"]):
                if arr is not None and _same_array(sup, node, t["args"][k_ - 1], arr):
                    used = width
                else:
                    used = _array_len_behind(body, t["args"][k_ - 1])
    for s_ in blk["stmts"]:
        if s_["k"] != "assign" or not s_["p"]["pr"]:
            continue
        last = s_["p"]["pr"][-1]
        is_u64_place = (last["k"] == "field" and last.get("ty") == "u64") or (last["k"] == "deref" and body.local_ty(s_["p"]["l"]).endswith("u64") and len(s_["p"]["pr"]) == 1)
        if not is_u64_place:
            continue
        rv = s_["rv"]
        k = None
        if rv["k"] == "binop" and rv["op"] in ("Add", "AddWithOverflow", "AddUnchecked"):
            k = amount(rv["b"])
        elif rv["k"] == "use" and is_place(rv["op"]):
            tr = trace(body, rv["op"])
            if tr.origin and tr.origin[0] == "rvalue" and tr.origin[1]["rv"]["k"] == "binop" and tr.origin[1]["rv"]["op"] in ("Add", "AddWithOverflow"):
                k = amount(tr.origin[1]["rv"]["b"])
            else:
                continue  # a plain store (constructor, reset): not an advance
        else:
            continue
        adv = None if (k is None or adv is None) else adv + k
    return used, adv


@rule("R07.8", 2, "a code-unit reader takes exactly one unit's bytes from the source for the unit it decodes, and advances its position by the same amount, on every path", ["C07", "C02"])
def r07_8(ctx):
    lib = ctx.lib
    d = detect_fn(lib)
    n = 0
    seen_units = set()
    for b0 in lib.bodies:
        if b0.file != d.file:
            continue
        for dbb0, dt in b0.calls():
            f = fn_of(dt) or {}
            callee = lib.by_id.get(f.get("resolved") or f.get("def"))
            if not (callee and f.get("local") and len(dt["args"]) == 2):
                continue
            m = re.match(r"^\[u8; (\d+)\]$", callee.local_ty(2))
            if not m or callee.local_ty(0) not in ("u16", "u32"):
                continue
            width = int(m.group(1))
            # the function that reads the unit: the decode may sit in a closure of it (`unit.map(|u| decode(u))`)
            ub = b0
            while ub.raw["def_kind"] == "Closure" and ub.raw.get("parent") in lib.by_id:
                ub = lib.by_id[ub.raw["parent"]]
            if (ub.id, width) in seen_units:
                continue
            seen_units.add((ub.id, width))
            n += 1
            sup = Super(lib, ub, depth=3, follow=lambda f_: not (f_.get("local") and lib.by_id.get(f_.get("resolved") or f_.get("def")) is not None and _fill_exact_param(lib, lib.by_id[f_.get("resolved") or f_.get("def")])))
            dnodes = [nn for nn, nb, t in sup.calls() if t is dt]
            if not dnodes:
                ctx.ob(f"unit-bytes:{ub.name}", False, site(b0, dbb0), "the decode call is not reachable in the unit reader's supergraph")
                continue
            dn = dnodes[0]
            # the array that is decoded, where it is created
            feed = strace_deep(sup, dn, dt["args"][1], extra=("std::ops::Try::branch", "::transpose"))
            arr = None
            if feed.origin and feed.origin[0] in ("rvalue", "agg", "multi"):
                onode = feed.origin_node
                ol = None
                if feed.origin[0] == "multi":
                    ol = feed.origin[1]
                else:
                    st_ = feed.origin[1]
                    ol = st_["p"]["l"] if isinstance(st_, dict) and "p" in st_ and not st_["p"]["pr"] else None
                obody = sup.body_of(onode)
                if ol is not None and not re.match(r"^\[u8; ", obody.local_ty(ol)) and feed.origin[0] == "multi":
                    # the helper's return value has several definitions (`Ok(None)`, `Ok(Some(unit))`, `?`): follow the
                    # one that the decode's projections select (`?` = Ok, then Some)
                    want = []
                    for st_ in reversed(feed.steps):
                        if st_[0] == "enter_callee":
                            continue
                        if st_[0] == "downcast":
                            # `?` continues with Ok (on a Result) or Some (on an Option)
                            want.append({"Continue": ("Ok", "Some"), "Break": ("Err", "None")}.get(st_[1], (st_[1],)))
                        if st_[0] == "enter_caller":
                            break
                    def descend(l, want_):
                        if not want_:
                            return l
                        for _, _, k_, p_ in obody.whole_defs(l):
                            if k_ == "assign" and p_["rv"]["k"] == "aggregate" and p_["rv"].get("variant") in want_[0] and p_["rv"]["ops"] and is_place(p_["rv"]["ops"][0]):
                                o_ = p_["rv"]["ops"][0]
                                t2 = trace(obody, o_)
                                cands = []
                                if t2.origin and t2.origin[0] == "multi" and all(x[0] == "use" for x in t2.steps):
                                    cands.append(t2.origin[1])
                                elif t2.origin and t2.origin[0] in ("rvalue", "agg") and all(x[0] == "use" for x in t2.steps) and isinstance(t2.origin[1], dict) and "p" in t2.origin[1] and not t2.origin[1]["p"]["pr"]:
                                    cands.append(t2.origin[1]["p"]["l"])
                                if not o_["p"]["pr"]:
                                    cands.append(o_["p"]["l"])
                                for c_ in cands:
                                    r_ = descend(c_, want_[1:])
                                    if r_ is not None and (want_[1:] or re.match(r"^\[u8; ", obody.local_ty(r_))):
                                        return r_
                        return None

                    if any(st_[0] == "call" and "::transpose" in st_[1] for st_ in feed.steps) and len(want) == 2:
                        # `.transpose()` swapped the nesting: try the other order too
                        cur_l = descend(ol, want) or descend(ol, list(reversed(want)))
                    else:
                        cur_l = descend(ol, want)
                    ol = cur_l
                if ol is not None and re.match(r"^\[u8; ", obody.local_ty(ol)):
                    arr = (onode[0], ol)
            # every simple path from the entry to the decode
            results = []
            budget = [0]

            ps = PathSens(sup, payloads=True)
            two_step = _read_then_exact(sup, arr, width)

            def walk(node, facts, seen, used, adv):
                """Variant-aware walk: a helper that returned `Ok(None)` is not followed into the caller's `Some`
                arm (the facts PathSens keeps about Option/Result variants prune such paths)."""
                budget[0] += 1
                if budget[0] > 60000:
                    return
                if node != dn:
                    u, a = _unit_effects(sup, node, arr, width)
                    if node in two_step:
                        u = two_step[node]
                    used = None if (u is None or used is None) else used + u
                    adv = None if (a is None or adv is None) else adv + a
                if node == dn:
                    results.append((used, adv))
                    return
                for lab, m_, f2 in ps.step(node, facts):
                    if m_ in seen or sup.body_of(m_).blocks[m_[1]].get("cleanup"):
                        continue
                    walk(m_, f2, seen | {m_}, used, adv)

            walk(sup.entry, {}, {sup.entry}, 0, 0)
            bad_used = sorted({u for u, _ in results if u != width}, key=str)
            ok_u = bool(results) and not bad_used and budget[0] <= 60000
            ctx.ob(f"unit-bytes:{ub.name}", ok_u, sup.site(dn),
                   f"{len(results)} path(s) to the decode of a {width}-byte unit: each takes exactly {width} byte(s) from the source" if ok_u else
                   f"a path to the decode of a {width}-byte unit takes {bad_used} byte(s) from the source (None = not a constant): later units are decoded misaligned")
            # the position may also be advanced after the decode, on the straight line to the return
            after = 0
            cur = dn
            guard = 0
            while cur is not None and guard < 12:
                guard += 1
                nx = [m_ for lab, m_ in sup.edges(cur) if not sup.body_of(m_).blocks[m_[1]].get("cleanup") and lab not in ("call", "maycall")]
                cur = nx[0] if len(nx) == 1 else None
                if cur is not None:
                    a = _unit_effects(sup, cur, arr, width)[1]
                    after = None if (a is None or after is None) else after + a
            advs = {(a + after) if (a is not None and after is not None) else None for _, a in results}
            if advs - {0}:
                bad_adv = sorted(advs - {width}, key=str)
                ok_a = not bad_adv
                ctx.ob(f"unit-position:{ub.name}", ok_a, sup.site(dn), f"the position advances by {width} for each decoded unit" if ok_a else f"the position advances by {bad_adv} instead of {width} on some path: error offsets drift")
    ctx.ob("unit-readers", n >= 2, site(d), f"{n} code-unit reader(s)")


@rule("R07.9", 2, "what the re-encoder asks its fixed remainder buffer (is anything left?) is answered from the unread window buf[pos..len]: a yes/no observer used from outside the buffer type reads both cursors", ["C07", "C02"])
def r07_9(ctx):
    import r_c04

    lib = ctx.lib
    adt, pos_f, len_f, cadt = r_c04.array_buffer_window(lib)
    ctx.need(adt is not None and pos_f is not None, "fixed array buffer with an unread window buf[pos..len] not found")
    # what users of the buffer ask about it (`is_empty()`) is answered from the unread window: a yes/no observer
    # called from outside the type reads both ends of buf[pos..len], itself or through the type's own helpers
    def _fields_read(b_, depth=0):
        got = set()

        def walk(x):
            if isinstance(x, dict):
                if x.get("k") == "field" and x.get("adt") == cadt and "name" in x:
                    got.add(x["name"])
                for v_ in x.values():
                    walk(v_)
            elif isinstance(x, list):
                for v_ in x:
                    walk(v_)

        for bi_ in sorted(b_.reach()):
            walk(b_.blocks[bi_]["stmts"])
            t_ = b_.blocks[bi_]["term"]
            walk({k_: v_ for k_, v_ in t_.items() if k_ in ("args", "discr", "cond", "dest")})
            if t_["k"] == "call" and depth < 2:
                cb_ = lib.by_id.get((fn_of(t_) or {}).get("resolved") or (fn_of(t_) or {}).get("def"))
                if cb_ is not None and cb_.raw.get("impl_self_adt") in (adt, cadt):
                    got |= _fields_read(cb_, depth + 1)
        return got

    n_obs = 0
    for ob_ in lib.bodies:
        if ob_.raw.get("impl_self_adt") != adt or ob_.nargs != 1 or ob_.local_ty(0) != "bool" or not ob_.local_ty(1).startswith("&") or ob_.local_ty(1).startswith("&mut "):
            continue
        used_outside = any(((fn_of(t_) or {}).get("resolved") or (fn_of(t_) or {}).get("def")) == ob_.id for c_ in lib.bodies if c_.raw.get("impl_self_adt") != adt for _, t_ in c_.calls())
        if not used_outside:
            continue
        n_obs += 1
        fr = _fields_read(ob_)
        ok_o = pos_f in fr and len_f in fr
        ctx.ob(f"observer-uses-window:{ob_.name}", ok_o, site(ob_), f"`{ob_.name}` is decided from buf[{pos_f}..{len_f}] (reads {sorted(fr)})" if ok_o else
               f"`{ob_.name}` reads only {sorted(fr)}: once part of the buffer has been consumed ({pos_f} > 0) it no longer says whether unread bytes remain — the encoder takes a drained remainder for pending output and reports a false end of input")
    ctx.ob("observers-found", n_obs >= 1, adt, f"{n_obs} yes/no observer(s) of the buffer used from outside the type")


@rule("R07.7", 1, "a character encoded into a scratch array is emitted only up to its encoded length: every slice of the scratch array ends at encode_utf8(..).len() (or at a minimum with it)", ["C07"])
def r07_7(ctx):
    lib = ctx.lib
    n = 0
    for b in lib.bodies:
        arrays = [l for l in range(b.nargs + 1, len(b.raw["locals"])) if b.local_ty(l).startswith("[u8; ")]
        for bb, t in b.calls():
            f = fn_of(t) or {}
            if f.get("name") != "encode_utf8" or "char" not in f.get("def", "") or len(t["args"]) < 2 or not is_place(t["args"][1]):
                continue
            arr = None
            for a_ in arrays:
                if t["args"][1]["p"]["l"] in _derived_refs(b, a_):
                    arr = a_
            if arr is None:
                continue  # encoded straight into the caller's buffer
            n += 1
            refs = _derived_refs(b, arr)
            # locals holding the encoded length
            lens = set()
            for lb, lt in b.calls():
                lf = fn_of(lt) or {}
                if lf.get("name") == "len" and lt["args"] and not lt["dest"]["pr"]:
                    a0 = trace(b, lt["args"][0])
                    if a0.origin and a0.origin[0] == "call" and a0.origin[2] is t:
                        lens.add(lt["dest"]["l"])

            def bounded(op, depth=0):
                """op is the encoded length or min(encoded length, _)."""
                if not is_place(op) or depth > 4:
                    return False
                tr_ = trace(b, op)
                if tr_.origin and tr_.origin[0] == "call" and all(s_[0] == "use" for s_ in tr_.steps):
                    if not tr_.origin[2]["dest"]["pr"] and tr_.origin[2]["dest"]["l"] in lens:
                        return True
                    if (fn_of(tr_.origin[2]) or {}).get("def") in ("std::cmp::min", "std::cmp::Ord::min"):
                        return any(bounded(a, depth + 1) for a in tr_.origin[2]["args"])
                return False

            k = 0
            for ub, ut in b.calls():
                if ut is t or not any(is_place(a) and not a["p"]["pr"] and a["p"]["l"] in refs for a in ut["args"]):
                    continue
                uf = fn_of(ut) or {}
                k += 1
                ok = False
                det = f"the scratch array is handed to `{uf.get('def')}` whole: bytes beyond the encoded character (zeros) can be emitted as text"
                if uf.get("trait") in ("std::ops::Index", "std::ops::IndexMut") and len(ut["args"]) == 2:
                    rg = trace(b, ut["args"][1])
                    if rg.origin and rg.origin[0] == "agg":
                        adt_ = rg.origin[1]["rv"].get("adt", "")
                        ops = rg.origin[1]["rv"]["ops"]
                        if adt_ == "std::ops::RangeTo" and ops:
                            ok = bounded(ops[0])
                        elif adt_ == "std::ops::Range" and len(ops) == 2:
                            ok = bounded(ops[1])
                        det = f"{adt_.rsplit('::', 1)[-1]} slice of the scratch array " + ("ends at the encoded length" if ok else "is not bounded by the encoded length: bytes beyond the character (zeros) can be emitted as text")
                ctx.ob(f"scratch-slice:{b.name}:{k}", ok, site(b, ub), det)
    ctx.ob("scratch-encodes", n >= 1, "lib", f"{n} encode_utf8 call(s) into a local scratch array")


def _prefix_or_whole(b, src, need):
    """`x.get(..K).unwrap_or(x)`: the first K bytes of x, or all of x when it is shorter. Returns None when `src` is
    not an `Option::unwrap_or` of that shape, else (ok, detail, K, operand for x)."""
    import r_c04

    sf = fn_of(src) or {}
    if sf.get("def") != "std::option::Option::<T>::unwrap_or" or len(src["args"]) != 2:
        return None
    gt = trace(b, src["args"][0])
    if not (gt.origin and gt.origin[0] == "call" and all(s_[0] == "use" for s_ in gt.steps)):
        return None
    g = gt.origin[2]
    gf = fn_of(g) or {}
    if not (gf.get("name") == "get" and gf.get("def", "").startswith("core::slice") and len(g["args"]) == 2):
        return None
    rt = trace(b, g["args"][1])
    if not (rt.origin and rt.origin[0] == "agg" and rt.origin[1]["rv"].get("adt", "").endswith("RangeTo") and rt.origin[1]["rv"]["ops"]):
        return (False, "the detector is given a part of the input that is not a prefix", None, None)
    k = _byte_count(b, rt.origin[1]["rv"]["ops"][0])
    if k is None or k < need:
        return (False, f"the detector is given at most {k} byte(s): fewer than {need}", k, None)
    rx, rd = r_c04._slice_root(b, g["args"][0]), r_c04._slice_root(b, src["args"][1])
    tx, td = trace(b, g["args"][0], passthrough_extra=("std::ops::Deref::deref",)), trace(b, src["args"][1], passthrough_extra=("std::ops::Deref::deref",))
    plain_ = ("use", "ref", "deref", "call")

    def same_origin(o1, o2):
        if o1 is None or o2 is None or o1[0] != o2[0]:
            return False
        if o1[0] == "call":
            return o1[2] is o2[2]
        return o1 == o2

    same = (rx is not None and rx == rd) or (same_origin(tx.origin, td.origin) and [s_ for s_ in tx.steps if s_[0] not in plain_] == [s_ for s_ in td.steps if s_[0] not in plain_])
    if not same:
        return (False, "the fallback for a short input is not the input itself", k, None)
    return (True, "", k, g["args"][0])


def _fill_buf_head(b, op):
    """The operand is the slice a `fill_buf()` call returned (its Ok payload, possibly the value a retry loop breaks
    with): nothing of the stream has been consumed before it. Returns the call's terminator or None."""
    tr = trace(b, op, passthrough_extra=("std::ops::Try::branch",))
    if tr.origin and tr.origin[0] == "call" and (fn_of(tr.origin[2]) or {}).get("def") == "std::io::BufRead::fill_buf" and any(s_[0] == "downcast" and s_[1] in ("Ok", "Continue") for s_ in tr.steps):
        return tr.origin[2]
    return None


def _len_ge_const_edge(b, x_root, k):
    """Edges (block, label, target) on which `len(x) >= k'` holds for some constant k' >= k, x being the slice local
    with root x_root."""
    import r_c04

    out = []
    for sb in sorted(b.reach()):
        blk = b.blocks[sb]
        sw = blk["term"]
        if sw["k"] != "switch" or not is_place(sw["discr"]) or sw["discr"]["p"]["pr"]:
            continue
        dl = sw["discr"]["p"]["l"]
        cmps = [s_ for s_ in blk["stmts"] if s_["k"] == "assign" and not s_["p"]["pr"] and s_["p"]["l"] == dl and s_["rv"]["k"] == "binop" and s_["rv"]["op"] in ("Ge", "Gt", "Lt", "Le")]
        if not cmps:
            continue
        rv = cmps[-1]["rv"]
        a_len = r_c04._len_of(b, rv["a"]) == x_root
        b_len = r_c04._len_of(b, rv["b"]) == x_root
        ca, cb_ = _byte_count(b, rv["a"]), _byte_count(b, rv["b"])
        zero = [t_ for v_, t_ in sw["targets"] if v_ == 0]
        opn = rv["op"]
        if b_len and ca is not None:
            # normalise `c OP len` to `len OP' c`
            opn = {"Ge": "Le", "Gt": "Lt", "Lt": "Gt", "Le": "Ge"}[opn]
            a_len, cb_ = True, ca
        elif not (a_len and cb_ is not None):
            continue
        if opn == "Ge" and cb_ >= k:
            out.append((sb, "otherwise", sw["otherwise"]))
        elif opn == "Gt" and cb_ + 1 >= k:
            out.append((sb, "otherwise", sw["otherwise"]))
        elif opn == "Lt" and cb_ >= k and zero:
            out.append((sb, 0, zero[0]))
        elif opn == "Le" and cb_ + 1 >= k and zero:
            out.append((sb, 0, zero[0]))
    return out


def _peeked_head_prefix(b, cbb, src, need):
    """`&peeked[..K]` (K >= need a constant) of the slice `fill_buf()` returned, taken where `peeked.len() >= K` is
    established: the detector sees the stream's first K bytes in place. (ok, detail) or None when `src` is not such
    an indexing call."""
    import r_c04

    sf = fn_of(src) or {}
    if not (sf.get("trait") in ("std::ops::Index",) and len(src["args"]) == 2):
        return None
    if _fill_buf_head(b, src["args"][0]) is None:
        return None
    rt = trace(b, src["args"][1])
    if not (rt.origin and rt.origin[0] == "agg" and rt.origin[1]["rv"].get("adt", "").endswith("RangeTo") and rt.origin[1]["rv"]["ops"]):
        return (False, "the detector is given a part of the reader's buffer that is not a constant-length prefix")
    k = _byte_count(b, rt.origin[1]["rv"]["ops"][0])
    root = r_c04._slice_root(b, src["args"][0])
    if k is None or k < need:
        return (False, f"the detector is given the first {k} byte(s) of the reader's buffer: fewer than {need}")
    ok = any(b.edge_dominates(e[0], e[1], e[2], cbb) for e in _len_ge_const_edge(b, root, k))
    return (ok, f"first {k} bytes of the reader's own buffer, taken where the buffer is known to hold at least {k}" if ok else f"the reader's buffer is sliced to {k} bytes without a dominating test that it holds that many")


def _read_loop_complete(b, arr, ln, fill_bb):
    """Array local `arr` is filled by `reader.read(&mut arr[ln..])` in a loop that is left, on the way to block
    fill_bb, only when `ln` reached the array's length or a read returned Ok(0); `ln` grows by what each read
    returned and by nothing else."""
    import r_c04

    reads = []
    for cb, ct in b.calls():
        f = fn_of(ct) or {}
        if not (f.get("trait") == "std::io::Read" and f.get("name") == "read" and len(ct["args"]) == 2):
            continue
        at = trace(b, ct["args"][1])
        if not (at.origin and at.origin[0] == "call" and (fn_of(at.origin[2]) or {}).get("trait") == "std::ops::IndexMut"):
            continue
        ix = at.origin[2]
        if r_c04._slice_root(b, ix["args"][0]) != arr:
            continue
        rt = trace(b, ix["args"][1])
        if not (rt.origin and rt.origin[0] == "agg" and rt.origin[1]["rv"].get("adt", "").endswith("RangeFrom")):
            continue
        st_ = r_c04._stable_root(b, rt.origin[1]["rv"]["ops"][0]) if False else None
        o0 = rt.origin[1]["rv"]["ops"][0]
        t0 = trace(b, o0)
        if not ((t0.origin and t0.origin[0] == "multi" and t0.origin[1] == ln) or (is_place(o0) and o0["p"]["l"] == ln)):
            continue
        reads.append((cb, ct))
    if len(reads) != 1:
        return False
    rb, rt_ = reads[0]
    loop = {x for x in b.reachable_from(rb) if rb in b.reachable_from(x)} | {rb}
    if not b.on_cycle(rb):
        return False
    for u in sorted(loop):
        for v in b.succ(u):
            if v in loop or b.blocks[v].get("cleanup"):
                continue
            if fill_bb not in b.reachable_from(v) and v != fill_bb:
                continue  # error return
            sw = b.blocks[u]["term"]
            if sw["k"] != "switch":
                return False
            zero = [t_ for v_, t_ in sw["targets"] if v_ == 0]
            if not zero or zero[0] != v:
                return False
            d = sw["discr"]
            if is_place(d) and d["p"]["pr"]:
                # switch on the read's Ok payload: the 0 arm
                dt = trace(b, d)
                if dt.origin and dt.origin[0] == "call" and dt.origin[2] is rt_ and any(s_[0] == "downcast" and s_[1] in ("Ok", "Continue") for s_ in dt.steps):
                    continue
                return False
            # `ln < len(arr)` false
            cm = [s_ for s_ in b.blocks[u]["stmts"] if s_["k"] == "assign" and not s_["p"]["pr"] and is_place(d) and s_["p"]["l"] == d["p"]["l"] and s_["rv"]["k"] == "binop"]
            if not cm or cm[-1]["rv"]["op"] != "Lt":
                return False
            la = trace(b, cm[-1]["rv"]["a"])
            a_is_ln = (la.origin and la.origin[0] == "multi" and la.origin[1] == ln) or (is_place(cm[-1]["rv"]["a"]) and cm[-1]["rv"]["a"]["p"]["l"] == ln)
            cap = _byte_count(b, cm[-1]["rv"]["b"])
            m = re.match(r"^\[u8; (\d+)\]$", b.local_ty(arr))
            if not (a_is_ln and m and cap == int(m.group(1))):
                return False
    # `ln` only grows by the reads' results
    for db, _, kind, payload in b.whole_defs(ln):
        if db not in loop:
            if kind == "assign" and payload["rv"]["k"] == "use" and const_value(payload["rv"]["op"]) == 0:
                continue
            return False
        if kind != "assign":
            return False
        tr = trace(b, payload["rv"]["op"]) if payload["rv"]["k"] == "use" else None
        if not (tr and tr.origin and tr.origin[0] == "rvalue" and tr.origin[1]["rv"]["k"] == "binop" and tr.origin[1]["rv"]["op"].startswith("Add")):
            return False
        x, y = tr.origin[1]["rv"]["a"], tr.origin[1]["rv"]["b"]
        xt = trace(b, x)
        if not ((xt.origin and xt.origin[0] == "multi" and xt.origin[1] == ln) or (is_place(x) and x["p"]["l"] == ln)):
            return False
        yt = trace(b, y, passthrough_extra=("std::ops::Try::branch",))
        if not (yt.origin and yt.origin[0] == "call" and yt.origin[2] is rt_ and any(s_[0] == "downcast" and s_[1] in ("Ok", "Continue") for s_ in yt.steps)):
            return False
    return True


def _loop_fill(b, bl, bb, need):
    """(ok, detail) when every path to block bb either hands local buffer `bl` the bytes a complete read loop put
    into a `[u8; K]` array (K >= need), or passes the evidence that the stream is empty (`fill_buf()` returned an
    empty slice before anything was consumed); None when no such fill is found."""
    import r_c04

    fills = []
    for cb, ct in b.calls():
        f = fn_of(ct) or {}
        if not (f.get("local") and len(ct["args"]) == 2 and is_place(ct["args"][0])):
            continue
        rt = trace(b, ct["args"][0])
        rl = rt.origin[2]["dest"]["l"] if rt.origin and rt.origin[0] == "call" else (rt.origin[1] if rt.origin and rt.origin[0] == "multi" else None)
        if rl != bl or not any(s_[0] == "ref" for s_ in rt.steps):
            continue
        at = trace(b, ct["args"][1])
        if not (at.origin and at.origin[0] == "call" and (fn_of(at.origin[2]) or {}).get("trait") == "std::ops::Index"):
            continue
        ix = at.origin[2]
        arr = r_c04._slice_root(b, ix["args"][0])
        m = re.match(r"^\[u8; (\d+)\]$", b.local_ty(arr)) if arr is not None else None
        xt = trace(b, ix["args"][1])
        if not (m and int(m.group(1)) >= need and xt.origin and xt.origin[0] == "agg" and xt.origin[1]["rv"].get("adt", "").endswith("RangeTo")):
            continue
        o0 = xt.origin[1]["rv"]["ops"][0]
        t0 = trace(b, o0)
        ln = t0.origin[1] if t0.origin and t0.origin[0] == "multi" else (o0["p"]["l"] if is_place(o0) and not o0["p"]["pr"] else None)
        if ln is None:
            continue
        fills.append((cb, _read_loop_complete(b, arr, ln, cb), int(m.group(1))))
    if not fills:
        return None
    good = [cb for cb, ok_, _ in fills if ok_]
    # evidence of an empty stream: the true edge of `is_empty()` on the slice fill_buf returned
    eof = []
    for sb, st in b.calls():
        f = fn_of(st) or {}
        if f.get("name") == "is_empty" and f.get("def", "").startswith("core::slice") and st["args"] and _fill_buf_head(b, st["args"][0]) is not None:
            sw = b.blocks[st["target"]]["term"]
            if sw["k"] == "switch" and is_place(sw["discr"]) and sw["discr"]["p"]["l"] == st["dest"]["l"]:
                tgt = sw["otherwise"]
                if len(b.pred(tgt)) == 1:
                    eof.append(tgt)
    covered = b.must_pass(0, [bb], good + eof)
    if not all(ok_ for _, ok_, _ in fills):
        return (False, "the detection buffer is filled from a read that may stop short of the buffer's length although more of the stream follows (a single read is not a fill)")
    return (covered, f"buffer filled by a read loop that ends only when {fills[0][2]} bytes are in or the source returned 0" + (" (or left empty where fill_buf showed the stream to be empty)" if eof else "") if covered else "a path reaches the detector with a buffer that was neither filled completely nor shown to be all there is")


@rule("R07.6", 2, "the encoding detector always sees the first 4 bytes (or the whole input if shorter): whole slice, prefix(N>=4), or a buffer filled by copying from take(N>=4)", ["C07", "C02", "C09"])
def r07_6(ctx):
    lib = ctx.lib
    d = detect_fn(lib)
    need = 4

    def classify(b, bb, op, depth=0):
        """[(ok, detail, body, bb)] for the bytes reaching the detector through `op` at block bb of b."""
        tr = trace(b, op)
        ok = False
        det = f"detector input originates from {tr.origin[0] if tr.origin else '?'}"
        if any(s[0] == "downcast" and s[1] in _mem_variants(ctx.facts) for s in tr.steps):
            return [(True, "whole input slice", b, bb)]
        if tr.origin and tr.origin[0] == "arg" and depth < 3 and all(s[0] in ("use", "ref", "deref") for s in tr.steps):
            # a helper that receives the bytes: judge every caller's operand
            out = []
            for cb in lib.bodies:
                for cbb, ct in cb.calls():
                    cf = fn_of(ct) or {}
                    if (cf.get("resolved") or cf.get("def")) == b.id and len(ct["args"]) >= tr.origin[1]:
                        out += classify(cb, cbb, ct["args"][tr.origin[1] - 1], depth + 1)
            return out or [(False, f"helper {b.name} receives the detector input but has no resolved caller", b, bb)]
        if tr.origin and tr.origin[0] == "call":
            src = tr.origin[2]
            sf = fn_of(src) or {}
            cb = lib.by_id.get(sf.get("resolved") or sf.get("def"))
            head = _peeked_head_prefix(b, tr.origin[1], src, need)
            if head is not None:
                return [(head[0], head[1], b, bb)]
            pw = _prefix_or_whole(b, src, need)
            if pw is not None:
                if not pw[0]:
                    return [(False, pw[1], b, bb)]
                return [(ok_ and True, f"first {pw[2]} bytes of, or all of: " + det_, sb_, sbb_) for ok_, det_, sb_, sbb_ in classify(b, bb, pw[3], depth + 1)]
            if common.is_prefix_accessor(lib, cb) and len(src["args"]) == 2:
                c = trace(b, src["args"][1])
                v = c.origin[1].get("v") if c.origin and c.origin[0] == "const" else None
                ok = isinstance(v, int) and v >= need and any(s[0] == "downcast" and s[1] in ("Continue", "Ok") for s in tr.steps)
                det = f"prefix({v}) of the handle (captures at least that many bytes unless the source ends)"
            elif cb and src["args"]:
                # accessor of a local buffer: the buffer must have been filled by io::copy from take(N)
                buf = trace(b, src["args"][0])
                bl = buf.origin[2]["dest"]["l"] if buf.origin and buf.origin[0] == "call" else (buf.origin[1] if buf.origin and buf.origin[0] == "multi" else None)
                got = copy_fill(b, bl, bb)
                if got is None and buf.origin and buf.origin[0] == "call":
                    # the buffer is produced by a same-crate helper (`let prefix = read_prefix(&mut reader)?`):
                    # the helper must fill the buffer it returns the same way, before returning it
                    hf = fn_of(buf.origin[2]) or {}
                    hb = lib.by_id.get(hf.get("resolved") or hf.get("def"))
                    if hb is not None and hf.get("local"):
                        for dbb, idx, kind, payload in hb.whole_defs(0):
                            if kind != "assign" or payload["rv"]["k"] != "aggregate" or payload["rv"].get("variant") not in ("Ok", "Some", None) or not payload["rv"]["ops"]:
                                continue
                            rt = trace(hb, payload["rv"]["ops"][0])
                            rl = rt.origin[2]["dest"]["l"] if rt.origin and rt.origin[0] == "call" else None
                            if rl is not None and all(s_[0] == "use" for s_ in rt.steps):
                                got = copy_fill(hb, rl, dbb) or got
                if got is None and bl is not None:
                    got = _loop_fill(b, bl, bb, need)
                if got is not None:
                    ok, det = got
            elif sf.get("def", "").startswith("std::vec::Vec::<T>::") and sf.get("name") in ("new", "with_capacity") and not src["dest"]["pr"]:
                # a fresh Vec: it must have been filled by a draining read of take(N) before the detector sees it
                got = copy_fill(b, src["dest"]["l"], bb)
                if got is not None:
                    ok, det = got
                else:
                    det = "detector input is a new Vec that no draining read of `take(N)` filled on the way here"
            else:
                det = f"detector input comes from {sf.get('def')}: a single read/fill_buf may return fewer than {need} bytes of a longer stream"
        return [(ok, det, b, bb)]

    def copy_fill(b, bl, bb):
        """(ok, detail) when local buffer `bl` of body b is filled, before block bb, by a checked
        io::copy(reader.take(N), &mut bl); None when no such copy is found."""
        import r_bin

        for cb2, ct in b.calls():
            cf = fn_of(ct) or {}
            if cf.get("def") == "std::io::copy" and b.dominates(cb2, bb):
                w = trace(b, ct["args"][1])
                wl = w.origin[2]["dest"]["l"] if w.origin and w.origin[0] == "call" else None
                r = trace(b, ct["args"][0])
                if wl is not None and wl == bl and r.origin and r.origin[0] == "call" and (fn_of(r.origin[2]) or {}).get("def") == "std::io::Read::take":
                    lv = trace(b, r.origin[2]["args"][1])
                    v = lv.origin[1].get("v") if lv.origin and lv.origin[0] == "const" else None
                    sws = r_bin.result_switches(b, ct["dest"]["l"])
                    after_ok = any(oks and all(b.dominates(o, bb) for o in oks[:1]) for _, _, oks in sws)
                    return (isinstance(v, int) and v >= need and after_ok, f"buffer filled by io::copy(reader.take({v}), ..) (loops until {v} bytes or EOF)")
            if cf.get("trait") == "std::io::Read" and cf.get("name") == "read_to_end" and len(ct["args"]) == 2 and b.dominates(cb2, bb):
                # `reader.take(N).read_to_end(&mut bl)`: the same drain, written as a method
                w = trace(b, ct["args"][1])
                wl = w.origin[2]["dest"]["l"] if w.origin and w.origin[0] == "call" else (w.origin[1] if w.origin and w.origin[0] == "multi" else None)
                r = trace(b, ct["args"][0])
                if wl is not None and wl == bl and r.origin and r.origin[0] == "call" and (fn_of(r.origin[2]) or {}).get("def") == "std::io::Read::take":
                    lv = trace(b, r.origin[2]["args"][1])
                    v = lv.origin[1].get("v") if lv.origin and lv.origin[0] == "const" else None
                    sws = r_bin.result_switches(b, ct["dest"]["l"])
                    after_ok = any(oks and all(b.dominates(o, bb) for o in oks[:1]) for _, _, oks in sws)
                    return (isinstance(v, int) and v >= need and after_ok, f"buffer filled by reader.take({v}).read_to_end(..) (reads until {v} bytes or EOF)")
        return None

    n = 0
    for b in lib.bodies:
        for bb, t in b.calls():
            f = fn_of(t) or {}
            if (f.get("resolved") or f.get("def")) != d.id:
                continue
            n += 1
            if b.raw["def_kind"] == "Closure":
                # the detector is consulted inside a closure (`.filter(|_| matches!(Encoding::detect(&b), ..))`): what it
                # is given is a captured variable of the enclosing function
                root = b
                while root.raw["def_kind"] == "Closure" and root.raw.get("parent") in lib.by_id:
                    root = lib.by_id[root.raw["parent"]]
                csup = Super(lib, root, depth=2)
                cn = [nn for nn, nb, tt in csup.calls() if tt is t]
                if cn:
                    ctr = strace(csup, cn[0], t["args"][0], extra=("std::ops::Deref::deref",))
                    if any(s_[0] == "downcast" and s_[1] in _mem_variants(ctx.facts) for s_ in ctr.steps):
                        ctx.ob(f"detect-input:{root.name}", True, site(b, bb), "whole input slice (captured by the closure that consults the detector)")
                        continue
            for ok, det, sb, sbb in classify(b, bb, t["args"][0]):
                ctx.ob(f"detect-input:{sb.name}", ok, site(sb, sbb), det)
    ctx.ob("detect-call-sites", n >= 2, "lib", f"{n} call site(s) of the encoding detector")
