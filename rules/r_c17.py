"""C17 — memory safety of the YAML parser binding and decoders (xt's own unsafe code)."""
import json
import os

from engine import rule, AnchorLost, VERIF
from model import fn_of, trace, is_place, site, const_value
import common
import deny

BOX_INTERNALS = ("std::boxed::Box", "std::ptr::Unique", "std::ptr::NonNull")


def _is_box_deref(b, place):
    """A raw-pointer deref that is just the lowering of a Box deref."""
    tr = trace(b, {"k": "copy", "p": {"l": place["l"], "pr": []}})
    return any(s[0] == "field" and s[2] in BOX_INTERNALS for s in tr.steps)


def _places_of_stmt(s):
    ps = []
    if s["k"] == "assign":
        ps.append(s["p"])
        rv = s["rv"]
        if "p" in rv:
            ps.append(rv["p"])
        for o in ("op", "a", "b"):
            if o in rv and isinstance(rv[o], dict) and rv[o].get("k") in ("copy", "move"):
                ps.append(rv[o]["p"])
        if rv["k"] == "aggregate":
            for o in rv["ops"]:
                if o.get("k") in ("copy", "move"):
                    ps.append(o["p"])
    return ps


_RS = {}


def read_state_adt(crate):
    """The struct shared with libyaml's read callback through a raw pointer: the local struct that holds the
    bounce vector and the stashed io::Error (recognised by its field types, not by its name)."""
    k = id(crate)
    if k not in _RS:
        cands = []
        for p_, a in crate.adts.items():
            if a["crate"] != "xt" or a["kind"] != "struct":
                continue
            tys = [f["ty"] for f in a["variants"][0]["fields"]]
            if "std::vec::Vec<u8>" in tys and "std::option::Option<std::io::Error>" in tys:
                cands.append(p_)
        _RS[k] = cands[0] if len(cands) == 1 else None
    return _RS[k]


def _role_ty(crate, ty):
    """Type string with the read-state struct's path replaced by a role token (rename-proof table keys)."""
    rs = read_state_adt(crate)
    return ty.replace(rs, "<read-state>") if rs else ty


def inventory(crate):
    """{function: {op: count}} of user-written unsafe operations (macro expansions of core's
    formatting machinery and Box-deref lowerings excluded)."""
    inv = {}
    for b in crate.bodies:
        ops = {}

        def add(op):
            ops[op] = ops.get(op, 0) + 1

        for bi in sorted(b.reach()):
            blk = b.blocks[bi]
            for s in blk["stmts"]:
                if s.get("exp"):
                    continue
                if s["k"] == "copy_nonoverlapping":
                    add("intrinsic copy_nonoverlapping")
                for p in _places_of_stmt(s):
                    for i, e in enumerate(p["pr"]):
                        if e["k"] == "deref" and e.get("raw"):
                            if i == 0 and _is_box_deref(b, p):
                                continue
                            add("deref " + _role_ty(b.crate, e["of"]))
            t = blk["term"]
            if t["k"] == "call" and not t.get("exp"):
                f = fn_of(t)
                if f and f.get("unsafe"):
                    add("call " + f["def"])
                for a in t["args"]:
                    if a.get("k") in ("copy", "move"):
                        for i, e in enumerate(a["p"]["pr"]):
                            if e["k"] == "deref" and e.get("raw") and not (i == 0 and _is_box_deref(b, a["p"])):
                                add("deref " + _role_ty(b.crate, e["of"]))
            for s in blk["stmts"]:
                if s["k"] == "assign" and s["rv"]["k"] == "cast" and s["rv"]["cast"] == "Transmute" and not s.get("exp"):
                    # debug builds add pointer-alignment checks that transmute pointers to usize: internal
                    if s["rv"]["ty"] == "usize" and s["rv"]["from_ty"].startswith("*const ()"):
                        continue
                    if _is_boxish(s["rv"]["from_ty"]):
                        continue
                    add(f"transmute {s['rv']['from_ty']} -> {s['rv']['ty']}")
        if ops:
            inv[b.id] = ops
    return inv


def _is_boxish(ty):
    return ty.startswith("std::ptr::NonNull<") or ty.startswith("std::ptr::Unique<") or ty.startswith("std::boxed::Box<")


def _reviewed():
    return json.load(open(os.path.join(VERIF, "tables", "unsafe_ops.json")))


@rule("R17.1", 20, "unsafe inventory: every unsafe operation of both crates is in the reviewed table; deny-listed producers have zero sites", ["C17"])
def r17_1(ctx):
    rv = _reviewed()
    for crate in (ctx.lib, ctx.bin):
        want = rv[crate.kind]
        inv = inventory(crate)
        per_file = {}
        for fn, ops in sorted(inv.items()):
            b = crate.by_id[fn]
            for op, cnt in ops.items():
                e = per_file.setdefault(b.file, {}).setdefault(op, [0, b, []])
                e[0] += cnt
                e[2] += [b.name] * cnt
        # code that moved to another file keeps its function name: an operation in excess in file B, function f,
        # is covered by the entry of a file A that names `f` and now has fewer sites than reviewed
        spare = {}
        for f, ops in want.items():
            for op, e in ops.items():
                left = e.get("count", 0) - per_file.get(f, {}).get(op, [0])[0]
                if left > 0:
                    spare[(f, op)] = [left, {seg.split(":")[0].strip() for seg in e.get("why", "").split(" | ")}]
        moved_files = set()
        for f, ops in sorted(per_file.items()):
            for op, (cnt, b, names) in sorted(ops.items()):
                allowed = want.get(f, {}).get(op, {}).get("count", 0)
                need = max(0, cnt - allowed)
                donors = []
                if need:
                    for nm in sorted(names, key=lambda x: 0 if any(x in ent[1] for (g, o2), ent in spare.items() if o2 == op and g != f) else 1):
                        if need == 0:
                            break
                        for (g, o2), ent in spare.items():
                            if o2 == op and g != f and ent[0] > 0 and nm in ent[1]:
                                ent[0] -= 1
                                need -= 1
                                donors.append(g)
                                break
                ok = need == 0
                if donors and ok:
                    moved_files.add(f)
                why = want.get(f, {}).get(op, {}).get("why") or (want.get(donors[0], {}).get(op, {}).get("why") if donors else None) or "NOT REVIEWED"
                note = f" ({len(donors)} moved here with their function from {sorted(set(donors))})" if donors else ""
                ctx.ob(f"{crate.kind}:{f}:{op}", ok, site(b), f"{cnt} site(s), reviewed: {allowed}{note} — {why[:300]}" if ok else f"unreviewed unsafe operation `{op}` in {f} ({cnt} site(s), {allowed} reviewed for this file)")
        # unsafe blocks / unsafe fns per file
        nblk = {}
        for u in crate.unsafe_blocks:
            if not u["from_expansion"]:
                nblk[u["span"]["file"]] = nblk.get(u["span"]["file"], 0) + 1
        rb = rv.get("unsafe_blocks", {}).get(crate.kind, {})
        blk_spare = sum(max(0, c - nblk.get(f, 0)) for f, c in rb.items())
        for f, n_ in sorted(nblk.items()):
            allowed = rb.get(f, 0)
            ok = n_ <= allowed
            if not ok and f in moved_files and n_ - allowed <= blk_spare:
                # the blocks came along with operations that were accounted for above
                blk_spare -= n_ - allowed
                ok = True
            ctx.ob(f"{crate.kind}:unsafe-blocks:{f}", ok, f, f"{n_} unsafe block(s), {allowed} reviewed for this file" + ("" if n_ <= allowed else " (the rest moved here with reviewed operations)") if ok else f"{n_} unsafe block(s) in {f}, only {allowed} reviewed")
        nfn = {}
        for b in crate.bodies:
            if b.raw.get("unsafe_fn"):
                nfn[b.file] = nfn.get(b.file, 0) + 1
        rf = rv.get(crate.kind + "_unsafe_fns", {})
        fn_spare = sum(max(0, c - nfn.get(f, 0)) for f, c in rf.items())
        for f, n_ in sorted(nfn.items()):
            allowed = rf.get(f, 0)
            ok = n_ <= allowed
            if not ok and f in moved_files and n_ - allowed <= fn_spare:
                fn_spare -= n_ - allowed
                ok = True
            ctx.ob(f"{crate.kind}:unsafe-fns:{f}", ok, f, f"{n_} `unsafe fn`(s), {allowed} reviewed" if ok else f"{n_} `unsafe fn`(s) in {f}, only {allowed} reviewed")
    hs = deny.hits(list(ctx.facts.all_bodies()), "unsafe-producers")
    hs = [h for h in hs if not h[3].get("exp")]
    for entry, b, bb, t in hs:
        ctx.ob(f"producer:{entry}:{b.name}", False, site(b, bb), f"`{fn_of(t)['def']}` used (deny-listed raw-memory producer)")
    ctx.ob("no-raw-memory-producers", not hs, "lib+bin", "slice::from_raw_parts*, set_len, transmute, ptr::read/write, zeroed, get_unchecked: 0 sites")
    deny.control_obligations(ctx, "unsafe-producers")
    if ctx.facts.controls:
        cinv = inventory(ctx.facts.controls)
        ops = {op.split(" ")[0] for v in cinv.values() for op in v}
        for kind in ("transmute", "deref", "call"):
            ctx.ob(f"control:inventory:{kind}", kind in ops, "tables/controls/src/lib.rs", f"inventory sees `{kind}` operations in the positive control", trivial=True)


def _nth_block(crate, u):
    same = [x for x in crate.unsafe_blocks if x["owner"] == u["owner"]]
    same.sort(key=lambda x: x["span"]["line"])
    return same.index(u)


def _callback(lib):
    cbs = [b for b in lib.bodies if b.raw.get("unsafe_fn") and any((fn_of(t) or {}).get("trait") == "std::io::Read" and fn_of(t)["name"] == "read" for _, t in b.calls())]
    if len(cbs) != 1:
        raise AnchorLost("read callback not found")
    return cbs[0]


@rule("R17.2", 7, "the bounce copy is bounded: copy_nonoverlapping and *size_read are dominated by read_len <= buffer_size, a resize to buffer_size and the null tests", ["C17"])
def r17_2(ctx):
    lib = ctx.lib
    cb = _callback(lib)
    copies = [(bb, t) for bb, t in cb.calls() if (fn_of(t) or {}).get("name") == "copy_nonoverlapping"]
    ctx.ob("copy-sites", len(copies) == 1, site(cb), f"{len(copies)} copy_nonoverlapping site(s)")
    rd = [(bb, t) for bb, t in cb.calls() if (fn_of(t) or {}).get("trait") == "std::io::Read" and fn_of(t)["name"] == "read"]
    ctx.need(len(rd) == 1, "exactly one Read::read call expected in the callback")
    rbb, rt = rd[0]
    # buffer_size: Ok payload of the checked conversion of the size argument (arg 3)
    conv = [(bb, t) for bb, t in cb.calls() if (fn_of(t) or {}).get("trait") == "std::convert::TryFrom" and is_place(t["args"][0]) and trace(cb, t["args"][0]).origin == ("arg", 3)]
    ctx.ob("size-argument-checked-conversion", len(conv) == 1, site(cb), "buffer_size = usize::try_from(size argument)" if conv else "the size argument is not converted with a checked conversion")
    if not conv:
        return
    cvt = conv[0][1]

    def is_bufsize(op):
        tr = trace(cb, op)
        return bool(tr.origin and tr.origin[0] == "call" and tr.origin[2] is cvt and any(s[0] == "downcast" and s[1] == "Ok" for s in tr.steps))

    def exact_slice_root(l):
        """Local l is (a reborrow of) `&x[..buffer_size]`: a slice of exactly buffer_size bytes (the indexing would
        have panicked otherwise)."""
        import r_c04

        root = r_c04._slice_root(cb, {"k": "copy", "p": {"l": l, "pr": []}})
        if root is None:
            return False
        ds = cb.whole_defs(root)
        if len(ds) != 1 or ds[0][2] != "call":
            return False
        it = ds[0][3]
        if_ = fn_of(it) or {}
        if if_.get("trait") not in ("std::ops::Index", "std::ops::IndexMut") or len(it["args"]) != 2:
            return False
        rt_ = trace(cb, it["args"][1])
        return bool(rt_.origin and rt_.origin[0] == "agg" and rt_.origin[1]["rv"].get("adt", "").endswith("RangeTo") and rt_.origin[1]["rv"]["ops"] and is_bufsize0(rt_.origin[1]["rv"]["ops"][0]))

    is_bufsize0 = is_bufsize

    def is_bufsize(op):  # noqa: F811
        if is_bufsize0(op):
            return True
        # `bounce.len()` with `bounce = &mut bouncer[..buffer_size]`
        import r_c04

        sl = r_c04._len_of(cb, op)
        return sl is not None and exact_slice_root(sl)

    # vectors known to hold exactly buffer_size bytes when the reader is called: every path to the read passes a
    # `v.resize(buffer_size, _)`, or a `v.truncate(buffer_size)` taken where `v.len() >= buffer_size`, or skips both
    # over the edge on which `v.len() == buffer_size`
    def _vec_field(op):
        fs = [q[1] for q in trace(cb, op).steps if q[0] == "field"]
        return fs[0] if fs else None

    def _len_cmp_edges(fld):
        """{'ge': [...], 'eq': [...]}: CFG edges on which len(self.<fld>) >= / == buffer_size is known."""
        out = {"ge": [], "eq": []}
        for sb_ in sorted(cb.reach()):
            sw_ = cb.blocks[sb_]["term"]
            if sw_["k"] != "switch" or not is_place(sw_["discr"]) or sw_["discr"]["p"]["pr"]:
                continue
            zero_ = [tg for v_, tg in sw_["targets"] if v_ == 0]
            if not zero_:
                continue
            for st_ in cb.blocks[sb_]["stmts"]:
                if not (st_["k"] == "assign" and not st_["p"]["pr"] and st_["p"]["l"] == sw_["discr"]["p"]["l"] and st_["rv"]["k"] == "binop" and st_["rv"]["op"] in ("Eq", "Ne", "Lt", "Ge", "Le", "Gt")):
                    continue
                opn = st_["rv"]["op"]
                for x_, y_, flip in ((st_["rv"]["a"], st_["rv"]["b"], False), (st_["rv"]["b"], st_["rv"]["a"], True)):
                    if not is_bufsize0(y_):
                        continue
                    lt_ = trace(cb, x_)
                    if not (lt_.origin and lt_.origin[0] == "call" and (fn_of(lt_.origin[2]) or {}).get("name") == "len" and "Vec" in (fn_of(lt_.origin[2]) or {}).get("def", "") and lt_.origin[2]["args"] and _vec_field(lt_.origin[2]["args"][0]) == fld):
                        continue
                    t_e, f_e = (sb_, sw_["otherwise"]), (sb_, zero_[0])
                    rel = opn if not flip else {"Lt": "Gt", "Gt": "Lt", "Le": "Ge", "Ge": "Le", "Eq": "Eq", "Ne": "Ne"}[opn]
                    # rel: len REL size
                    if rel == "Eq":
                        out["eq"].append(t_e)
                    elif rel == "Ne":
                        out["eq"].append(f_e)
                    elif rel == "Lt":
                        out["ge"].append(f_e)
                    elif rel == "Ge":
                        out["ge"].append(t_e)
        return out

    exact_fields = set()
    _cands = {}
    for bb_, t_ in cb.calls():
        f_ = fn_of(t_) or {}
        if f_.get("name") in ("resize", "truncate") and "Vec" in f_.get("def", "") and len(t_["args"]) >= 2 and is_bufsize(t_["args"][1]):
            fld_ = _vec_field(t_["args"][0])
            if fld_:
                _cands.setdefault(fld_, []).append((bb_, f_["name"]))
    for fld_, cs_ in _cands.items():
        ce_ = _len_cmp_edges(fld_)
        est_blocks = [bb_ for bb_, nm_ in cs_ if nm_ == "resize"]
        for bb_, nm_ in cs_:
            if nm_ == "truncate" and ce_["ge"] and bb_ not in cb.reachable_from(0, removed_edges=ce_["ge"]):
                est_blocks.append(bb_)
        if rbb not in cb.reachable_from(0, removed_nodes=est_blocks, removed_edges=ce_["eq"]):
            exact_fields.add(fld_)

    is_bufsize1 = is_bufsize

    def is_bufsize(op):  # noqa: F811
        if is_bufsize1(op):
            return True
        # `v.len()` of a vector that holds exactly buffer_size bytes (see above)
        lt_ = trace(cb, op)
        return bool(lt_.origin and lt_.origin[0] == "call" and (fn_of(lt_.origin[2]) or {}).get("name") == "len" and "Vec" in (fn_of(lt_.origin[2]) or {}).get("def", "") and lt_.origin[2]["args"] and _vec_field(lt_.origin[2]["args"][0]) in exact_fields)

    def is_readlen(op):
        tr = trace(cb, op)
        return bool(tr.origin and tr.origin[0] == "call" and tr.origin[2] is rt and any(s[0] == "downcast" and s[1] == "Ok" for s in tr.steps))

    # guard edges: switch on Le(read_len, buffer_size) / Lt(...,+1) / Ge(buffer_size, read_len)
    guards = []
    for bi in sorted(cb.reach()):
        sw = cb.blocks[bi]["term"]
        if sw["k"] != "switch":
            continue
        for s in cb.blocks[bi]["stmts"]:
            if s["k"] == "assign" and s["rv"]["k"] == "binop":
                op, a, b_ = s["rv"]["op"], s["rv"]["a"], s["rv"]["b"]
                if (op == "Le" and is_readlen(a) and is_bufsize(b_)) or (op == "Ge" and is_bufsize(a) and is_readlen(b_)):
                    guards.append((bi, "otherwise", sw["otherwise"]))
                elif (op == "Gt" and is_readlen(a) and is_bufsize(b_)) or (op == "Lt" and is_bufsize(a) and is_readlen(b_)):
                    z = [x for v, x in sw["targets"] if v == 0]
                    if z:
                        guards.append((bi, 0, z[0]))
    # resize of the bounce vector to buffer_size before the read
    resizes = []
    for bb, t in cb.calls():
        f = fn_of(t) or {}
        if f.get("name") == "resize" and "Vec" in f.get("def", "") and is_bufsize(t["args"][1]):
            tr = trace(cb, t["args"][0])
            fld = [s[1] for s in tr.steps if s[0] == "field"]
            resizes.append((bb, fld[0] if fld else None))
    # null tests
    nulls = {}
    for bb, t in cb.calls():
        f = fn_of(t) or {}
        if f.get("name") == "is_null" and is_place(t["args"][0]):
            tr = trace(cb, t["args"][0])
            if tr.origin and tr.origin[0] == "arg":
                sw = cb.blocks[t["target"]]["term"]
                if sw["k"] == "switch":
                    z = [x for v, x in sw["targets"] if v == 0]
                    if z:
                        nulls[tr.origin[1]] = (t["target"], 0, z[0])
    sites = []
    for bb, t in copies:
        sites.append(("copy", bb, t["args"][2], t["args"][0], t["args"][1]))
    # the store through the size_read pointer (raw deref of arg 4)
    for bi in sorted(cb.reach()):
        for s in cb.blocks[bi]["stmts"]:
            if s["k"] == "assign" and s["p"]["pr"] and s["p"]["pr"][0]["k"] == "deref" and s["p"]["pr"][0].get("raw") and trace(cb, {"k": "copy", "p": {"l": s["p"]["l"], "pr": []}}).origin == ("arg", 4):
                cnt = s["rv"]["op"] if s["rv"]["k"] in ("use", "cast") else None
                sites.append(("size_read-store", bi, cnt, None, None))
    ctx.ob("size_read-store-found", any(k == "size_read-store" for k, *_ in sites), site(cb), "store through the size_read pointer located")
    for kind, bb, cnt, src, dst in sites:
        ok_cnt = cnt is not None and is_readlen(cnt)
        ctx.ob(f"{kind}:count-is-read_len", ok_cnt, site(cb, bb), "the byte count is the reader's reported length" if ok_cnt else "the byte count does not derive from the read result")
        ok_g = bool(guards) and bb not in cb.reachable_from(0, removed_edges=guards)
        ctx.ob(f"{kind}:guarded-by-len-le-size", ok_g, site(cb, bb), "reached only when read_len <= buffer_size" if ok_g else "reachable without the read_len <= buffer_size test: a reader that over-reports its length overruns the buffers")
        if kind == "copy":
            s_tr = trace(cb, src, passthrough_extra=("std::vec::Vec::<T, A>::as_ptr", "as_ptr"))
            sfld = [s[1] for s in s_tr.steps if s[0] == "field"]
            ok_src = bool(sfld) and any(r[1] == sfld[0] and cb.dominates(r[0], bb) and cb.dominates(r[0], rbb) for r in resizes)
            det_src = f"source = self.{sfld[:1]} resized to buffer_size before the read"
            if not ok_src and sfld and sfld[0] in exact_fields:
                ok_src = True
                det_src = f"source = self.{sfld[:1]}, brought to exactly buffer_size bytes on every path to the read (resize when shorter, truncate when longer)"
            if not ok_src and sfld and any(r[1] == sfld[0] for r in resizes):
                # `if v.len() != buffer_size { v.resize(buffer_size, 0) }`: the resize is skipped only over the edge on
                # which the vector already has exactly that length
                eq_edges = []
                for sb_ in sorted(cb.reach()):
                    sw_ = cb.blocks[sb_]["term"]
                    if sw_["k"] != "switch" or not is_place(sw_["discr"]) or sw_["discr"]["p"]["pr"]:
                        continue
                    for st_ in cb.blocks[sb_]["stmts"]:
                        if not (st_["k"] == "assign" and not st_["p"]["pr"] and st_["p"]["l"] == sw_["discr"]["p"]["l"] and st_["rv"]["k"] == "binop" and st_["rv"]["op"] in ("Eq", "Ne")):
                            continue
                        for x_, y_ in ((st_["rv"]["a"], st_["rv"]["b"]), (st_["rv"]["b"], st_["rv"]["a"])):
                            if not is_bufsize(y_):
                                continue
                            lt_ = trace(cb, x_)
                            if lt_.origin and lt_.origin[0] == "call" and (fn_of(lt_.origin[2]) or {}).get("name") == "len" and "Vec" in (fn_of(lt_.origin[2]) or {}).get("def", "") and lt_.origin[2]["args"]:
                                vf_ = [q[1] for q in trace(cb, lt_.origin[2]["args"][0]).steps if q[0] == "field"]
                                if vf_[:1] == sfld[:1]:
                                    zero_ = [tg for v_, tg in sw_["targets"] if v_ == 0]
                                    if st_["rv"]["op"] == "Ne" and zero_:
                                        eq_edges.append((sb_, zero_[0]))
                                    elif st_["rv"]["op"] == "Eq" and zero_:
                                        eq_edges.append((sb_, sw_["otherwise"]))
                rblocks = [r[0] for r in resizes if r[1] == sfld[0]]
                if eq_edges and rbb not in cb.reachable_from(0, removed_nodes=rblocks, removed_edges=eq_edges):
                    ok_src = True
                    det_src = f"source = self.{sfld[:1]}, resized to buffer_size before the read unless it already has exactly that length"
            if not ok_src:
                # or the very slice of exactly buffer_size bytes that was lent to the reader
                pt = trace(cb, src)
                if pt.origin and pt.origin[0] == "call" and (fn_of(pt.origin[2]) or {}).get("name") == "as_ptr" and pt.origin[2]["args"] and is_place(pt.origin[2]["args"][0]):
                    import r_c04

                    sroot = r_c04._slice_root(cb, pt.origin[2]["args"][0])
                    rroot = r_c04._slice_root(cb, rt["args"][1])
                    if sroot is not None and exact_slice_root(sroot) and sroot == rroot:
                        ok_src = True
                        det_src = "source = the slice of exactly buffer_size bytes that was lent to the reader"
            if not ok_src and sfld:
                # the reader was lent `&mut v[..buffer_size]` of the very vector the copy reads from: the slice has
                # exactly buffer_size bytes (the indexing itself checks that the vector is that long), and what is
                # copied is at most read_len <= buffer_size bytes from the vector's start
                import r_c04

                rroot = r_c04._slice_root(cb, rt["args"][1])
                if rroot is not None and exact_slice_root(rroot):
                    ixc = cb.whole_defs(r_c04._slice_root(cb, {"k": "copy", "p": {"l": rroot, "pr": []}}))
                    if len(ixc) == 1 and ixc[0][2] == "call":
                        vf_ = [q[1] for q in trace(cb, ixc[0][3]["args"][0]).steps if q[0] == "field"]
                        if vf_[:1] == sfld[:1] and cb.dominates(ixc[0][0], bb):
                            ok_src = True
                            det_src = f"source = self.{sfld[:1]}, of which the reader was lent exactly `[..buffer_size]` (the vector is at least that long)"
            ctx.ob("copy:source-is-resized-bounce-buffer", ok_src, site(cb, bb), det_src if ok_src else "the copy source is not the bounce vector resized to buffer_size")
            d_tr = trace(cb, dst)
            ok_dst = d_tr.origin == ("arg", 2) and 2 in nulls and cb.edge_dominates(nulls[2][0], nulls[2][1], nulls[2][2], bb)
            ctx.ob("copy:destination-null-checked", ok_dst, site(cb, bb), "destination is libyaml's buffer argument, tested non-null")
        else:
            ok_n = 4 in nulls and cb.edge_dominates(nulls[4][0], nulls[4][1], nulls[4][2], bb)
            ctx.ob("size_read-store:pointer-null-checked", ok_n, site(cb, bb), "size_read pointer tested non-null")
    # the state pointer is null-checked before its deref
    for bi in sorted(cb.reach()):
        for s in cb.blocks[bi]["stmts"]:
            for p in _places_of_stmt(s):
                if p["pr"] and p["pr"][0]["k"] == "deref" and p["pr"][0].get("raw") and (read_state_adt(lib) or "?") in p["pr"][0]["of"]:
                    tr = trace(cb, {"k": "copy", "p": {"l": p["l"], "pr": []}}, passthrough_extra=("cast",))
                    if tr.origin == ("arg", 1):
                        ok = 1 in nulls and cb.edge_dominates(nulls[1][0], nulls[1][1], nulls[1][2], bi)
                        ctx.ob("state-pointer-null-checked", ok, site(cb, bi), "read_state pointer tested non-null before it is dereferenced")
                        return


@rule("R17.3", 2, "no slicing of foreign memory: the reader only sees the bounce vector; the chunk reader appends through checked indexing", ["C17"])
def r17_3(ctx):
    lib = ctx.lib
    cb = _callback(lib)
    rd = [(bb, t) for bb, t in cb.calls() if (fn_of(t) or {}).get("trait") == "std::io::Read" and fn_of(t)["name"] == "read"][0]
    tr = trace(cb, rd[1]["args"][1])
    src = fn_of(tr.origin[2]) if tr.origin and tr.origin[0] == "call" else None
    ok = bool(src and "IndexMut" in src.get("trait", "") and "Vec" in src.get("self_ty", ""))
    ctx.ob("reader-gets-bounce-slice", ok, site(cb, rd[0]), "Read::read is handed `&mut bouncer[..]`" if ok else f"Read::read is handed memory from {src.get('def') if src else tr.origin}")
    # chunk reader
    crs = common.chunk_readers(ctx.facts)
    ctx.ob("chunk-reader-found", len(crs) == 1, "lib", f"{len(crs)} capturing reader(s) using extend_from_slice")
    for b in crs:
        for bb, t in b.calls():
            if (fn_of(t) or {}).get("name") == "extend_from_slice":
                tr = trace(b, t["args"][1])
                src = fn_of(tr.origin[2]) if tr.origin and tr.origin[0] == "call" else None
                ok = bool(src and src.get("trait", "").startswith("std::ops::Index") and src["name"] == "index")
                ctx.ob("chunk-reader:checked-indexing", ok, site(b, bb), "captured bytes are `&buf[..len]` through the bounds-checked Index impl (a lying reader panics cleanly)" if ok else f"captured bytes come from {src.get('def') if src else '?'}")


# libyaml's yaml_event_type_t (yaml.h; the numbering is part of its ABI) and which events carry heap allocations that
# only yaml_event_delete frees: document-start (version and tag directives), alias (anchor), scalar (anchor, tag,
# value), sequence-start and mapping-start (anchor, tag)
_YAML_EVENT_TYPES = {0: "NO_EVENT", 1: "STREAM_START", 2: "STREAM_END", 3: "DOCUMENT_START", 4: "DOCUMENT_END", 5: "ALIAS", 6: "SCALAR", 7: "SEQUENCE_START", 8: "SEQUENCE_END", 9: "MAPPING_START", 10: "MAPPING_END"}
_YAML_OWNING_EVENTS = (3, 5, 6, 7, 9)


def _event_types_not_deleted(b, delete_bb):
    """Owning event types for which Drop body b can reach its return without passing the delete call: the body is
    re-analysed once per type with the event's `type_` discriminant pinned (interval analysis, infeasible edges pruned)."""
    import ival

    tlocals = set()
    for bi in sorted(b.reach()):
        for s_ in b.blocks[bi]["stmts"]:
            if s_["k"] == "assign" and not s_["p"]["pr"] and s_["rv"]["k"] in ("discr", "use"):
                pl = s_["rv"]["p"] if s_["rv"]["k"] == "discr" else (s_["rv"]["op"]["p"] if is_place(s_["rv"]["op"]) else None)
                if pl and pl["pr"] and pl["pr"][-1].get("k") == "field" and pl["pr"][-1].get("name") == "type_":
                    tlocals.add(s_["p"]["l"])
    if not tlocals:
        # no test of the event type at all: the plain path rule decides
        return [] if b.must_pass(0, b.return_blocks(), [delete_bb]) else ["(all)"]
    out = []
    for v in _YAML_OWNING_EVENTS:
        iv = ival.Interval(b, assume={l: ((v, v),) for l in tlocals})
        feas = set(iv.entry) | set(iv.threaded)
        rets = [r for r in b.return_blocks() if r in feas]
        if rets and _reach_avoiding(b, feas, delete_bb, rets):
            out.append(_YAML_EVENT_TYPES[v])
    return out


def _reach_avoiding(b, feas, avoid, rets):
    r = b.reachable_from(0, removed_nodes=[x for x in range(len(b.blocks)) if x not in feas or x == avoid])
    return any(x in r for x in rets)


@rule("R17.4", 7, "ownership pairing and order: into_raw/from_raw pair up; libyaml parser deleted before its read state is freed; assume_init only after a successful parse", ["C17"])
def r17_4(ctx):
    lib = ctx.lib
    into = []
    frm = []
    for b in lib.bodies:
        for bb, t in b.calls():
            f = fn_of(t) or {}
            if f.get("def", "").startswith("std::boxed::Box") and f["name"] == "into_raw":
                into.append((b, bb, t))
            if f.get("def", "").startswith("std::boxed::Box") and f["name"] == "from_raw":
                frm.append((b, bb, t))
    ctx.ob("into_raw/from_raw-balanced", len(into) == len(frm) and len(into) >= 2, "lib", f"{len(into)} into_raw, {len(frm)} from_raw")
    drops = [b for b in lib.bodies if b.raw.get("impl_trait") == "std::ops::Drop"]
    for b, bb, t in frm:
        tr = trace(b, t["args"][0], passthrough_extra=("cast",))
        if tr.origin and tr.origin[0] == "call" and (fn_of(tr.origin[2]) or {}).get("name") == "into_raw":
            # round trip in one body: must be on the initialised edge
            inits = [(ib, it) for ib, it in b.calls() if (fn_of(it) or {}).get("name", "").endswith("_initialize")]
            ok = False
            for ib, it in inits:
                sw = b.blocks[it["target"]]["term"]
                if sw["k"] == "switch":
                    ok = b.edge_dominates(it["target"], "otherwise", sw["otherwise"], bb)
            ctx.ob(f"from_raw:{b.name}:round-trip-on-initialised-edge", ok, site(b, bb), "the uninitialised box is re-typed only after libyaml reported successful initialisation" if ok else "Box<MaybeUninit<_>> is re-typed as initialised without the success test")
        else:
            in_drop = b in drops
            fld = [s[1] for s in tr.steps if s[0] == "field"]
            ctx.ob(f"from_raw:{b.name}:in-drop", in_drop and bool(fld), site(b, bb), f"raw field `{fld[:1]}` is freed in Drop" if in_drop else "a raw pointer is re-boxed outside Drop (double free / use after free risk)")
            if in_drop:
                # no early way out of Drop: every path to its return frees the box (and deletes the parser)
                every = b.must_pass(0, b.return_blocks(), [bb])
                ctx.ob(f"from_raw:{b.name}:on-every-path-of-drop", every, site(b, bb), "Drop frees the read state on every path" if every else "Drop can return without freeing the read state (leak, and libyaml's parser keeps a dangling-to-be pointer alive)")
                for db, dt in b.calls():
                    if (fn_of(dt) or {}).get("name", "").endswith("_delete"):
                        every_d = b.must_pass(0, b.return_blocks(), [db])
                        ctx.ob(f"delete:{b.name}:on-every-path-of-drop", every_d, site(b, db), "Drop deletes libyaml's parser on every path" if every_d else "Drop can return without deleting libyaml's parser (its buffers leak)")
            dels = [(db, dt) for db, dt in b.calls() if (fn_of(dt) or {}).get("name", "").endswith("_delete")]
            ok = bool(dels) and all(b.dominates(db, bb) and db != bb for db, _ in dels)
            ctx.ob(f"from_raw:{b.name}:delete-before-free", ok, site(b, bb), "libyaml's parser is deleted before the read state it points to is freed" if ok else "the read state is freed while libyaml's parser may still reference it")
            # the producing into_raw: in a constructor, no panic-capable edge until the struct is built
            prod = [(pb, pbb, pt) for pb, pbb, pt in into if not any(trace(fb, ft["args"][0], passthrough_extra=("cast",)).origin == ("call", pbb, pt) for fb, _, ft in frm if fb is pb)]
            for pb, pbb, pt in prod:
                r = pb.reachable_from(pt["target"])
                risky = []
                for x in r:
                    tx = pb.blocks[x]["term"]
                    if tx["k"] == "assert" and tx["msg"] not in ("misaligned", "nullptr"):
                        # (misaligned / null-pointer checks are debug-only UB checks that abort without unwinding)
                        risky.append(f"assert({tx['msg']})@{tx['line']}")
                    if tx["k"] == "call":
                        fx = fn_of(tx) or {}
                        if fx.get("name") in ("unwrap", "expect", "panic", "panic_fmt", "begin_panic", "unwrap_failed", "expect_failed") or fx.get("diverges"):
                            risky.append(fx.get("def"))
                ctx.ob(f"into_raw:{pb.name}:no-panic-before-owner-exists", not risky, site(pb, pbb), "no panic-capable edge between into_raw and the construction of the owning struct" if not risky else f"a panic after into_raw would leak the read state: {risky}")
    # every raw-pointer field written by into_raw is freed by exactly one from_raw
    # assume_init only on the ok edge of the parse; event deleted only in its Drop
    for b in lib.bodies:
        for bb, t in b.calls():
            f = fn_of(t) or {}
            if f.get("name") == "assume_init":
                parses = [(pb, pt) for pb, pt in b.calls() if (fn_of(pt) or {}).get("crate") == "unsafe_libyaml" and fn_of(pt)["name"].endswith("_parse")]
                ok = False
                for pb, pt in parses:
                    sw = b.blocks[pt["target"]]["term"]
                    if sw["k"] == "switch":
                        ok = b.edge_dominates(pt["target"], "otherwise", sw["otherwise"], bb)
                ctx.ob(f"assume_init:{b.name}:after-successful-parse", ok, site(b, bb), "the event is assumed initialised only when yaml_parser_parse reported success" if ok else "assume_init on a path where libyaml did not initialise the event")
            if f.get("crate") == "unsafe_libyaml" and f.get("name") == "yaml_event_delete":
                ctx.ob(f"event_delete:{b.name}:only-in-drop", b in drops, site(b, bb), "events are deleted by their Drop impl only")
                if b in drops:
                    leaks = _event_types_not_deleted(b, bb)
                    ctx.ob(f"event_delete:{b.name}:for-every-owning-event-type", not leaks, site(b, bb),
                           "Drop reaches yaml_event_delete for every event type that owns heap data (document-start, alias, scalar, sequence-start, mapping-start)" if not leaks else
                           f"Drop can return without yaml_event_delete for event type(s) {leaks}: libyaml allocated their directives / anchor / tag / value, which now leak with every such event")


@rule("R17.5", 3, "who may dereference the shared read state: only the `&mut self` accessor and the callback; the parser runs only under `&mut self`", ["C17"])
def r17_5(ctx):
    lib = ctx.lib
    inv = inventory(lib)
    holders = {fn: ops for fn, ops in inv.items() if any(op.startswith("deref *mut") and "<read-state>" in op for op in ops)}
    cb = _callback(lib)
    others = [fn for fn in holders if fn != cb.id]
    ok = len(others) == 1 and lib.by_id[others[0]].local_ty(1).startswith("&mut ") and lib.by_id[others[0]].local_ty(0).startswith("&mut ")
    ctx.ob("deref-holders", ok, site(cb), f"read state dereferenced in: {sorted(holders)}" if ok else f"unexpected set of functions dereferencing the read state: {sorted(holders)}")
    for b in lib.bodies:
        for bb, t in b.calls():
            f = fn_of(t) or {}
            if f.get("crate") == "unsafe_libyaml" and f["name"].endswith("_parse"):
                # the enclosing function's parser argument must come from a `&mut self` field at every call site
                callers = [(cb2, cbb, ct) for cb2 in lib.bodies for cbb, ct in cb2.calls() if ((fn_of(ct) or {}).get("resolved") or (fn_of(ct) or {}).get("def")) == b.id]
                okc = bool(callers)
                for cb2, cbb, ct in callers:
                    tr = trace(cb2, ct["args"][0])
                    root = cb2
                    if cb2.raw.get("parent"):
                        root = lib.by_id.get(cb2.raw["root"], cb2)
                    if not (tr.origin and tr.origin[0] == "arg" and tr.origin[1] == 1 and cb2.local_ty(1).startswith("&mut ") and tr.has("field")):
                        okc = False
                ctx.ob(f"parse-under-exclusive-borrow:{b.name}", okc, site(b, bb), "the parser is driven only through `&mut self.parser` of a `&mut self` method" if okc else "yaml_parser_parse can run while another borrow of the parser state may be live")
    # the accessor's callers do not hold its result across a parse: result used only within the same statement chain
    acc = lib.by_id[others[0]] if others else None
    if acc:
        for b in lib.bodies:
            for bb, t in b.calls():
                if ((fn_of(t) or {}).get("resolved") or (fn_of(t) or {}).get("def")) == acc.id:
                    r = b.reachable_from(t["target"]) if t["target"] is not None else set()
                    parses = [x for x in r if (fn_of(b.blocks[x]["term"]) or {}).get("name", "").endswith("parse_next") or (fn_of(b.blocks[x]["term"]) or {}).get("name", "").endswith("_parse")]
                    ctx.ob(f"accessor-result-not-held-across-parse:{b.id.rsplit('::', 2)[-2] if b.raw.get('parent') else b.name}", not parses, site(b, bb), "no parse call follows while the accessor's &mut could be live in this body" if not parses else "a parse call is reachable after obtaining &mut ReadState in the same body", trivial=True)


@rule("R10.6", 1, "the reader behind the YAML parser is offered exactly as many bytes as libyaml asked for: the bounce vector has that length when it is lent to `read` (so a well-behaved reader that fills what it is given is never reported as misbehaving, and reader input is recognised like the same bytes in memory)", ["C10", "C02", "C09"])
def r10_6(ctx):
    # the obligation is R17.2's `copy:source-is-resized-bounce-buffer`, re-stated for the properties that depend on it
    # for a reason other than memory safety
    from engine import Ctx

    sub = Ctx(ctx.facts, ctx.config, "R17.2")
    r17_2(sub)
    pick = [o for o in sub.obs if o.key == "copy:source-is-resized-bounce-buffer"]
    ctx.need(pick, "R17.2's bounce-buffer obligation not produced")
    o = pick[0]
    ctx.ob("reader-offered-exactly-the-requested-size", o.ok, o.site,
           o.detail if o.ok else "the vector lent to the reader is not known to have exactly the length libyaml asked for: offered more, a reader that fills its buffer trips the read_len <= buffer_size guard and a valid YAML stream is rejected (\"misbehaving reader\"); detection then answers differently for a reader than for the same bytes in memory")
