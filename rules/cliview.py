"""Interprocedural view of the CLI's `main`: the inlined supergraph with the call sites the CLI rules
talk about, independent of how `main` is split into helper functions, closures or methods."""
import os
import re

from engine import AnchorLost
from model import Super, PathSens, fn_of, trace, strace, is_place, const_value, carriers, switches_on_carriers
import common


def stream_of(ty):
    if "Stderr" in ty:
        return "stderr"
    if "Stdout" in ty:
        return "stdout"
    return None


class _Reach(set):
    """A set of reached nodes that also remembers the path states in which each node was reached."""

    def __init__(self, states):
        super().__init__(states.keys())
        self.states = states


class CliView:
    def __init__(self, facts):
        self.facts = facts
        self.bin = facts.bin
        self.main = common.bin_main(facts)
        self.sup = Super(self.bin, self.main, depth=5)
        self.ps = PathSens(self.sup, payloads=True)
        self.nodes = self.sup.nodes()
        self.calls = self.sup.calls()
        self.translate = []
        self.flush = []
        self.new = []
        self.exits = []  # (node, code)
        self.stdin = []
        self.stdout_gets = []
        self.parse = []  # (node, body, term, callee_body)
        self.file_open = []
        self.mmap = []
        for n, b, t in self.calls:
            f = fn_of(t)
            if not f:
                continue
            d = f["def"]
            if f["crate"] == "xt" and not f["local"]:
                if f["name"].startswith("translate"):
                    self.translate.append((n, b, t))
                elif f["name"] == "flush":
                    self.flush.append((n, b, t))
                elif f["name"] == "new" and "Translator" in d:
                    self.new.append((n, b, t))
            if d == "std::process::exit":
                self.exits.append((n, const_value(t["args"][0]) if t["args"] else None))
            if d == "std::io::stdin":
                self.stdin.append((n, b, t))
            if d == "std::io::stdout":
                self.stdout_gets.append((n, b, t))
            if d.startswith("std::fs::File::open"):
                self.file_open.append((n, b, t))
            if d.startswith("memmap2::Mmap::map"):
                self.mmap.append((n, b, t))
            if f.get("local") and not n[0]:
                callee = self.bin.by_id.get(f.get("resolved") or d) or self.bin.by_id.get(d)
                if callee is not None:
                    rt = callee.local_ty(0)
                    # the argument parser: the function main calls that hands back a Result and drives a lexopt
                    # parser (whatever error type it reports its findings in)
                    if rt.startswith("std::result::Result<") and ("lexopt::Error" in rt or any((fn_of(tt) or {}).get("def", "").startswith("lexopt::Parser::from_") for _, _, tt in Super(self.bin, callee, depth=2).calls())):
                        self.parse.append((n, b, t, callee))
        self._writes = None
        self._entry = None

    # -- helpers

    def in_context_of(self, node, body_id):
        """The node lies inside an inlined instance of `body_id` (at any depth)."""
        return any(cs[2] == body_id for cs in node[0])

    def site(self, node):
        return self.sup.site(node)

    def terminals(self, starts):
        r = self.sup.reachable_from(list(starts))
        return r, [n for n in r if not self.sup.edges(n)]

    def exit_codes(self, node, states=None):
        """Set of exit codes process::exit can be called with at `node`: the constant argument, or the
        constants the argument is known to hold in the given (default: all reaching) path states; None in the
        set means 'not a known constant'."""
        for n, c in self.exits:
            if n == node and c is not None:
                return {c}
        b = self.sup.body_of(node)
        t = b.blocks[node[1]]["term"]
        if not t["args"]:
            return {None}
        out = set()
        sts = states if states is not None else self._states().get(node, [])
        for st in sts:
            f_end = dict(st)
            for s_ in b.blocks[node[1]]["stmts"]:
                self.ps._stmt(f_end, node[0], s_)
            f = self.ps._operand_fact(f_end, node[0], t["args"][0])[0]
            out.add(f[1] if f and f[0] == "const" else None)
        return out or {None}

    def is_exit(self, node, code=None, states=None):
        if states is not None or any(n == node and c is None for n, c in self.exits):
            if not any(n == node for n, _ in self.exits):
                return False
            cs = self.exit_codes(node, states)
            return code is None or cs == {code}
        return self._is_exit_const(node, code)

    def _is_exit_const(self, node, code=None):
        for n, c in self.exits:
            if n == node and (code is None or c == code):
                return True
        return False

    def writes(self):
        """[(node, stream, template, display_types)] for io::Write calls in the supergraph."""
        if self._writes is not None:
            return self._writes
        out = []
        for n, b, t in self.calls:
            if not common.is_io_write_call(t):
                continue
            f = fn_of(t)
            st = stream_of(f.get("self_ty", ""))
            path = n[0]
            # generic receiver: resolve through the chain of callers' type arguments
            k = len(path)
            while st is None and k > 0:
                caller_id, cbb, _ = path[k - 1]
                cb = self.sup.body_of((path[: k - 1], 0)) if k - 1 > 0 else self.sup.root
                cf = fn_of(cb.blocks[cbb]["term"]) or {}
                for a in cf.get("args", []):
                    st = st or stream_of(a)
                # also the operand types of the call (impl Trait parameters)
                for a in cb.blocks[cbb]["term"]["args"]:
                    if is_place(a):
                        st = st or stream_of(cb.local_ty(a["p"]["l"]))
                k -= 1
            tmpl = None
            dts = []
            if f["name"] == "write_fmt" and len(t["args"]) > 1:
                tmpl, dts = _expanded_template(self.sup, n, t["args"][1])
            elif f["name"] in ("write_all", "write") and len(t["args"]) > 1:
                # the bytes of a line assembled in a local array by a formatted write (`writeln!(&mut buf[..], ..)`
                # followed by `stderr.write_all(&buf[..len])`): the line's template is that write's
                got = _buffered_line_template(self.sup, n, b, t, self._states())
                if got:
                    tmpl, dts = got
            out.append((n, st, tmpl, dts))
        self._writes = out
        return out

    def err_continuations(self, node, term):
        """Where control goes when the Result produced by the call at `node` is an Err.
        Returns (inspected, err_edges, err_starts): edges (src,label,dst) of result switches taken on Err,
        and entry nodes of closures that run only on Err (unwrap_or_else & co.)."""
        if term["dest"]["pr"]:
            return False, [], []
        carr = carriers(self.sup, node, term["dest"]["l"])
        # only same-value carriers: drop locals reached through payload projections
        carr = self._same_value(node, term, carr)
        edges = []
        starts = []
        inspected = False
        for n, t, how in switches_on_carriers(self.sup, carr):
            if how != "discr":
                continue
            inspected = True
            b = self.sup.body_of(n)
            vals = [v for v, _ in t["targets"]]
            if 1 in vals:
                for v, tgt in t["targets"]:
                    if v == 1:
                        edges.append((n, 1, (n[0], tgt)))
            else:
                ob = b.blocks[t["otherwise"]]["term"]
                if ob["k"] != "unreachable":
                    edges.append((n, "otherwise", (n[0], t["otherwise"])))
        for n, b, t in self.calls:
            f = fn_of(t) or {}
            if not t["args"] or not is_place(t["args"][0]):
                continue
            if (n[0], t["args"][0]["p"]["l"]) not in carr:
                continue
            if f.get("def") in ("std::result::Result::<T, E>::unwrap_or_else", "std::result::Result::<T, E>::or_else", "std::result::Result::<T, E>::map_err"):
                for lab, m in self.sup.edges(n):
                    if lab == "maycall":
                        inspected = True
                        starts.append(m)
        return inspected, edges, starts

    # -- path-sensitive continuation after a failure

    def _states(self):
        if self._entry is None:
            self._entry = self.ps.explore([(self.sup.entry, {})])
        return self._entry

    def err_starts(self, node, term):
        """(inspected, starts): starts are ('edge', (src,label,dst)) / ('node', closure_entry)."""
        inspected, edges, starts = self.err_continuations(node, term)
        return inspected, [("edge", e) for e in edges] + [("node", s) for s in starts]

    def start_node(self, start):
        return start[1][2] if start[0] == "edge" else start[1]

    def reach(self, start, removed_nodes=(), removed_edges=()):
        """Nodes reachable (variant-aware: an Err returned through `?` stays an Err in the caller)
        after taking the failure continuation `start`."""
        ps = self.ps
        sts = []
        if start[0] == "edge":
            src, label, dst = start[1]
            for f in self._states().get(src, []):
                for lab, m, f2 in ps.step(src, f):
                    if m == dst and lab == label:
                        sts.append((m, f2))
        else:
            for f in self._states().get(start[1], []):
                sts.append((start[1], f))
        if not sts:
            return _Reach({})
        return _Reach(ps.explore(sts, removed_nodes, removed_edges))

    def fail_reach(self, node, removed_nodes=()):
        """Everything reachable after the (opaque) call at `node` has returned `Err`: the call's result is
        forced to the Err variant and exploration continues variant-aware from there. If the result is
        never looked at, this simply follows the normal continuation (and so reaches whatever comes next)."""
        ps = self.ps
        sts = []
        old_assume = ps.assume.get(node)
        ps.assume[node] = (("var", 1), None)
        try:
            for f in self._states().get(node, []):
                for lab, m, f2 in ps.step(node, f):
                    if lab in ("call", "maycall") or m in removed_nodes:
                        continue
                    sts.append((m, f2))
            res = ps.explore(sts, removed_nodes) if sts else {}
        finally:
            if old_assume is None:
                ps.assume.pop(node, None)
            else:
                ps.assume[node] = old_assume
        return _Reach(res)

    def reach_after(self, node, removed_nodes=(), removed_edges=()):
        """Nodes reachable after the call at `node` returned normally."""
        ps = self.ps
        sts = []
        for f in self._states().get(node, []):
            for lab, m, f2 in ps.step(node, f):
                if lab in ("call", "maycall"):
                    continue
                if m in removed_nodes or (node, lab, m) in removed_edges:
                    continue
                sts.append((m, f2))
        if not sts:
            return set()
        return set(ps.explore(sts, removed_nodes, removed_edges).keys())

    def reach_after_return(self, node, removed_nodes=(), removed_edges=()):
        """Like reach_after, for an inlined local call: starts where the callee returns into `node`'s target."""
        ps = self.ps
        b = self.sup.body_of(node)
        tgt = b.blocks[node[1]]["term"]["target"]
        if tgt is None:
            return set()
        tnode = (node[0], tgt)
        # "returned normally": states in which the call's own result is known to be Err are not part of it
        dest = b.blocks[node[1]]["term"]["dest"]
        dkey = (node[0], dest["l"]) if not dest["pr"] else None
        sts = [(tnode, f) for f in self._states().get(tnode, []) if not (dkey is not None and f.get(dkey) == ("var", 1) and b.local_ty(dest["l"]).startswith("std::result::Result<"))]
        if not sts:
            return _Reach({})
        return _Reach(ps.explore(sts, removed_nodes, removed_edges))

    def ends(self, reachset):
        """Nodes where a path ends: diverging calls (exit, panics) and the root's return; compiler-proved
        `unreachable` terminators (the otherwise-edge of an exhaustive match) are not ends."""
        out = []
        for n in reachset:
            if self.sup.edges(n):
                continue
            if self.sup.body_of(n).blocks[n[1]]["term"]["k"] == "unreachable":
                continue
            out.append(n)
        return out

    def _same_value(self, node, term, carr):
        """Filter carriers to those holding the Result itself (types that still look like a Result /
        ControlFlow of it or a reference to it)."""
        out = set()
        for path, l in carr:
            b = self.sup.body_of((path, 0)) if path else self.sup.root
            ty = b.local_ty(l)
            if "Result<" in ty or "ControlFlow<" in ty:
                out.add((path, l))
        return out


def _expanded_template(sup, node, args_op, depth=0):
    """(template text, display types) of a fmt::Arguments operand; a placeholder whose argument is itself a
    fmt::Arguments value (`writeln!(w, "{line}")` with `line: fmt::Arguments` built by the caller) is replaced by
    that value's own template."""
    tp = common.template_of_s(sup, node, args_op)
    if not tp:
        return None, []
    text = tp[1]
    onode, oterm = tp[2], tp[3]
    dts = []
    if tp[0] != "tmpl" or len(oterm["args"]) < 2:
        return text, dts
    ob = sup.body_of(onode)
    tr = strace(sup, onode, oterm["args"][1])
    subs = []
    if tr.origin and tr.origin[0] == "agg":
        abody = sup.body_of(tr.origin_node)
        for o in tr.origin[1]["rv"]["ops"]:
            t2 = strace(sup, tr.origin_node, o)
            sub = None
            if t2.origin and t2.origin[0] == "call":
                af = fn_of(t2.origin[2])
                if af and "Argument" in af["def"]:
                    aty = af["args"][-1] if af["args"] else "?"
                    if "dyn " in aty and t2.origin[2]["args"]:
                        # a type-erased argument (`path: Option<&dyn Display>` of a bail helper): the concrete type it
                        # was made from, where the caller coerces it
                        t3 = strace(sup, (t2.origin_node[0], t2.origin[1]), t2.origin[2]["args"][0])
                        froms = [s_[2] for s_ in t3.steps if s_[0] == "cast" and "Unsize" in str(s_[1])]
                        if froms:
                            aty = froms[-1]
                    dts.append((af["name"], aty))
                    if "fmt::Arguments" in aty and depth < 3 and t2.origin[2]["args"]:
                        inner, idts = _expanded_template(sup, (t2.origin_node[0], t2.origin[1]), t2.origin[2]["args"][0], depth + 1)
                        if inner is not None:
                            sub = inner
                            dts = dts[:-1] + idts
            subs.append(sub)
    if any(x is not None for x in subs):
        parts = text.split("{}")
        if len(parts) - 1 == len(subs):
            out = parts[0]
            for i, x in enumerate(subs):
                out += (x if x is not None else "{}") + parts[i + 1]
            text = out
    return text, dts


def _buffered_line_template(sup, node, body, t, feasible=None):
    """For `w.write_all(&buf[..n])` with `buf` a local byte array that a formatted write filled beforehand in the
    same body (through a `&mut [u8]` cursor over it): that formatted write's expanded template."""
    import r_c04

    data = trace(body, t["args"][1], passthrough_extra=("std::ops::Index::index",))
    arr = None
    for l in range(body.nargs + 1, len(body.raw["locals"])):
        if re.match(r"^\[u8; \d+\]$", body.local_ty(l)):
            # the data operand is a view of this array
            tr = trace(body, t["args"][1], passthrough_extra=("std::ops::Index::index",))
            if tr.origin and ((tr.origin[0] in ("rvalue", "agg", "multi") and _origin_local(tr) == l) or False):
                arr = l
    if arr is None:
        return None
    cands = []
    for n2, b2, t2 in sup.calls():
        if n2[0] != node[0] or b2 is not body:
            continue
        f2 = fn_of(t2) or {}
        if f2.get("name") != "write_fmt" or f2.get("trait") != "std::io::Write" or len(t2["args"]) < 2:
            continue
        if "[u8]" not in (f2.get("self_ty") or ""):
            continue
        rt = trace(body, t2["args"][0], passthrough_extra=("std::ops::IndexMut::index_mut",))
        if not (rt.origin and _origin_local(rt) == arr):
            continue
        if body.dominates(n2[1], node[1]):
            return _expanded_template(sup, n2, t2["args"][1])
        if node[1] in body.reachable_from(n2[1]):
            cands.append((n2, t2))
    # the line is formatted on one of several arms (`match path { Some(p) => writeln!(buf, "... in {p}: ..."),
    # None => writeln!(buf, "...") }`): in this calling context only the arms that are feasible count
    if feasible is not None:
        cands = [(n2, t2) for n2, t2 in cands if n2 in feasible]
    if len(cands) == 1:
        return _expanded_template(sup, cands[0][0], cands[0][1]["args"][1])
    if cands:
        outs = [_expanded_template(sup, n2, t2["args"][1]) for n2, t2 in cands]
        # several feasible arms: a common prefix is still known
        texts = [o[0] for o in outs if o[0] is not None]
        if len(texts) == len(outs):
            pre = os.path.commonprefix(texts)
            return pre, []
    return None


def _origin_local(tr):
    o = tr.origin
    if o[0] == "multi":
        return o[1]
    if o[0] in ("rvalue", "agg") and isinstance(o[1], dict) and "p" in o[1] and not o[1]["p"]["pr"]:
        return o[1]["p"]["l"]
    return None


def _display_types(body, args_op):
    tr = trace(body, args_op)
    out = []
    if tr.origin and tr.origin[0] == "agg":
        for o in tr.origin[1]["rv"]["ops"]:
            t2 = trace(body, o)
            if t2.origin and t2.origin[0] == "call":
                f = fn_of(t2.origin[2])
                if f and "Argument" in f["def"]:
                    out.append((f["name"], f["args"][-1] if f["args"] else "?"))
    return out


_cache = {}


def view(facts):
    k = id(facts)
    if k not in _cache:
        _cache[k] = CliView(facts)
    return _cache[k]
