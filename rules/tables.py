"""Helpers over HIR pattern tables and over the manual page."""
import os
import re

import factgen


def pat_literals(pat):
    """Flatten a pattern to the list of literal alternatives it accepts.
    Returns list of ('str', s) | ('int', n) | ('char', c) | ('path', res) | ('wild',) | ('other', k)."""
    k = pat["k"]
    if k == "or":
        out = []
        for a in pat["alts"]:
            out.extend(pat_literals(a))
        return out
    if k == "lit":
        for key in ("str", "int", "char", "bool", "bytes"):
            if key in pat:
                v = pat[key]
                return [(key, tuple(v) if isinstance(v, list) else v)]
        return [("other", "lit")]
    if k == "path":
        return [("path", pat["res"])]
    if k == "wild":
        return [("wild",)]
    if k == "binding":
        if "sub" in pat:
            return pat_literals(pat["sub"])
        return [("wild",)]
    if k in ("ref", "box", "derefpat"):
        return pat_literals(pat["sub"])
    if k == "tuplestruct":
        ctor = pat["path"].get("res", "")
        if len(pat["pats"]) == 1:
            inner = pat_literals(pat["pats"][0])
            return [("ctor", ctor, x) for x in inner]
        return [("ctor", ctor, ("multi", len(pat["pats"])))]
    return [("other", k)]


def body_result(body):
    """The variant/constant an arm body evaluates to, unwrapping `return`, `Ok(..)`, `Some(..)`.
    Returns ('path', res) | ('lit', v) | ('wrapped', ctor, inner) | ('other', k)."""
    k = body.get("k")
    if k == "ret" and "e" in body:
        return body_result(body["e"])
    if k == "path":
        return ("path", body["res"])
    if k == "lit":
        for key in ("str", "int", "bool", "char"):
            if key in body:
                return ("lit", body[key])
    if k == "call" and body["f"].get("k") == "path" and len(body["args"]) == 1:
        return ("wrapped", body["f"]["res"], body_result(body["args"][0]))
    if k == "block" and "tail" in body:
        return body_result(body["tail"])
    return ("other", k)


def short(res):
    return res.rsplit("::", 1)[-1]


def manual_path():
    return os.path.join(os.environ.get("XT_REPO", factgen.REPO), "doc", "xt.1")


def parse_manual():
    """Parse doc/xt.1: returns {'formats': {name: {'aliases': [...], 'extensions': [...]}}, 'options': [...]}"""
    txt = open(manual_path()).read().splitlines()
    formats = {}
    options = []
    section = None
    cur = None
    in_default = False
    for line in txt:
        if line.startswith(".Ss "):
            section = line[4:].strip()
            cur = None
            continue
        if line.startswith(".Sh "):
            section = line[4:].strip()
            cur = None
            continue
        if section == "Options" and line.startswith(".It "):
            # .It Fl f Ar format  |  .It Fl h , Fl Fl help
            toks = line.split()[1:]
            i = 0
            while i < len(toks):
                if toks[i] == "Fl" and i + 2 < len(toks) and toks[i + 1] == "Fl":
                    options.append("--" + toks[i + 2])
                    i += 3
                elif toks[i] == "Fl" and i + 1 < len(toks):
                    options.append("-" + toks[i + 1])
                    i += 2
                else:
                    i += 1
        if section == "Formats":
            if line.startswith(".It Cm "):
                toks = [t for t in line.split()[2:] if t != ","]
                name = toks[0]
                cur = formats.setdefault(name, {"aliases": [], "extensions": []})
                cur["aliases"] = toks[1:]
                in_default = False
                continue
            if cur is not None:
                if line.strip() == "Default for":
                    in_default = True
                    continue
                if line.startswith(".Pp") or line.startswith(".It") or line.startswith(".El"):
                    in_default = False
                if in_default:
                    m = re.match(r"\.Dq \.([A-Za-z0-9]+)\s*$", line)
                    if m:
                        cur["extensions"].append(m.group(1))
    return {"formats": formats, "options": options}
