"""C08 — TOML output is nothing or exactly one valid document (structure of the TOML output type)."""
from engine import rule, AnchorLost
from model import Super, PathSens, fn_of, trace, strace, is_place, site, const_value, uses_of_local
import common


def _entries(ctx):
    o = common.output_impls(ctx.facts)["toml"]
    return o, [o["transcode_from"], o["transcode_value"]]


def _w_sites(sup):
    """io::Write calls whose receiver is (a field of) the output object."""
    out = []
    for n, b, t in sup.calls():
        if common.is_io_write_call(t):
            out.append((n, b, t))
    return out


def _consumers(sup):
    """Calls that receive the entry point's input argument (argument 2 of the root)."""
    out = []
    for n, b, t in sup.calls():
        f = fn_of(t)
        if not f:
            continue
        for a in t["args"]:
            if not is_place(a):
                continue
            tr = strace(sup, n, a)
            if tr.origin and tr.origin[0] == "arg" and tr.origin[1] == 2 and not tr.origin_node[0]:
                # skip pure pass-through hops inside the trace (they are steps, not consumers)
                out.append((n, b, t))
                break
    return out


def _guard(sup):
    """The one-shot guard: a switch on a bool field of the root's `self`, read directly
    (`if self.used {..} self.used = true`) or through `mem::replace(&mut self.used, true)`.
    Returns (node, field_name, adt, true_edge, false_edge, setter_nodes) or None."""
    for n in sorted(sup.nodes(), key=str):
        b = sup.body_of(n)
        t = b.blocks[n[1]]["term"]
        if t["k"] != "switch" or t.get("discr_ty") != "bool":
            continue
        tr = strace(sup, n, t["discr"])
        setters = None
        if tr.origin and tr.origin[0] == "call" and (fn_of(tr.origin[2]) or {}).get("def") == "std::mem::replace" and all(s[0] == "use" for s in tr.steps):
            rc = tr.origin[2]
            if const_value(rc["args"][1]) is not True:
                continue
            rnode = (tr.origin_node[0], tr.origin[1])
            tr = strace(sup, rnode, rc["args"][0])
            setters = [rnode]
        fields = [s for s in tr.steps if s[0] == "field"]
        if tr.origin and tr.origin[0] == "arg" and tr.origin[1] == 1 and not tr.origin_node[0] and fields:
            tgt0 = [tt for v, tt in t["targets"] if v == 0]
            if not tgt0:
                continue
            false_edge = (n, 0, (n[0], tgt0[0]))
            true_edge = (n, "otherwise", (n[0], t["otherwise"]))
            return n, fields[0][1], fields[0][2], true_edge, false_edge, setters
    return None


def _sets_field_true(sup, node, field):
    b = sup.body_of(node)
    for s in b.blocks[node[1]]["stmts"]:
        if s["k"] == "assign" and s["p"]["pr"] and s["p"]["pr"][-1]["k"] == "field" and s["p"]["pr"][-1]["name"] == field:
            rv = s["rv"]
            if rv["k"] == "use" and rv["op"].get("k") == "const" and rv["op"].get("v") is True:
                return True
    return False


@rule("R08.1", 6, "one-shot guard dominates every write and every consumption of the input; flag never re-armed", ["C08"])
def r08_1(ctx):
    o, entries = _entries(ctx)
    lib = ctx.lib
    for e in entries:
        sup = Super(lib, e, depth=3)
        ps = PathSens(sup)
        sites = [("write", x) for x in _w_sites(sup)] + [("consume", x) for x in _consumers(sup)]
        g = _guard(sup)
        if g is None:
            for kind, (n, b, t) in sites:
                ctx.ob(f"{e.name}:{kind}:{fn_of(t)['name']}:guarded", False, sup.site(n),
                       "no test of a bool field of the output object precedes this site (one-shot guard missing)")
            if not sites:
                ctx.ob(f"{e.name}:no-sites", True, site(e), "entry point neither writes nor consumes input", trivial=True)
            continue
        gnode, field, adt, true_edge, false_edge, replace_nodes = g
        # true edge: refuses — no write / consumption reachable, and no Ok return
        rt = ps.reach_from_edge(*true_edge)
        bad = [x for _, x in sites if x[0] in rt]
        ctx.ob(f"{e.name}:guard-true-edge-refuses", not bad, sup.site(gnode),
               f"flag `{field}` already set: reaches {[fn_of(x[2])['name'] for x in bad]}" if bad else f"flag `{field}` set => only error return reachable")
        ok_ret = [n for n in rt if _assigns_ok(sup, n)]
        ctx.ob(f"{e.name}:guard-true-edge-errs", not ok_ret, sup.site(gnode),
               "the refusing edge can still return Ok" if ok_ret else "refusing edge never builds Ok")
        # false edge: flag is set before any site
        setters = [n for n in sup.nodes() if _sets_field_true(sup, n, field)]
        for kind, (n, b, t) in sites:
            name = fn_of(t)["name"]
            dom = ps.edge_dominates(false_edge[0], false_edge[1], false_edge[2], n)
            ctx.ob(f"{e.name}:{kind}:{name}:guarded", dom, sup.site(n),
                   f"every path to this {kind} takes the flag-clear edge of the guard" if dom else
                   f"a path reaches this {kind} without passing the one-shot guard on `{field}`")
            reach_wo_set = ps.reach_from_edge(*false_edge, removed_nodes=setters)
            # mem::replace(&mut flag, true) sets the flag before the guard's branch is even taken
            armed = n not in reach_wo_set or (bool(replace_nodes) and all(sup.dominates(r_, gnode) for r_ in replace_nodes))
            ctx.ob(f"{e.name}:{kind}:{name}:flag-set-before", armed, sup.site(n),
                   f"`{field} = true` precedes the {kind} on every path" if armed else
                   f"`{field}` is not set to true on some path from the guard to this {kind}")
    # field-write rule: the flag is assigned `false` only by the constructor aggregate
    g_any = None
    for e in entries:
        g_any = _guard(Super(lib, e, depth=3)) or g_any
    if g_any:
        field, adt = g_any[1], g_any[2]
        n_writes = 0
        for b in lib.bodies:
            for bi, blk in enumerate(b.blocks):
                for s in blk["stmts"]:
                    if s["k"] != "assign" or not s["p"]["pr"]:
                        continue
                    last = s["p"]["pr"][-1]
                    if last["k"] == "field" and last["name"] == field and last.get("adt") == adt:
                        n_writes += 1
                        rv = s["rv"]
                        is_true = rv["k"] == "use" and rv["op"].get("k") == "const" and rv["op"].get("v") is True
                        ctx.ob(f"flag-write:{b.name}", is_true, site(b, line=s["line"]),
                               "assigns true" if is_true else f"`{field}` is assigned something other than `true` (re-arms the one-shot guard)")
        for b in lib.bodies:
            for bi, blk in enumerate(b.blocks):
                for s in blk["stmts"]:
                    if s["k"] != "assign" or s["rv"]["k"] != "ref" or not s["rv"].get("mut") or not s["rv"]["p"]["pr"]:
                        continue
                    last = s["rv"]["p"]["pr"][-1]
                    if not (last["k"] == "field" and last["name"] == field and last.get("adt") == adt):
                        continue
                    n_writes += 1
                    ok_b = False
                    if not s["p"]["pr"]:
                        cur = s["p"]["l"]
                        for _ in range(4):
                            us = [(ub, ui, how) for ub, ui, how in uses_of_local(b, cur) if how != "drop"]
                            if len(us) != 1:
                                break
                            ub, ui, how = us[0]
                            if isinstance(how, tuple) and how[0] == "callarg":
                                ct = b.blocks[ub]["term"]
                                ok_b = (fn_of(ct) or {}).get("def") == "std::mem::replace" and is_place(ct["args"][0]) and ct["args"][0]["p"]["l"] == cur and const_value(ct["args"][1]) is True
                                break
                            if how == "stmt":
                                s2 = b.blocks[ub]["stmts"][ui]
                                rv2 = s2["rv"]
                                reborrow = rv2["k"] == "ref" and rv2["p"]["l"] == cur and [e["k"] for e in rv2["p"]["pr"]] == ["deref"]
                                moved = rv2["k"] == "use" and is_place(rv2["op"]) and rv2["op"]["p"]["l"] == cur and not rv2["op"]["p"]["pr"]
                                if (reborrow or moved) and not s2["p"]["pr"]:
                                    cur = s2["p"]["l"]
                                    continue
                            break
                    ctx.ob(f"flag-write:{b.name}", ok_b, site(b, line=s["line"]),
                           "mutable borrow feeds mem::replace(_, true) only" if ok_b else f"`&mut {field}` escapes: the one-shot flag can be re-armed")
        ctx.ob("flag-writes-present", n_writes >= 1, adt, f"{n_writes} assignment(s) to `{field}`")


def _assigns_ok(sup, node):
    b = sup.body_of(node)
    for s in b.blocks[node[1]]["stmts"]:
        if s["k"] == "assign" and not s["p"]["pr"] and s["p"]["l"] == 0:
            rv = s["rv"]
            if rv["k"] == "aggregate" and rv.get("adt") == "std::result::Result" and rv.get("variant") == "Ok":
                return True
    return False


def _table_switch(sup, lib):
    """Switch nodes on the discriminant of a toml::Value; returns [(node, table_edge, other_edges)]."""
    adt = lib.adts.get("toml::Value")
    if not adt:
        raise AnchorLost("ADT facts for toml::Value missing")
    tidx = [v["idx"] for v in adt["variants"] if v["name"] == "Table"]
    if not tidx:
        raise AnchorLost("toml::Value has no Table variant")
    tidx = tidx[0]
    out = []
    for n in sorted(sup.nodes(), key=str):
        b = sup.body_of(n)
        t = b.blocks[n[1]]["term"]
        if t["k"] != "switch":
            continue
        tr = trace(b, t["discr"])
        if not tr.has("discr"):
            continue
        # type of scrutinised place
        for s in b.blocks[n[1]]["stmts"]:
            if s["k"] == "assign" and s["rv"]["k"] == "discr" and s["rv"]["p"]["ty"] in ("toml::Value",):
                tt = [x for v, x in t["targets"] if v == tidx]
                if tt:
                    others = [(n, lab, m) for lab, m in sup.edges(n) if lab != tidx]
                    out.append((n, (n, tidx, (n[0], tt[0])), others))
    return out


@rule("R08.2", 2, "every write is dominated by the Table edge of a toml::Value test and writes the serialised table", ["C08"])
def r08_2(ctx):
    o, entries = _entries(ctx)
    lib = ctx.lib
    for e in entries:
        sup = Super(lib, e, depth=3)
        ps = PathSens(sup)
        ws = _w_sites(sup)
        tsw = _table_switch(sup, lib)
        for n, b, t in ws:
            name = fn_of(t)["name"]
            recv_ty = b.local_ty(t["args"][0]["p"]["l"]) if is_place(t["args"][0]) else "?"
            # (a) dominated by the Table edge of some toml::Value test, or the serialised object is a Table by type
            tr = strace(sup, n, t["args"][1]) if len(t["args"]) > 1 else None
            ser_calls = [c for c in (tr.calls() if tr else [])]
            origin_call = None
            if tr and tr.origin and tr.origin[0] == "call":
                origin_call = tr.origin[2]
            ser = fn_of(origin_call) if origin_call else None
            from_toml_ser = bool(ser and ser["crate"] == "toml" and ser["name"].startswith("to_string"))
            ctx.ob(f"{e.name}:{name}:bytes-from-toml-serializer", from_toml_ser, sup.site(n),
                   f"written bytes derive from {ser['def'] if ser else tr.origin if tr else None}")
            table_typed = False
            payload_ok = False
            if from_toml_ser:
                onode = (tr.origin_node[0], tr.origin[1])
                a0 = origin_call["args"][0]
                a0ty = sup.body_of(onode).local_ty(a0["p"]["l"]) if is_place(a0) else ""
                tr2 = strace(sup, onode, a0)
                payload_ok = any(s[0] == "downcast" and s[1] == "Table" for s in tr2.steps)
                table_typed = a0ty.startswith("&toml::map::Map<") or a0ty.startswith("toml::map::Map<")
            dom = any(ps.edge_dominates(te[0], te[1], te[2], n) for _, te, _ in tsw)
            ok = (dom and payload_ok) or (table_typed and not tsw and from_toml_ser)
            ctx.ob(f"{e.name}:{name}:root-is-table", ok, sup.site(n),
                   "write dominated by the Value::Table edge and serialises that table's payload" if ok else
                   "the write is not guarded by a test that the root value is a table")
        # (b) non-table edges never write and never return Ok
        for gnode, te, others in tsw:
            for (src, lab, dst) in others:
                r = ps.reach_from_edge(src, lab, dst)
                # compiler-generated unreachable arms reach nothing
                bad_w = [x for x in ws if x[0] in r]
                bad_ok = [m for m in r if _assigns_ok(sup, m)]
                ctx.ob(f"{e.name}:non-table-edge:{lab}", not bad_w and not bad_ok, sup.site(gnode),
                       "non-table root: error return only" if not bad_w and not bad_ok else
                       f"non-table root reaches {'a write' if bad_w else 'an Ok return'}")
        if not ws:
            ctx.ob(f"{e.name}:writes", False, site(e), "TOML entry point performs no write at all")


@rule("R08.3", 2, "exactly one write, write_all, not on a cycle, after every fallible conversion", ["C08"])
def r08_3(ctx):
    o, entries = _entries(ctx)
    lib = ctx.lib
    for e in entries:
        sup = Super(lib, e, depth=3)
        ps = PathSens(sup)
        ws = _w_sites(sup)
        ctx.ob(f"{e.name}:single-write-site", len(ws) == 1, site(e), f"{len(ws)} write site(s) on the sink: {[fn_of(t)['name'] for _, _, t in ws]}")
        for n, b, t in ws:
            name = fn_of(t)["name"]
            ctx.ob(f"{e.name}:{name}:is-write_all", name == "write_all", sup.site(n),
                   "complete write" if name == "write_all" else f"`{name}` may emit a partial or extra document fragment")
            ctx.ob(f"{e.name}:{name}:not-on-cycle", not sup.on_cycle(n), sup.site(n), "write executes at most once per call")
            after = ps.reach_from_node(n)
            fallible = []
            for m in after:
                bm = sup.body_of(m)
                tm = bm.blocks[m[1]]["term"]
                f = fn_of(tm) if tm["k"] == "call" else None
                if not f:
                    continue
                if f["crate"] in ("toml", "serde", "toml_edit") or f.get("trait") in ("serde::Deserialize", "serde::Serialize"):
                    fallible.append(f["def"])
                if common.is_io_write_call(tm):
                    fallible.append(f["def"])
            ctx.ob(f"{e.name}:{name}:write-is-last", not fallible, sup.site(n),
                   "no conversion, serialisation or further write can follow the write" if not fallible else f"after the write: {fallible}")


@rule("R08.4", 2, "the table written derives from the value deserialised in the same call", ["C08"])
def r08_4(ctx):
    o, entries = _entries(ctx)
    lib = ctx.lib
    for e in entries:
        sup = Super(lib, e, depth=3)
        done = False
        for n, b, t in sup.calls():
            f = fn_of(t)
            if f and f["crate"] == "toml" and f["name"].startswith("to_string"):
                tr = strace(sup, n, t["args"][0])
                # origin must be the result of a call that consumed the input argument
                ok = False
                detail = f"serialised value originates from {tr.origin[0] if tr.origin else None}"
                if tr.origin and tr.origin[0] == "call":
                    src = tr.origin[2]
                    onode = (tr.origin_node[0], tr.origin[1])
                    for a in src["args"]:
                        if is_place(a):
                            tr2 = strace(sup, onode, a)
                            if tr2.origin and tr2.origin[0] == "arg" and tr2.origin[1] == 2 and not tr2.origin_node[0]:
                                ok = True
                    detail = f"serialised table comes from {fn_of(src)['def'] if fn_of(src) else '?'} applied to the input"
                ctx.ob(f"{e.name}:serialises-current-input", ok, sup.site(n), detail)
                done = True
        if not done:
            ctx.ob(f"{e.name}:serialises-current-input", False, site(e), "no toml::to_string* call found")


@rule("R08.5", 3, "nulls reach the TOML converter as `unit` (which toml refuses) on both paths; Option-style none/some are never emitted", ["C08"])
def r08_5(ctx):
    import r_c01

    lib = ctx.lib
    stream, value = r_c01.visitor_impls(lib)
    # streaming path: visit_unit -> serialize_unit
    for it in stream["items"]:
        if it["name"] == "visit_unit":
            b = lib.by_id[it["def"]]
            names = [fn_of(t)["name"] for _, _, t in Super(lib, b, depth=3).calls() if (fn_of(t) or {}).get("trait") == "serde::Serializer"]
            ctx.ob("stream:null-as-unit", names == ["serialize_unit"], site(b), f"streaming visitor forwards null with {names}")
    # value path: visit_unit -> variant -> serializer method
    vu = [it for it in value["items"] if it["name"] == "visit_unit"]
    variant = None
    if vu:
        b = lib.by_id[vu[0]["def"]]
        for _, _, kind, payload in b.whole_defs(0):
            if kind == "assign" and payload["rv"]["k"] == "aggregate":
                tr = trace(b, payload["rv"]["ops"][0]) if payload["rv"]["ops"] else None
                if tr and tr.origin and tr.origin[0] == "agg":
                    variant = tr.origin[1]["rv"]["variant"]
                    adt_name = tr.origin[1]["rv"]["adt"]
    ok = False
    det = "visit_unit of the borrowed value not found"
    if variant:
        for sb in lib.bodies:
            if sb.raw.get("impl_trait") == "serde::Serialize" and sb.raw.get("impl_self_adt") == adt_name and sb.name == "serialize":
                adt = lib.adts[adt_name]
                idx = [v["idx"] for v in adt["variants"] if v["name"] == variant][0]
                sw = sb.blocks[0]["term"]
                tg = [x for v, x in sw["targets"] if v == idx][0]
                names = [fn_of(t)["name"] for bb, t in sb.calls() if sb.edge_dominates(0, idx, tg, bb) and (fn_of(t) or {}).get("trait") == "serde::Serializer"]
                ok = names == ["serialize_unit"]
                det = f"borrowed value forwards null (Value::{variant}) with {names}"
    ctx.ob("value:null-as-unit", ok, value["self_ty"], det + ("" if ok else " — toml silently drops `none` map entries instead of refusing the document"))
    bad = []
    for b in lib.bodies:
        for bb, t in b.calls():
            f = fn_of(t) or {}
            if f.get("trait") == "serde::Serializer" and f["name"] in ("serialize_none", "serialize_some"):
                bad.append((b, bb, f["name"]))
    for b, bb, nm in bad:
        ctx.ob(f"option-style:{b.name}:{nm}", False, site(b, bb), f"`{nm}` is emitted: toml's map serializer skips None entries silently")
    ctx.ob("no-option-style-serialization", not bad, "lib", "xt never emits serialize_none/serialize_some")
