"""C08 — TOML output is nothing or exactly one valid document (structure of the TOML output type)."""
from engine import rule, AnchorLost
from model import Super, PathSens, fn_of, trace, strace, strace_deep, is_place, site, const_value, uses_of_local
import common
import flagstate


def _entries(ctx):
    o = common.output_impls(ctx.facts)["toml"]
    return o, [o["transcode_from"], o["transcode_value"]]


def _w_sites(sup):
    """io::Write calls whose receiver is (a field of) the output object."""
    out = []
    for n, b, t in sup.calls():
        if common.is_io_write_call(t):
            out.append((n, b, t))
    return out


def _written_data(sup, n, t):
    """(node, operand, complete) for the data of an io::Write call: `write_all(data)` is complete; so is
    `write!(w, "{}", text)` / `write!(w, "{text}")` with a string argument (io::Write::write_fmt hands the one piece to
    write_all and reports its error); `write` and the rest are not."""
    name = fn_of(t)["name"]
    if name == "write_fmt" and len(t["args"]) > 1:
        tp = common.template_of_s(sup, n, t["args"][1])
        if tp and tp[0] == "tmpl" and tp[1] == "{}" and len(tp[3]["args"]) >= 2:
            onode, oterm = tp[2], tp[3]
            tr = strace(sup, onode, oterm["args"][1])
            if tr.origin and tr.origin[0] == "agg" and len(tr.origin[1]["rv"]["ops"]) == 1:
                t2 = strace(sup, tr.origin_node, tr.origin[1]["rv"]["ops"][0])
                if t2.origin and t2.origin[0] == "call":
                    af = fn_of(t2.origin[2]) or {}
                    aty = (af.get("args") or ["?"])[-1]
                    if "Argument" in af.get("def", "") and af.get("name") == "new_display" and aty.lstrip("&") in ("std::string::String", "str") and t2.origin[2]["args"]:
                        return (t2.origin_node[0], t2.origin[1]), t2.origin[2]["args"][0], True
    return n, (t["args"][1] if len(t["args"]) > 1 else None), name == "write_all"


def _consumers(sup):
    """Calls that receive the entry point's input argument (argument 2 of the root)."""
    out = []
    for n, b, t in sup.calls():
        f = fn_of(t)
        if not f:
            continue
        for a in t["args"]:
            if not is_place(a):
                continue
            tr = strace(sup, n, a)
            if tr.origin and tr.origin[0] == "arg" and tr.origin[1] == 2 and not tr.origin_node[0]:
                # skip pure pass-through hops inside the trace (they are steps, not consumers)
                out.append((n, b, t))
                break
    return out


def _set_nodes(sup, flag):
    """Nodes of the supergraph that put the flag into its SET state (assignment or mem::replace)."""
    out = []
    for n in sup.nodes():
        b = sup.body_of(n)
        blk = b.blocks[n[1]]
        for s in blk["stmts"]:
            if s["k"] == "assign" and flagstate._is_field_place(s["p"], flag):
                rv = s["rv"]
                role = None
                if rv["k"] == "use":
                    role = flag.role(flagstate._const_state(b, rv["op"], flag))
                elif rv["k"] == "aggregate" and rv.get("adt") == flag.enum:
                    role = flag.role(rv.get("variant"))
                if role == flagstate.SET:
                    out.append(n)
        t = blk["term"]
        if t["k"] == "call" and (fn_of(t) or {}).get("def") == "std::mem::replace" and len(t["args"]) == 2 and flagstate._reads_field(b, t["args"][0], flag):
            if flag.role(flagstate._const_state(b, t["args"][1], flag)) == flagstate.SET:
                out.append(n)
    return out


@rule("R08.1", 6, "one-shot guard dominates every write and every consumption of the input; flag never re-armed", ["C08"])
def r08_1(ctx):
    o, entries = _entries(ctx)
    lib = ctx.lib
    flags = flagstate.flags_of(lib, o["adt"])
    guard_flag = None
    for e in entries:
        sup = Super(lib, e, depth=3)
        ps = PathSens(sup)
        sites = [("write", x) for x in _w_sites(sup)] + [("consume", x) for x in _consumers(sup)]
        g = None
        for fl in flags:
            for tst in flagstate.tests(sup, fl):
                if g is None:
                    g = (fl, tst)
        if g is None:
            for kind, (n, b, t) in sites:
                ctx.ob(f"{e.name}:{kind}:{fn_of(t)['name']}:guarded", False, sup.site(n),
                       "no test of a two-state flag of the output object precedes this site (one-shot guard missing)")
            if not sites:
                ctx.ob(f"{e.name}:no-sites", True, site(e), "entry point neither writes nor consumes input", trivial=True)
            continue
        fl, tst = g
        guard_flag = fl
        gnode = tst["node"]
        set_edge, clear_edge = tst["edges"][flagstate.SET], tst["edges"][flagstate.CLEAR]
        field = fl.field
        # already used: refuses — no write / consumption reachable, and no Ok return
        rt = ps.reach_from_edge(*set_edge)
        bad = [x for _, x in sites if x[0] in rt]
        ctx.ob(f"{e.name}:guard-true-edge-refuses", not bad, sup.site(gnode),
               f"flag `{field}` already set: reaches {[fn_of(x[2])['name'] for x in bad]}" if bad else f"flag `{field}` set => only error return reachable")
        ok_ret = [n for n in rt if _assigns_ok(sup, n)]
        ctx.ob(f"{e.name}:guard-true-edge-errs", not ok_ret, sup.site(gnode),
               "the refusing edge can still return Ok" if ok_ret else "refusing edge never builds Ok")
        # still clear: the flag is set before any site
        setters = _set_nodes(sup, fl)
        replaced = tst["how"] == "replace" and tst.get("wrote") == flagstate.SET
        for kind, (n, b, t) in sites:
            name = fn_of(t)["name"]
            dom = ps.edge_dominates(clear_edge[0], clear_edge[1], clear_edge[2], n)
            ctx.ob(f"{e.name}:{kind}:{name}:guarded", dom, sup.site(n),
                   f"every path to this {kind} takes the flag-clear edge of the guard" if dom else
                   f"a path reaches this {kind} without passing the one-shot guard on `{field}`")
            reach_wo_set = ps.reach_from_edge(*clear_edge, removed_nodes=setters)
            # mem::replace(&mut flag, SET) sets the flag before the guard's branch is even taken
            armed = n not in reach_wo_set or replaced
            ctx.ob(f"{e.name}:{kind}:{name}:flag-set-before", armed, sup.site(n),
                   f"`{field}` is set before the {kind} on every path" if armed else
                   f"`{field}` is not set on some path from the guard to this {kind}")
    # field-write rule: outside the constructor the flag is only ever SET, and `&mut flag` feeds mem::replace only
    if guard_flag is not None:
        fl = guard_flag
        ws = flagstate.writes(lib, fl)
        for b, bi, role, how in ws:
            ok_w = role == flagstate.SET
            ctx.ob(f"flag-write:{b.name}", ok_w, site(b, bi), f"{how}: puts `{fl.field}` into its set state" if ok_w else f"`{fl.field}` is assigned something other than its set state (re-arms the one-shot guard)")
        for b, bi in flagstate.mut_borrow_escapes(lib, fl):
            ctx.ob(f"flag-write:{b.name}", False, site(b, bi), f"`&mut {fl.field}` escapes: the one-shot flag can be re-armed")
        ctx.ob("flag-writes-present", len(ws) >= 1, fl.adt, f"{len(ws)} store(s) into `{fl.field}`")


def _assigns_ok(sup, node):
    b = sup.body_of(node)
    for s in b.blocks[node[1]]["stmts"]:
        if s["k"] == "assign" and not s["p"]["pr"] and s["p"]["l"] == 0:
            rv = s["rv"]
            if rv["k"] == "aggregate" and rv.get("adt") == "std::result::Result" and rv.get("variant") == "Ok":
                return True
    return False


def _table_switch(sup, lib):
    """Switch nodes on the discriminant of a toml::Value; returns [(node, table_edge, other_edges)]."""
    adt = lib.adts.get("toml::Value")
    if not adt:
        raise AnchorLost("ADT facts for toml::Value missing")
    tidx = [v["idx"] for v in adt["variants"] if v["name"] == "Table"]
    if not tidx:
        raise AnchorLost("toml::Value has no Table variant")
    tidx = tidx[0]
    out = []
    for n in sorted(sup.nodes(), key=str):
        b = sup.body_of(n)
        t = b.blocks[n[1]]["term"]
        if t["k"] != "switch":
            continue
        tr = trace(b, t["discr"])
        if not tr.has("discr"):
            continue
        # type of scrutinised place
        for s in b.blocks[n[1]]["stmts"]:
            if s["k"] == "assign" and s["rv"]["k"] == "discr" and s["rv"]["p"]["ty"] in ("toml::Value",):
                tt = [x for v, x in t["targets"] if v == tidx]
                if tt:
                    others = [(n, lab, m) for lab, m in sup.edges(n) if lab != tidx]
                    out.append((n, (n, tidx, (n[0], tt[0])), others))
    return out


@rule("R08.2", 2, "every write is dominated by the Table edge of a toml::Value test and writes the serialised table", ["C08"])
def r08_2(ctx):
    o, entries = _entries(ctx)
    lib = ctx.lib
    for e in entries:
        sup = Super(lib, e, depth=3)
        ps = PathSens(sup)
        ws = _w_sites(sup)
        tsw = _table_switch(sup, lib)
        for n, b, t in ws:
            name = fn_of(t)["name"]
            recv_ty = b.local_ty(t["args"][0]["p"]["l"]) if is_place(t["args"][0]) else "?"
            # (a) dominated by the Table edge of some toml::Value test, or the serialised object is a Table by type
            dn_, dop_, _ = _written_data(sup, n, t)
            tr = strace(sup, dn_, dop_) if dop_ is not None else None
            ser_calls = [c for c in (tr.calls() if tr else [])]
            origin_call = None
            if tr and tr.origin and tr.origin[0] == "call":
                origin_call = tr.origin[2]
            ser = fn_of(origin_call) if origin_call else None
            from_toml_ser = bool(ser and ser["crate"] == "toml" and ser["name"].startswith("to_string"))
            ctx.ob(f"{e.name}:{name}:bytes-from-toml-serializer", from_toml_ser, sup.site(n),
                   f"written bytes derive from {ser['def'] if ser else tr.origin if tr else None}")
            table_typed = False
            payload_ok = False
            if from_toml_ser:
                onode = (tr.origin_node[0], tr.origin[1])
                a0 = origin_call["args"][0]
                a0ty = sup.body_of(onode).local_ty(a0["p"]["l"]) if is_place(a0) else ""
                tr2 = strace_deep(sup, onode, a0)
                payload_ok = any(s[0] == "downcast" and s[1] == "Table" for s in tr2.steps)
                table_typed = a0ty.startswith("&toml::map::Map<") or a0ty.startswith("toml::map::Map<")
            dom = any(ps.edge_dominates(te[0], te[1], te[2], n) for _, te, _ in tsw)
            ok = (dom and payload_ok) or (table_typed and not tsw and from_toml_ser)
            ctx.ob(f"{e.name}:{name}:root-is-table", ok, sup.site(n),
                   "write dominated by the Value::Table edge and serialises that table's payload" if ok else
                   "the write is not guarded by a test that the root value is a table")
        # (b) non-table edges never write and never return Ok
        for gnode, te, others in tsw:
            for (src, lab, dst) in others:
                r = ps.reach_from_edge(src, lab, dst)
                # compiler-generated unreachable arms reach nothing
                bad_w = [x for x in ws if x[0] in r]
                bad_ok = [m for m in r if _assigns_ok(sup, m)]
                ctx.ob(f"{e.name}:non-table-edge:{lab}", not bad_w and not bad_ok, sup.site(gnode),
                       "non-table root: error return only" if not bad_w and not bad_ok else
                       f"non-table root reaches {'a write' if bad_w else 'an Ok return'}")
        if not ws:
            ctx.ob(f"{e.name}:writes", False, site(e), "TOML entry point performs no write at all")


@rule("R08.3", 2, "exactly one write, write_all, not on a cycle, after every fallible conversion", ["C08", "C12", "C15"])
def r08_3(ctx):
    o, entries = _entries(ctx)
    lib = ctx.lib
    for e in entries:
        sup = Super(lib, e, depth=3)
        ps = PathSens(sup)
        ws = _w_sites(sup)
        ctx.ob(f"{e.name}:single-write-site", len(ws) == 1, site(e), f"{len(ws)} write site(s) on the sink: {[fn_of(t)['name'] for _, _, t in ws]}")
        for n, b, t in ws:
            name = fn_of(t)["name"]
            complete = _written_data(sup, n, t)[2]
            ctx.ob(f"{e.name}:{name}:is-write_all", complete, sup.site(n),
                   "complete write" if complete else f"`{name}` may emit a partial or extra document fragment")
            ctx.ob(f"{e.name}:{name}:not-on-cycle", not sup.on_cycle(n), sup.site(n), "write executes at most once per call")
            after = ps.reach_from_node(n)
            fallible = []
            for m in after:
                bm = sup.body_of(m)
                tm = bm.blocks[m[1]]["term"]
                f = fn_of(tm) if tm["k"] == "call" else None
                if not f:
                    continue
                if f["crate"] in ("toml", "serde", "toml_edit") or f.get("trait") in ("serde::Deserialize", "serde::Serialize"):
                    fallible.append(f["def"])
                if common.is_io_write_call(tm):
                    fallible.append(f["def"])
            ctx.ob(f"{e.name}:{name}:write-is-last", not fallible, sup.site(n),
                   "no conversion, serialisation or further write can follow the write" if not fallible else f"after the write: {fallible}")


@rule("R08.4", 2, "the table written derives from the value deserialised in the same call", ["C08"])
def r08_4(ctx):
    o, entries = _entries(ctx)
    lib = ctx.lib
    for e in entries:
        sup = Super(lib, e, depth=3)
        done = False
        for n, b, t in sup.calls():
            f = fn_of(t)
            if f and f["crate"] == "toml" and f["name"].startswith("to_string"):
                tr = strace_deep(sup, n, t["args"][0])
                # origin must be the result of a call that consumed the input argument
                ok = False
                detail = f"serialised value originates from {tr.origin[0] if tr.origin else None}"
                if tr.origin and tr.origin[0] == "call":
                    src = tr.origin[2]
                    onode = (tr.origin_node[0], tr.origin[1])
                    for a in src["args"]:
                        if is_place(a):
                            tr2 = strace(sup, onode, a)
                            if tr2.origin and tr2.origin[0] == "arg" and tr2.origin[1] == 2 and not tr2.origin_node[0]:
                                ok = True
                    detail = f"serialised table comes from {fn_of(src)['def'] if fn_of(src) else '?'} applied to the input"
                ctx.ob(f"{e.name}:serialises-current-input", ok, sup.site(n), detail)
                done = True
        if not done:
            ctx.ob(f"{e.name}:serialises-current-input", False, site(e), "no toml::to_string* call found")


@rule("R08.5", 3, "nulls reach the TOML converter as `unit` (which toml refuses) on both paths; Option-style none/some are never emitted", ["C08"])
def r08_5(ctx):
    import r_c01

    lib = ctx.lib
    stream, value = r_c01.visitor_impls(lib)
    # streaming path: visit_unit -> serialize_unit
    for it in stream["items"]:
        if it["name"] == "visit_unit":
            b = lib.by_id[it["def"]]
            vsup = Super(lib, b, depth=3)
            names = [fn_of(t)["name"] for _, _, t in vsup.calls() if (fn_of(t) or {}).get("trait") == "serde::Serializer"]
            if len(names) > 1:
                # a shared dispatch over an intermediate scalar value: the calls feasible for a null
                reach = PathSens(vsup, payloads=True).reach()
                names = sorted({fn_of(t)["name"] for n_, _, t in vsup.calls() if (fn_of(t) or {}).get("trait") == "serde::Serializer" and n_ in reach})
            ctx.ob("stream:null-as-unit", names == ["serialize_unit"], site(b), f"streaming visitor forwards null with {names}")
    # value path: visit_unit -> variant -> serializer method
    vu = [it for it in value["items"] if it["name"] == "visit_unit"]
    variant = None
    if vu:
        b = lib.by_id[vu[0]["def"]]
        for _, _, kind, payload in b.whole_defs(0):
            if kind == "assign" and payload["rv"]["k"] == "aggregate":
                tr = trace(b, payload["rv"]["ops"][0]) if payload["rv"]["ops"] else None
                if tr and tr.origin and tr.origin[0] == "agg":
                    variant = tr.origin[1]["rv"]["variant"]
                    adt_name = tr.origin[1]["rv"]["adt"]
    ok = False
    det = "visit_unit of the borrowed value not found"
    if variant:
        for sb in lib.bodies:
            if sb.raw.get("impl_trait") == "serde::Serialize" and sb.raw.get("impl_self_adt") == adt_name and sb.name == "serialize":
                adt = lib.adts[adt_name]
                idx = [v["idx"] for v in adt["variants"] if v["name"] == variant][0]
                sw = sb.blocks[0]["term"]
                tg = [x for v, x in sw["targets"] if v == idx][0]
                names = [common.ser_method_name(fn_of(t)) for bb, t in sb.calls() if sb.edge_dominates(0, idx, tg, bb) and (fn_of(t) or {}).get("trait") in ("serde::Serializer", "serde::Serialize")]
                ok = names == ["serialize_unit"]
                det = f"borrowed value forwards null (Value::{variant}) with {names}"
    ctx.ob("value:null-as-unit", ok, value["self_ty"], det + ("" if ok else " — toml silently drops `none` map entries instead of refusing the document"))
    bad = []
    for b in lib.bodies:
        for bb, t in b.calls():
            f = fn_of(t) or {}
            if f.get("trait") == "serde::Serializer" and f["name"] in ("serialize_none", "serialize_some"):
                bad.append((b, bb, f["name"]))
    for b, bb, nm in bad:
        ctx.ob(f"option-style:{b.name}:{nm}", False, site(b, bb), f"`{nm}` is emitted: toml's map serializer skips None entries silently")
    ctx.ob("no-option-style-serialization", not bad, "lib", "xt never emits serialize_none/serialize_some")
