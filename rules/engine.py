"""Rule engine: registry, obligations, known findings, output and evidence."""
import json
import os
import re
import sys
import time
import traceback

from model import Facts, site as site_of
import factgen

VERIF = factgen.VERIF


def evidence_dir():
    """Evidence directory; the checker self-test redirects it so that real evidence is not clobbered."""
    return os.environ.get("XT_EVIDENCE_DIR") or os.path.join(VERIF, "evidence")


class AnchorLost(Exception):
    """A structural anchor a rule needs is gone; the rule fails closed."""


class Ob:
    """One obligation instance evaluated by a rule."""

    __slots__ = ("rule", "key", "ok", "site", "detail", "trivial", "config")

    def __init__(self, rule, key, ok, site, detail="", trivial=False):
        self.rule = rule
        self.key = key
        self.ok = bool(ok)
        self.site = site
        self.detail = detail
        self.trivial = trivial
        self.config = None

    def full_key(self):
        return f"{self.rule}:{self.key}"

    def to_json(self):
        return {
            "rule": self.rule,
            "key": self.key,
            "verdict": "ok" if self.ok else "VIOLATED",
            "site": self.site,
            "detail": self.detail,
            "config": self.config,
        }


class Rule:
    def __init__(self, rid, fn, floor, title, props):
        self.id = rid
        self.fn = fn
        self.floor = floor
        self.title = title
        self.props = props


RULES = {}
PROP_RULES = {}


def rule(rid, floor, title, props):
    def deco(fn):
        r = Rule(rid, fn, floor, title, props)
        RULES[rid] = r
        for p in props:
            PROP_RULES.setdefault(p, []).append(rid)
        return fn

    return deco


class Ctx:
    def __init__(self, facts, config, rule_id):
        self.facts = facts
        self.lib = facts.lib
        self.bin = facts.bin
        self.config = config
        self.rule_id = rule_id
        self.obs = []

    def ob(self, key, ok, where, detail="", trivial=False):
        o = Ob(self.rule_id, key, ok, where, detail, trivial)
        o.config = self.config
        self.obs.append(o)
        return o

    def need(self, cond, what):
        if not cond:
            raise AnchorLost(what)
        return cond


# --------------------------------------------------------------------------- known findings


def load_known():
    known = {}
    fixed = []
    p = os.path.join(VERIF, "known_findings.txt")
    if not os.path.exists(p):
        return known, fixed
    for line in open(p):
        line = line.strip()
        if not line or line.startswith("#"):
            continue
        if line.startswith("known:"):
            m = re.match(r"known:\s+property=(\S+)\s+key=(\S+)\s+(.*)", line)
            if m:
                known[(m.group(1), m.group(2))] = m.group(3)
        elif line.startswith("fixed:"):
            fixed.append(line)
    return known, fixed


# --------------------------------------------------------------------------- running


def run_rules(pid, rule_ids, configs):
    """Returns (obs, problems, per_rule_counts, facts_info)."""
    obs = []
    problems = []  # (rule, kind, message)
    counts = {}
    info = {}
    for cfg in configs:
        try:
            d, fi = factgen.get_facts(cfg)
        except factgen.BuildFailed as e:
            problems.append(("build", "build-failed", str(e)[-1500:]))
            info[cfg] = {"error": "build-failed"}
            continue
        info[cfg] = fi
        facts = Facts(d)
        info[cfg]["bodies_lib"] = len(facts.lib.bodies)
        info[cfg]["bodies_bin"] = len(facts.bin.bodies)
        for rid in rule_ids:
            r = RULES[rid]
            ctx = Ctx(facts, cfg, rid)
            try:
                r.fn(ctx)
            except AnchorLost as e:
                problems.append((rid, "anchor-lost", f"[{cfg}] {e}"))
                continue
            except Exception as e:  # fail closed on checker errors too
                tb = traceback.format_exc(limit=4)
                problems.append((rid, "checker-error", f"[{cfg}] {type(e).__name__}: {e}\n{tb}"))
                continue
            n = len(ctx.obs)
            counts[(rid, cfg)] = n
            if n < r.floor:
                problems.append(
                    (rid, "floor", f"[{cfg}] {n} instance(s) found, floor is {r.floor} (rule would pass vacuously)")
                )
            obs.extend(ctx.obs)
    return obs, problems, counts, info


def check_property(pid, tier="quick", extra_evidence=None, quiet=False):
    t0 = time.time()
    seed = int(os.environ.get("VERIF_SEED", "0") or 0)
    rule_ids = PROP_RULES.get(pid, [])
    if not rule_ids:
        print(f"no rules registered for {pid}")
        return 2
    configs = ["dev"] if tier == "quick" else ["dev", "rel"]
    obs, problems, counts, info = run_rules(pid, rule_ids, configs)
    known, fixed = load_known()

    replay_dir = os.path.join(evidence_dir(), "replay")
    os.makedirs(replay_dir, exist_ok=True)
    # clear stale replay files of this property
    for f in os.listdir(replay_dir):
        if f.startswith(pid + "-"):
            os.unlink(os.path.join(replay_dir, f))

    lines = []
    violations = []
    known_hits = []
    # group by rule for the summary lines
    for rid in rule_ids:
        mine = [o for o in obs if o.rule == rid]
        bad = [o for o in mine if not o.ok]
        unlisted = [o for o in bad if (pid, o.full_key()) not in known]
        status = "ok " if not unlisted and not any(p[0] == rid for p in problems) else "BAD"
        if bad and not unlisted and status == "ok ":
            status = "ok*"  # only listed known findings
        lines.append(f"{status} {pid}/{rid} {len(mine)} obligation(s) - {RULES[rid].title}")
    seen_v = set()
    for o in obs:
        if o.ok:
            continue
        fk = o.full_key()
        if (pid, fk) in known:
            if fk not in seen_v:
                known_hits.append((fk, known[(pid, fk)], o))
                seen_v.add(fk)
            continue
        if fk in seen_v:
            continue
        seen_v.add(fk)
        violations.append(o)
    n = 0
    for fk, text, o in known_hits:
        lines.append(f"KNOWN-FINDING: property={pid} {fk} {text} [{o.site}]")
    for o in violations:
        n += 1
        path = os.path.join(replay_dir, f"{pid}-{n}.json")
        with open(path, "w") as fh:
            json.dump({"property": pid, **o.to_json()}, fh, indent=1)
        lines.append(f"  rule {o.rule} instance {o.key}: {o.detail}\n  at {o.site}")
        lines.append(f"VIOLATION property={pid} replay={path}")
    for rid, kind, msg in problems:
        n += 1
        path = os.path.join(replay_dir, f"{pid}-{n}.json")
        with open(path, "w") as fh:
            json.dump({"property": pid, "rule": rid, "kind": kind, "message": msg}, fh, indent=1)
        lines.append(f"  rule {rid} {kind}: {msg}")
        lines.append(f"VIOLATION property={pid} replay={path}")

    if os.environ.get("XT_VERBOSE"):
        for o in obs:
            lines.append(f"    [{'ok' if o.ok else 'XX'}] {o.rule} {o.key} :: {o.detail} @ {o.site}")
    nviol = len(violations) + len(problems)
    wall = time.time() - t0
    write_evidence(pid, tier, seed, obs, problems, violations, known_hits, counts, info, wall, extra_evidence)
    if not quiet:
        print("\n".join(lines))
        print(f"{pid}: {len(obs)} obligations, {nviol} violation(s), {len(known_hits)} known finding(s), {wall:.1f}s")
    return 1 if nviol else 0


def write_evidence(pid, tier, seed, obs, problems, violations, known_hits, counts, info, wall, extra):
    import props  # late import: property metadata

    meta = props.META[pid]
    distinct = {}
    for o in obs:
        if o.trivial:
            continue
        distinct.setdefault(o.full_key(), o)
    samples = []
    per_rule_seen = {}
    for o in obs:
        c = per_rule_seen.get(o.rule, 0)
        if c < 4 or not o.ok:
            samples.append(o.to_json())
            per_rule_seen[o.rule] = c + 1
    rules_desc = {rid: RULES[rid].title for rid in PROP_RULES[pid]}
    ev = {
        "property_id": pid,
        "tier": tier,
        "seed": seed,
        "level": "other",
        "coverage": {
            "explanation": meta["explanation"],
            "rules": rules_desc,
            "evaluations": len(obs),
            "distinct_nontrivial": len(distinct),
            "rule": "one evaluation per (rule, instance key, configuration); distinct = distinct (rule, instance key); "
            "an instance is trivial when the rule marks it vacuous (e.g. a body with no effect site)",
            "obligations": len(obs),
            "discharged": len([o for o in obs if o.ok]),
            "samples": samples[:60],
            "exhaustive": True,
            "instances_per_rule": {f"{r}@{c}": n for (r, c), n in sorted(counts.items())},
            "floors": {rid: RULES[rid].floor for rid in PROP_RULES[pid]},
            "configurations": info,
            "checker_cmd": f"./check {pid} --tier {tier}",
            "trusted_base": meta.get("trusted_base", []),
            "not_decided": meta.get("not_decided", ""),
            "known_findings_present": [fk for fk, _, _ in known_hits],
            "problems": [{"rule": r, "kind": k, "message": m[:500]} for r, k, m in problems],
        },
        "assumptions": meta.get("assumptions", []),
        "wall_s": round(wall, 3),
        "violations": len(violations) + len(problems),
    }
    if extra:
        ev["coverage"].update(extra)
    os.makedirs(evidence_dir(), exist_ok=True)
    tmp = os.path.join(evidence_dir(), f".{pid}.json.tmp{os.getpid()}")
    with open(tmp, "w") as fh:
        json.dump(ev, fh, indent=1)
    os.replace(tmp, os.path.join(evidence_dir(), f"{pid}.json"))
