"""Imports every rule module so that the rules register themselves."""
import r_c08  # noqa: F401
import r_bin  # noqa: F401
import r_cli  # noqa: F401
import r_c01  # noqa: F401
import r_c07  # noqa: F401
import r_c09  # noqa: F401
import r_c11  # noqa: F401
import r_c18  # noqa: F401
import r_c03  # noqa: F401
import r_c12  # noqa: F401
import r_c17  # noqa: F401
import r_c04  # noqa: F401
import r_c02  # noqa: F401
