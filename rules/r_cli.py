"""CLI rules over the inlined supergraph of `main` (independent of how main is split into helpers):
C13 (exit status / stream discipline), C14 (source-format resolution), C15 (flush), R16.3."""
import re

from engine import rule, AnchorLost
from model import enum_edge, Super, PathSens, fn_of, trace, strace, strace_deep, is_place, site, const_value, carriers, switches_on_carriers, uses_of_local
import cliview
import common
import tables
import vocab

VMAP = {"json": "Json", "msgpack": "Msgpack", "toml": "Toml", "yaml": "Yaml"}


def _variant_key(t):
    f = fn_of(t)
    if f["name"] == "translate_slice":
        return "slice"
    a = [x for x in f.get("args", []) if x not in ("'_",)]
    tail = a[-1] if a else ""
    tail = re.sub(r"<.*", "", tail).rsplit("::", 1)[-1]
    return tail or "reader"


def _xt_error_nodes(v, prefix="xt error"):
    return [n for n, st, tmpl, dts in v.writes() if st == "stderr" and tmpl and tmpl.startswith(prefix)]


def _only_exit(v, start, code, removed_nodes=()):
    """Path-sensitive: every end of a path that takes the failure continuation `start` is exit(code)."""
    r = v.reach(start, removed_nodes=removed_nodes)
    terms = v.ends(r)
    sts = getattr(r, "states", {})
    return r, terms, bool(terms) and all(v.is_exit(x, code, sts.get(x)) for x in terms)


def _fail_only_exit(v, node, code, removed_nodes=()):
    """(reach, ends, ok): after the call at `node` failed, every path ends in process::exit(code)."""
    r = v.fail_reach(node, removed_nodes=removed_nodes)
    terms = v.ends(r)
    return r, terms, bool(terms) and all(v.is_exit(x, code, r.states.get(x)) for x in terms)


def _fail_always_through(v, node, through):
    r = v.fail_reach(node, removed_nodes=set(through))
    return not v.ends(r)


def _always_through(v, start, through):
    """No path from the failure continuation `start` reaches an end without passing `through`."""
    r = v.reach(start, removed_nodes=set(through))
    return not v.ends(r)


# --------------------------------------------------------------------------- C15


@rule("R15.1", 5, "every path from a successful translate_* to the next translate / return / exit passes through Translator::flush; failures exit 1 with a message", ["C15", "C13", "C16"])
def r15_1(ctx):
    v = cliview.view(ctx.facts)
    sup = v.sup
    ctx.need(v.translate, "no xt::Translator::translate_* call reachable from main")
    flush_nodes = [n for n, _, _ in v.flush]
    boundary = {n for n, _, _ in v.translate} | {n for n, _ in v.exits} | set(sup.exits())
    for n, b, t in v.translate:
        key = f"{fn_of(t)['name']}@{_variant_key(t)}"
        inspected, starts = v.err_starts(n, t)
        ctx.ob(f"{key}:result-inspected", inspected, v.site(n), "the translation result is matched on" if inspected else "the translation result is never inspected")
        rm_nodes = set(flush_nodes) | {s[1] for s in starts if s[0] == "node"}
        rm_edges = {s[1] for s in starts if s[0] == "edge"}
        r = v.reach_after(n, removed_nodes=rm_nodes, removed_edges=rm_edges)
        leak = sorted(r & boundary, key=str)
        what = ""
        if leak:
            x = leak[0]
            what = "the next translate_* call (next input)" if any(x == tn for tn, _, _ in v.translate) else ("main's return" if x in sup.exits() else "a process::exit")
        ctx.ob(f"{key}:flush-before-next", not leak, v.site(n), "flush intervenes on every success path" if not leak else f"a success path reaches {what} without Translator::flush")
        # (what the properties ask for is the status: after a failure the run never ends with 0. Whether xt stops at
        # the first failing input or reports it and goes on — a `failed` flag tested after the loop — is its own
        # business; the path-sensitive reach decides both forms)
        rr, terms, ok = _fail_only_exit(v, n, 1)
        ctx.ob(f"{key}:failure-exits-1", ok, v.site(n), "a failed translation always ends in exit(1)" if ok else "after a failed translation the run can return from main (status 0) or end with another status")
    ctx.ob("flush-site-present", len(flush_nodes) >= 1, site(v.main), f"{len(flush_nodes)} Translator::flush call(s) reachable from main")
    errw = _xt_error_nodes(v)
    for n, b, t in v.flush:
        inspected, starts = v.err_starts(n, t)
        ctx.ob("flush:result-inspected", inspected, v.site(n), "flush result is matched on" if inspected else "the result of Translator::flush is discarded")
        rr, terms, ok = _fail_only_exit(v, n, 1)
        ctx.ob("flush:failure-exits-1", ok, v.site(n), "flush failure diverges to exit(1)" if ok else "flush failure does not end the run with status 1")
        ok2 = bool(terms) and _fail_always_through(v, n, errw)
        ctx.ob("flush:failure-reported", ok2, v.site(n), "an 'xt error' line is written to stderr before exiting" if ok2 else "flush failure exits without an 'xt error' message")


# --------------------------------------------------------------------------- C13


@rule("R13.1", 14, "exit-code map: constants in {0,1,2}; exit(2) only on argument errors after stderr usage; failures diverge to exit(1) after an 'xt error' line", ["C13"])
def r13_1(ctx):
    from r_bin import exit_calls

    v = cliview.view(ctx.facts)
    sup = v.sup
    binc = ctx.bin
    for b in ctx.lib.bodies:
        for bb, code in exit_calls(b):
            ctx.ob(f"lib-exit:{b.name}", False, site(b, bb), "the library terminates the process")
        for bb, t in b.calls():
            if (fn_of(t) or {}).get("def") in ("std::process::abort",):
                ctx.ob(f"lib-abort:{b.name}", False, site(b, bb), "the library aborts the process")
    k = {}
    for b in binc.bodies:
        for bb, code in exit_calls(b):
            if code is None:
                # computed status (e.g. `exit(failure.exit_code())`): the constants it can hold in any
                # calling context reachable from main
                codes = set()
                for nd in v.nodes:
                    if nd[1] == bb and sup.body_of(nd) is b and v._states().get(nd):
                        codes |= v.exit_codes(nd)
                kk = (b.file, "computed")
                k[kk] = k.get(kk, 0) + 1
                okc = bool(codes) and codes <= {0, 1, 2}
                ctx.ob(f"exit-code:{b.file}:computed:{k[kk] - 1}", okc, site(b, bb), f"process::exit(<computed>) with values {sorted(codes, key=str)}" if okc else f"process::exit with a status that is not provably one of 0/1/2: {sorted(codes, key=str)}")
                continue
            k[(b.file, code)] = k.get((b.file, code), 0) + 1
            ctx.ob(f"exit-code:{b.file}:{code}:{k[(b.file, code)] - 1}", code in (0, 1, 2), site(b, bb), f"process::exit({code})")
    # (b) exit(2)
    ctx.need(len(v.parse) == 1, f"expected one argument-parser call (-> Result<_, lexopt::Error>) in main, found {len(v.parse)}")
    pn, pb, pt, parse_fn = v.parse[0]
    inspected, starts = v.err_starts(pn, pt)
    ctx.need(inspected, "main never inspects the argument parser's result")
    e2 = [n for n, c in v.exits if c == 2 or (c is None and 2 in v.exit_codes(n))]
    ctx.ob("exit2:sites", len(e2) >= 1, site(v.main), f"{len(e2)} exit(2) site(s) reachable from main")
    errw = _xt_error_nodes(v)
    for st in starts:
        sn_ = v.start_node(st)
        r, terms, ok = _only_exit(v, st, 2)
        ctx.ob("exit2:arg-error-exits-2", ok, v.site(sn_), "invalid command line ends in exit(2) on every path" if ok else "an argument error can end otherwise than exit(2)")
        ok_msg = bool(terms) and _always_through(v, st, errw)
        ctx.ob("exit2:xt-error-on-stderr", ok_msg, v.site(sn_), "'xt error' line written to stderr before exit(2)" if ok_msg else "argument error exits without an 'xt error' line on stderr")
        usage = [n for n, s_, tmpl, _ in v.writes() if s_ == "stderr" and tmpl and "Usage:" in tmpl and n in r]
        ok_u = bool(terms) and _always_through(v, st, usage)
        ctx.ob("exit2:usage-on-stderr", ok_u, v.site(sn_), "usage text goes to stderr" if ok_u else "no usage text is written to stderr on the argument-error path")
        out_w = [n for n, s_, tmpl, _ in v.writes() if s_ == "stdout" and n in r]
        out_g = [n for n, _, _ in v.stdout_gets if n in r]
        ctx.ob("exit2:nothing-on-stdout", not out_w and not out_g, v.site(sn_), "argument-error path never touches stdout" if not out_w and not out_g else "argument-error path writes to stdout")
    # exit(2) unreachable once arguments were accepted
    rm_nodes = {s[1] for s in starts if s[0] == "node"}
    rm_edges = {s[1] for s in starts if s[0] == "edge"}
    r_ok = v.reach_after_return(pn, removed_nodes=rm_nodes, removed_edges=rm_edges)
    bad = [n for n in e2 if n in r_ok and 2 in v.exit_codes(n, getattr(r_ok, "states", {}).get(n))]
    ctx.ob("exit2:unreachable-after-valid-args", not bad, v.site(pn), "exit(2) is not reachable once the command line was accepted" if not bad else "exit(2) can be reached after the command line was accepted")
    for n, b, t in v.new:
        ctx.ob("exit2:precedes-translation", sup.dominates(pn, n), v.site(n), "argument parsing dominates translator construction")
    # every Err produced by the argument parser (and its local helpers) comes from lexopt or a constant message
    psup = Super(binc, parse_fn, depth=3)
    n_err = 0
    for n in sorted(psup.nodes(), key=str):
        b = psup.body_of(n)
        # the parser itself and its helpers that report in the same error type
        if not b.local_ty(0).startswith("std::result::Result<") or cliview_err_ty(b.local_ty(0)) != cliview_err_ty(parse_fn.local_ty(0)):
            continue
        blk = b.blocks[n[1]]
        for s in blk["stmts"]:
            if s["k"] == "assign" and s["p"]["l"] == 0 and not s["p"]["pr"] and s["rv"]["k"] == "aggregate" and s["rv"].get("variant") == "Err":
                n_err += 1
                tr = strace(psup, n, s["rv"]["ops"][0])
                ok, what = _lexopt_origin(psup, tr)
                ctx.ob(f"parse-err-origin:{what}", ok, psup.site(n), f"Err value originates from {what}")
        t = blk["term"]
        if t["k"] == "call" and t["dest"]["l"] == 0 and (fn_of(t) or {}).get("def") == "std::ops::FromResidual::from_residual":
            n_err += 1
            tr = strace(psup, n, t["args"][0])
            ok, what = _lexopt_origin(psup, tr)
            ctx.ob(f"parse-err-origin:?:{what}", ok, psup.site(n), f"`?` propagates an error of {what}")
    ctx.ob("parse-err-sites", n_err >= 3, site(parse_fn), f"{n_err} error-producing site(s) in the argument parser")
    # (c) exit(0): only inside the argument parser's context, each after a stdout write
    outw = [n for n, s_, tmpl, _ in v.writes() if s_ == "stdout"]
    for n, c in v.exits:
        if c != 0:
            continue
        in_parser = v.in_context_of(n, parse_fn.id)
        # every (feasible) way to this exit has written to stdout inside the parser
        pw = [w for w in outw if v.in_context_of(w, parse_fn.id)]
        dom = bool(pw) and n not in v.ps.reach(removed_nodes=pw)
        ctx.ob(f"exit0:{_opt_key(binc, sup, n)}", in_parser and dom, v.site(n), "exit(0) follows a help/version write to stdout inside the argument parser" if in_parser and dom else "exit(0) outside the help/version arms")
    # (d) every exit(1) reachable from main is preceded by an 'xt error' line
    for n, c in v.exits:
        if c != 1:
            continue
        # every (feasible) way to this exit has written an 'xt error' line (one write per kind of failure is fine)
        ok = bool(errw) and n not in v.ps.reach(removed_nodes=errw)
        msg = [tmpl for w, s_, tmpl, _ in v.writes() if w in errw and (sup.dominates(w, n) or w[0] == n[0])]
        ctx.ob(f"exit1:message:{_exit_key(v, n)}", ok, v.site(n), f"preceded by stderr line {msg[-1]!r}" if ok else "exit(1) without an 'xt error' line on stderr")
    # (d') and the converse: once an 'xt error' line has been written, the run does not end with status 0 (a failure that
    # is reported and then forgotten: `report!(..); break;` without setting the flag that the final exit(1) tests)
    for k_, w in enumerate(sorted(errw, key=str)):
        r_ = v.reach(("node", w))
        terms_ = v.ends(r_)
        # (the code may be computed from the failure value, `exit(self.exit_code())`: what must not happen is a return
        # from main or an exit whose code can be 0; which of 1 and 2 it is, the other obligations decide)
        # (a write site that no path state reaches — one instantiation of a helper that is never used that way — has no
        # ends at all, and nothing to answer for)
        ok_ = all(v.is_exit(x, None, r_.states.get(x)) and 0 not in v.exit_codes(x, r_.states.get(x)) for x in terms_)
        ctx.ob(f"error-line-ends-in-failure-status:{k_}", ok_, v.site(w), "every path from this 'xt error' line ends in process::exit with a failure status" if ok_ else "an 'xt error' line is written and the run can still return from main (status 0)")
    # (e) every fallible step diverges to exit(1) with a message naming the input
    fallible = [("open", n, t) for n, b, t in v.file_open] + [("translate:" + _variant_key(t), n, t) for n, b, t in v.translate] + [("flush", n, t) for n, b, t in v.flush]
    ctx.ob("fallible-steps", len(fallible) >= 3, site(v.main), f"{len(fallible)} fallible step(s): File::open, translate_*, flush")
    named_w = [(n, tmpl, dts) for n, s_, tmpl, dts in v.writes() if s_ == "stderr" and tmpl]
    for kind, n, t in fallible:
        inspected, starts = v.err_starts(n, t)
        ctx.ob(f"fail:{kind}:inspected", inspected, v.site(n), "result is matched on" if inspected else "result is never inspected")
        r, terms, ok = _fail_only_exit(v, n, 1)
        ctx.ob(f"fail:{kind}:diverges-exit-1", ok, v.site(n), "after this step fails every path ends in exit(1)" if ok else "after this step fails the run can go on or return (status 0 with a failed input)")
        if kind != "flush":
            named_nodes = [w for w, tmpl, dts in named_w if w in r and tmpl.startswith("xt error in ") and any(vocab.bin_vocab(ctx.facts)["path"]["path"] in ty or "Path" in ty for _, ty in dts)]
            named = bool(terms) and bool(named_nodes) and _fail_always_through(v, n, named_nodes)
            if not named and terms:
                # the name may reach the message as text (`Failure::input(path, err)` stores `path.to_string()`):
                # then the 'xt error in {}' line is still written on every failing path, and the path value is
                # handed to a same-crate constructor of the failure on the way
                pty = vocab.bin_vocab(ctx.facts)["path"]["path"]
                in_line = [w for w, tmpl, dts in named_w if w in r and tmpl.startswith("xt error in {}")]
                gives_path = []
                for cn_, cb_, ct_ in v.calls:
                    cf_ = fn_of(ct_) or {}
                    if cn_ in r and cf_.get("local") and any(is_place(a_) and (pty in cb_.local_ty(a_["p"]["l"]) or "std::path::Path" in cb_.local_ty(a_["p"]["l"])) for a_ in ct_["args"]):
                        gives_path.append(cn_)
                named = bool(in_line) and _fail_always_through(v, n, in_line) and bool(gives_path) and _fail_always_through(v, n, gives_path)
            how_named = "message is 'xt error in <input>: ...'"
            if not named and terms and named_nodes and kind.startswith("translate"):
                # `let flushed = translator.flush(); if let Err(err) = result { if let Err(flush_err) = flushed { bail!(flush_err) }
                # bail_path!(path, err) }`: when the output fails as well, that failure is the one reported, and it
                # does not belong to an input. Every other path from the failed translation names the input.
                flush_fail = set()
                for fn_, fb_, ft_ in v.flush:
                    if fn_ in r:
                        _, fstarts = v.err_starts(fn_, ft_)
                        flush_fail |= {v.start_node(s_) for s_ in fstarts}
                if flush_fail:
                    r2 = v.fail_reach(n, removed_nodes=set(named_nodes) | flush_fail)
                    if not v.ends(r2):
                        named = True
                        how_named = "message is 'xt error in <input>: ...' unless flushing the output failed too (then that failure, which is not an input's, is reported)"
            ctx.ob(f"fail:{kind}:names-input", named, v.site(n), how_named if named else "failure message does not name the offending input")


def cliview_err_ty(ty):
    from model import _err_ty

    return _err_ty(ty)


def _lexopt_origin(psup, tr, depth=0):
    if tr.origin and tr.origin[0] == "agg" and tr.origin[1]["rv"].get("agg") == "adt" and tr.origin[1]["rv"]["ops"] and depth < 3:
        # a variant of the program's own failure type wrapped around the lexopt error / message
        onode = getattr(tr, "origin_node", None)
        if onode is not None:
            inner = strace(psup, (onode[0], tr.origin[1].get("bb", onode[1])) if isinstance(tr.origin[1], dict) and "bb" in tr.origin[1] else onode, tr.origin[1]["rv"]["ops"][0])
            ok, what = _lexopt_origin(psup, inner, depth + 1)
            return ok, f"{tr.origin[1]['rv'].get('variant')}({what})"
    if tr.origin and tr.origin[0] == "call":
        f = fn_of(tr.origin[2]) or {}
        if f.get("crate") == "lexopt":
            return True, f["def"]
        if f.get("def") in ("std::convert::Into::into", "std::convert::From::from") and tr.origin[2]["args"] and depth < 3:
            onode = (tr.origin_node[0], tr.origin[1])
            return _lexopt_origin(psup, strace(psup, onode, tr.origin[2]["args"][0]), depth + 1)
        # a local helper of the parser: its own errors are checked at their sites
        if f.get("local"):
            return True, "local:" + f["def"]
        return False, f.get("def", "?")
    if tr.origin and tr.origin[0] == "const":
        return "str" in tr.origin[1], "msg:" + repr(tr.origin[1].get("str"))
    if tr.origin and tr.origin[0] == "arg":
        # message passed in by the caller (helper taking the text as a parameter)
        return True, "caller-supplied message"
    return False, str(tr.origin[0] if tr.origin else "?")


def _opt_key(binc, sup, node):
    """Key a site by the option arm (HIR arm patterns) whose span contains it."""
    b = sup.body_of(node)
    line = b.blocks[node[1]]["term"]["line"]
    return _arm_names(binc, b, line) or "?"


def _arm_names(binc, b, line):
    for t in binc.tables_of(b.id):
        for arm in t["arms"]:
            sp = arm.get("span")
            if sp and sp["line"] <= line <= sp["end_line"] and t["form"] == "match":
                names = []
                for l in tables.pat_literals(arm["pat"]):
                    if l[0] == "ctor":
                        inner = l[2]
                        if inner[0] == "char":
                            names.append("-" + chr(inner[1]))
                        elif inner[0] == "str":
                            names.append("--" + inner[1])
                if names:
                    return ",".join(sorted(names))
    return None


def _exit_key(v, node):
    sup = v.sup
    label = "start"
    for name, lst in (("open", v.file_open), ("translate", v.translate), ("flush", v.flush)):
        for n, b, t in lst:
            insp, starts = v.err_starts(n, t)
            for st in starts:
                if node in v.reach(st):
                    return name + "-failed"
    if any(sup.dominates(n, node) for n, _, _ in v.new):
        return "in-loop-guard"
    return "before-translation"


@rule("R13.2", 4, "stdout who-may-call: stdout() only for the translator's sink and the help/version arms of the parser; no print!/eprint!; the library never names stdio", ["C13"])
def r13_2(ctx):
    v = cliview.view(ctx.facts)
    sup = v.sup
    binc = ctx.bin
    pn, pb, pt, parse_fn = v.parse[0]
    in_graph = set()
    for n, b, t in v.stdout_gets:
        in_graph.add((b.id, n[1]))
        if v.in_context_of(n, parse_fn.id):
            if not v._states().get(n):
                # not reachable in this calling context (e.g. the -V arm never reaches the --help printer)
                ctx.ob(f"stdout-site:parser:{_opt_key(binc, sup, n)}:{b.name}:infeasible", True, v.site(n), "site not reachable in this calling context", trivial=True)
                continue
            r, terms, ok = _only_exit(v, ("node", n), 0)
            ctx.ob(f"stdout-site:parser:{_opt_key(binc, sup, n)}:{b.name}", ok, v.site(n), "stdout obtained for help/version, which then exits 0" if ok else "stdout obtained in the argument parser on a path that does not exit 0")
        else:
            # the sink: the handle must flow into the translator's writer
            carr = carriers(sup, n, t["dest"]["l"], extra_pass=("::lock", "BufWriter", "::new", "::with_capacity"))
            feeds = any(is_place(a) and (nn[0], a["p"]["l"]) in carr for nn, _, tt in v.new for a in tt["args"])
            ctx.ob(f"stdout-site:sink:{b.name}", feeds, v.site(n), "stdout handle becomes the translator's sink" if feeds else "stdout obtained outside the sink and the help/version arms")
    for b in binc.bodies:
        for bb, t in b.calls():
            f = fn_of(t) or {}
            if f.get("def") == "std::io::stdout" and (b.id, bb) not in in_graph:
                ctx.ob(f"stdout-site:unreachable:{b.name}", False, site(b, bb), "stdout obtained in a function that main does not reach through resolved calls")
            if f.get("def") in ("std::io::_print", "std::io::_eprint"):
                ctx.ob(f"print-macro:{b.name}", False, site(b, bb), "print!/eprint! family used")
    ctx.ob("stdout-sites-counted", len(v.stdout_gets) >= 2, "bin", f"{len(v.stdout_gets)} stdout() site(s) reachable from main")
    for b in ctx.lib.bodies:
        for bb, t in b.calls():
            f = fn_of(t) or {}
            if f.get("def") in ("std::io::stdout", "std::io::stderr", "std::io::stdin", "std::io::_print", "std::io::_eprint"):
                ctx.ob(f"lib-stdio:{b.name}", False, site(b, bb), f"library uses {f['def']}")
    ctx.ob("lib-stdio-free", True, "lib", "no stdio access in the library (deny-list evaluated over all lib bodies)", trivial=True)
    import deny

    deny.control_obligations(ctx, "stdio")
    # no direct stdout write outside the parser's help/version arms
    for n, st, tmpl, dts in v.writes():
        if st == "stdout" and not v.in_context_of(n, parse_fn.id):
            ctx.ob("direct-stdout-write", False, v.site(n), "the CLI writes to stdout directly, bypassing the translator")


@rule("R13.3", 4, "terminal guard: is_terminal(stdout) && unsafe-for-terminal(target) dominates translator construction and exits 1", ["C13"])
def r13_3(ctx):
    v = cliview.view(ctx.facts)
    sup = v.sup
    ps = v.ps
    binc = ctx.bin
    ctx.need(v.new, "translator construction not found")
    nn = v.new[0][0]
    its = [(n, b, t) for n, b, t in v.calls if (fn_of(t) or {}).get("name") == "is_terminal"]
    ok_it = [x for x in its if "Stdout" in (fn_of(x[2]).get("self_ty", "") + fn_of(x[2]).get("resolved_full", ""))]
    dom = [x for x in ok_it if sup.dominates(x[0], nn)]
    if not dom and ok_it:
        # `unsafe(format) && stdout.is_terminal()`: the terminal is only asked about when the format needs it. What has
        # to hold is symmetric in the two tests: the translator is not reached with both answers true, i.e. every
        # path to it takes the false edge of the terminal test or the false edge of the format predicate
        false_edges = []
        for tn, tb, tt in ok_it:
            for n_, t_, how in switches_on_carriers(sup, carriers(sup, tn, tt["dest"]["l"])):
                z_ = [x for vv, x in t_["targets"] if vv == 0]
                if how == "value" and z_:
                    false_edges.append((n_, 0, (n_[0], z_[0])))
        n_t = len(false_edges)
        for n_, b_, t_ in v.calls:
            f_ = fn_of(t_) or {}
            callee_ = binc.by_id.get(f_.get("resolved") or f_.get("def")) if f_.get("local") and len(t_["args"]) == 1 else None
            if callee_ and callee_.local_ty(0) == "bool" and "Format" in callee_.local_ty(1):
                for n2_, t2_, how in switches_on_carriers(sup, carriers(sup, n_, t_["dest"]["l"])):
                    z_ = [x for vv, x in t2_["targets"] if vv == 0]
                    if how == "value" and z_:
                        false_edges.append((n2_, 0, (n2_[0], z_[0])))
        sym = n_t >= 1 and len(false_edges) > n_t and nn not in ps.reach(removed_edges=false_edges)
        if sym:
            dom = [ok_it[0]]
    ctx.ob("is_terminal-on-stdout-dominates", bool(dom), v.site(nn), "the translator is constructed only after the terminal test or the format predicate answered no" if dom else f"no is_terminal test on stdout dominates translator construction (found: {[fn_of(t).get('self_ty') for _, _, t in its]})")
    if not dom:
        return
    inn, ib, itt = dom[0]
    carr = carriers(sup, inn, itt["dest"]["l"])
    sws = [(n, t) for n, t, how in switches_on_carriers(sup, carr) if how == "value"]
    ctx.need(sws, "is_terminal result is not branched on")
    sn, sw = sws[0]
    true_t = (sn[0], sw["otherwise"])
    preds = []
    for n, b, t in v.calls:
        f = fn_of(t) or {}
        if f.get("local") and len(t["args"]) == 1:
            callee = binc.by_id.get(f.get("resolved") or f["def"])
            if callee and callee.local_ty(0) == "bool" and "Format" in callee.local_ty(1):
                preds.append((n, b, t, callee))
    through = [n for n, _, _, _ in preds]
    ok = sup.must_pass(true_t, [nn], through) and bool(preds)
    ctx.ob("predicate-on-terminal-path", ok, v.site(sn), "when stdout is a terminal the target format is tested before translating" if ok else "terminal path reaches the translator without testing the target format")
    for n, b, t, callee in preds:
        c2 = carriers(sup, n, t["dest"]["l"])
        for n2, t2, how in switches_on_carriers(sup, c2):
            if how != "value" or n2[0] != n[0]:
                continue
            r, terms, okx = _only_exit(v, ("edge", (n2, "otherwise", (n2[0], t2["otherwise"]))), 1)
            if not okx:
                # the predicate is asked first and the terminal second: the refusal hangs off the terminal test's
                # true edge, which is only reached when the predicate said yes
                for n3, t3, how3 in switches_on_carriers(sup, carr):
                    if how3 == "value" and ps.edge_dominates(n2, "otherwise", (n2[0], t2["otherwise"]), n3):
                        _, _, ok3 = _only_exit(v, ("edge", (n3, "otherwise", (n3[0], t3["otherwise"]))), 1)
                        okx = okx or ok3
            ctx.ob("unsafe-format-on-terminal-exits-1", okx, v.site(n2), "refusal exits 1" if okx else "unsafe format on a terminal does not end in exit(1)")
        # evaluate the predicate abstractly on Format::Msgpack
        fadt = binc.adts.get("xt::Format") or ctx.lib.adts.get("Format")
        midx = [x["idx"] for x in (fadt or {}).get("variants", []) if x["name"] == "Msgpack"]
        ctx.need(midx, "xt::Format::Msgpack variant not found in ADT facts")
        psup = Super(binc, callee, depth=2)
        pps = PathSens(psup)
        reached = pps.explore([(psup.entry, {((), 1): ("var", midx[0])})])
        vals = set()
        for node, states in reached.items():
            if not node[0] and callee.blocks[node[1]]["term"]["k"] == "return":
                for st in states:
                    f_end = dict(st)
                    for s_ in callee.blocks[node[1]]["stmts"]:
                        pps._stmt(f_end, (), s_)
                    vals.add(f_end.get(((), 0)))
        okv = vals == {("const", 1)}
        ctx.ob("predicate-true-for-msgpack", okv, site(callee), "predicate(Format::Msgpack) evaluates to true on every path" if okv else f"predicate(Format::Msgpack) may return {sorted(map(str, vals))}: MessagePack would be written to a terminal")


def format_table(binc, fn_body):
    """{literal: FormatVariant or None} from the HIR match over string literals in fn_body (unwrapping
    Ok/Some around the arm or around the whole match), plus the default arm's wrapper."""
    out = {}
    default = None
    found = False
    for tb in binc.tables_of(fn_body.id):
        if tb["form"] != "match":
            continue
        for arm in tb["arms"]:
            lits = tables.pat_literals(arm["pat"])
            res = tables.body_result(arm.get("body", {}))
            r = res
            while r[0] == "wrapped":
                r = r[2]
            fmtv = tables.short(r[1]) if r[0] == "path" and "Format" in r[1] else None
            wrapper = tables.short(res[1]) if res[0] in ("wrapped", "path") else None
            for l in lits:
                lit = l
                while lit[0] == "ctor":
                    lit = lit[2]
                if lit[0] == "str":
                    found = True
                    out[lit[1]] = fmtv
                elif lit[0] == "wild":
                    default = wrapper if fmtv is None else "Format"
    return (out if found else None), default


def _format_parser(v, binc):
    """The function handed to lexopt's parse_with (the format-name parser), from any body reachable
    from the argument parser."""
    pn, pb, pt, parse_fn = v.parse[0]
    users = []
    for n, b, t in Super(binc, parse_fn, depth=3).calls():
        f = fn_of(t) or {}
        if f.get("name") == "parse_with":
            for a in t["args"]:
                if a.get("k") == "fn":
                    # a value parser of some other option (`--max-depth n` parsed with its own function) is not the
                    # format-name parser: that one yields a Format
                    cb = binc.by_id.get(a["def"])
                    if cb is not None and "Format" not in str(cb.raw.get("ret_ty", "")):
                        continue
                    users.append((n, a["def"]))
    return users


@rule("R13.4", 8, "format-name table of -f/-t equals the manual (doc/xt.1) and the long help; both options go through it", ["C13"])
def r13_4(ctx):
    v = cliview.view(ctx.facts)
    binc = ctx.bin
    man = tables.parse_manual()
    pn, pb, pt, parse_fn = v.parse[0]
    users = _format_parser(v, binc)
    fns = sorted({u for _, u in users})
    ctx.ob("one-format-name-parser", len(users) >= 1 and len(fns) == 1, site(parse_fn), f"parse_with callees: {fns}")
    ctx.need(fns, "no format-name parser handed to lexopt parse_with")
    fb = binc.by_id.get(fns[0])
    ctx.need(fb, f"format-name parser {fns[0]} not in bin")
    # both the 'f' and the 't' option arms reach a parse_with call before the next argument is read
    psup = Super(binc, parse_fn, depth=3)
    pw = {n for n, _ in users}
    for ch in ("f", "t"):
        ok = False
        for n in psup.nodes():
            if n[0]:
                continue
            t = parse_fn.blocks[n[1]]["term"]
            if t["k"] == "switch" and any(vv == ord(ch) for vv, _ in t["targets"]) and t.get("discr_ty") == "char":
                tgt = [x for vv, x in t["targets"] if vv == ord(ch)][0]
                r = psup.reachable_from([((), tgt)])
                ok = bool(r & pw)
        ctx.ob(f"option-{ch}-uses-format-parser", ok, site(parse_fn), f"the -{ch} arm parses its value with the format-name parser" if ok else f"the -{ch} arm does not reach the format-name parser")
    table, default = format_table(binc, fb)
    ctx.need(table is not None, "format-name table not found in HIR")
    want = {}
    for name, info in man["formats"].items():
        want[name] = name
        for al in info["aliases"]:
            want[al] = name
    for lit in sorted(set(want) | set(table)):
        exp = VMAP.get(want.get(lit)) if lit in want else None
        got = table.get(lit)
        ctx.ob(f"name:{lit}", exp == got, site(fb), f"manual: {lit!r} -> {exp}; code: {got}")
    ctx.ob("unknown-names-rejected", default == "Err", site(fb), f"default arm yields {default}")
    helptext = ""
    for b in binc.bodies:
        for bb, t in b.calls():
            if common.is_io_write_call(t) and fn_of(t)["name"] == "write_fmt" and len(t["args"]) > 1:
                tp = common.template_of(b, t["args"][1])
                if tp and "FORMATS" in tp[1]:
                    helptext = tp[1]
    ctx.need(helptext, "long help text not found")
    blk = helptext.split("FORMATS", 1)[1].split("CAVEATS")[0]
    for name, info in man["formats"].items():
        line = f"{name}, {', '.join(info['aliases'])}" if info["aliases"] else name
        ctx.ob(f"longhelp:{name}", line in blk, "long help", f"long help lists {line!r}")


@rule("R13.5", 3, "duplicate -f / -t are rejected before the accumulator is overwritten", ["C13"])
def r13_5(ctx):
    v = cliview.view(ctx.facts)
    binc = ctx.bin
    pn, pb, pt, parse_fn = v.parse[0]
    psup = Super(binc, parse_fn, depth=3)
    bodies = {psup.body_of(n).id: psup.body_of(n) for n in psup.nodes()}
    n = 0
    guarded_sites = {}  # body id -> [ok per store site]
    for b in bodies.values():
        for bi in sorted(b.reach()):
            for s in b.blocks[bi]["stmts"]:
                if s["k"] != "assign" or "Option<xt::Format>" not in s["p"]["ty"]:
                    continue
                # a store of Some(..) into an accumulator: a named local or a place behind a &mut parameter
                p = s["p"]
                is_acc = (not p["pr"] and b.local_name(p["l"])) or (p["pr"] and all(e["k"] == "deref" for e in p["pr"]))
                if not is_acc:
                    continue
                rv = s["rv"]
                some = False
                if rv["k"] == "aggregate" and rv.get("variant") == "Some":
                    some = True
                elif rv["k"] == "use" and is_place(rv["op"]):
                    tr = trace(b, rv["op"])
                    some = bool(tr.origin and tr.origin[0] == "agg" and tr.origin[1]["rv"].get("variant") == "Some")
                if not some:
                    continue
                n += 1
                base = p["l"]
                name = b.local_name(base) or f"*{b.local_name(_root_param(b, base)) or 'slot'}"
                ok = False
                for bb, t in b.calls():
                    f = fn_of(t) or {}
                    if f.get("name") not in ("is_some", "is_none") or not t["args"]:
                        continue
                    if not _same_place(b, t["args"][0], p):
                        continue
                    sw = b.blocks[t["target"]]["term"]
                    if sw["k"] != "switch":
                        continue
                    zero = [x for vv, x in sw["targets"] if vv == 0]
                    if not zero:
                        continue
                    free = (t["target"], 0, zero[0]) if f["name"] == "is_some" else (t["target"], "otherwise", sw["otherwise"])
                    taken = sw["otherwise"] if f["name"] == "is_some" else zero[0]
                    dom = b.edge_dominates(free[0], free[1], free[2], bi)
                    r = b.reachable_from(taken)
                    errs = bi not in r
                    if dom and errs:
                        ok = True
                if not ok:
                    # the same guard as a match on the accumulator: `match acc { Some(_) => return Err(..), None => acc = Some(..) }`
                    for sb in sorted(b.reach()):
                        sw = b.blocks[sb]["term"]
                        if sw["k"] != "switch":
                            continue
                        for ds in b.blocks[sb]["stmts"]:
                            if not (ds["k"] == "assign" and ds["rv"]["k"] == "discr" and ds["rv"]["p"]["l"] == p["l"] and [e["k"] for e in ds["rv"]["p"]["pr"]] == [e["k"] for e in p["pr"]]):
                                continue
                            none_e = enum_edge(b, sb, 0)
                            some_e = enum_edge(b, sb, 1)
                            if none_e and some_e and b.edge_dominates(none_e[0], none_e[1], none_e[2], bi) and bi not in b.reachable_from(some_e[2]):
                                ok = True
                ctx.ob(f"dup-guard:{b.name}:{name}", ok, site(b, bi), f"`{name} = Some(..)` is guarded by an is_some() test that returns an error" if ok else f"`{name}` can be overwritten by a repeated option")
                guarded_sites.setdefault(b.id, []).append((p["l"] if not p["pr"] else None, ok))
    if n == 0:
        ctx.ob("accumulators", False, site(parse_fn), "no Option<Format> accumulator store found in the argument parser")
    # every Option<Format> accumulator of the parser is written through such a store (directly, or by a
    # local helper that receives `&mut acc`)
    accs = [l for l in range(parse_fn.nargs + 1, len(parse_fn.raw["locals"])) if parse_fn.local_name(l) and parse_fn.local_ty(l) == "std::option::Option<xt::Format>"]
    ctx.need(len(accs) >= 2, f"expected the -f and -t accumulators (named Option<Format> locals) in {parse_fn.name}, found {len(accs)}")
    for acc in accs:
        direct = [ok for l, ok in guarded_sites.get(parse_fn.id, []) if l == acc]
        via = []
        for bb, t in parse_fn.calls():
            f = fn_of(t) or {}
            if not f.get("local"):
                continue
            for a in t["args"]:
                if is_place(a) and "&mut std::option::Option<xt::Format>" in parse_fn.local_ty(a["p"]["l"]) and _referent(parse_fn, a) == acc:
                    cid = f.get("resolved") or f["def"]
                    via += [ok for _, ok in guarded_sites.get(cid, [])] or [False]
        writes = direct + via
        ctx.ob(f"accumulator:{parse_fn.local_name(acc)}", bool(writes) and all(writes), site(parse_fn), f"`{parse_fn.local_name(acc)}` is written by {len(direct)} direct and {len(via)} helper store(s), all guarded" if writes and all(writes) else f"`{parse_fn.local_name(acc)}` has an unguarded or unrecognised write")


def _root_param(b, local):
    tr = trace(b, {"k": "copy", "p": {"l": local, "pr": []}})
    if tr.origin and tr.origin[0] == "arg":
        return tr.origin[1]
    return local


def _same_place(b, op, place):
    """`op` is a reference to `place` (same base local, through the same derefs)."""
    tr = trace(b, op)
    target_root = _root_param(b, place["l"]) if place["pr"] else place["l"]
    if tr.origin and tr.origin[0] == "arg":
        return tr.origin[1] == target_root
    if tr.origin and tr.origin[0] == "multi":
        return tr.origin[1] == target_root
    if tr.origin and tr.origin[0] in ("agg", "const") and not place["pr"]:
        # `&from` where from has a single def (None): compare the base local by walking refs
        cur = op
        for _ in range(6):
            if not is_place(cur):
                return False
            l = cur["p"]["l"]
            if l == place["l"]:
                return True
            ds = b.whole_defs(l)
            if len(ds) != 1 or ds[0][2] != "assign":
                return False
            rv = ds[0][3]["rv"]
            if rv["k"] == "ref":
                return rv["p"]["l"] == place["l"]
            if rv["k"] == "use":
                cur = rv["op"]
                continue
            return False
    return False


# --------------------------------------------------------------------------- C14


UNWRAPS = ("std::result::Result::<T, E>::unwrap_or_else", "std::result::Result::<T, E>::unwrap", "std::result::Result::<T, E>::expect")
OPTION_FALLBACK = ("std::option::Option::<T>::or_else", "std::option::Option::<T>::or")


def _const_rows(op):
    """[(literal, Format variant)] when a constant operand is a decoded table of (&str, Format) rows."""
    d = op.get("decoded") if isinstance(op, dict) else None
    if not d or "seq" not in d:
        return None
    rows = []
    for r in d["seq"]:
        t = r.get("tuple")
        if not t or len(t) != 2 or "str" not in t[0] or t[1].get("adt") != "xt::Format":
            return None
        rows.append((t[0]["str"], t[1]["variant"]))
    return rows or None


def _lookup_table(binc, b):
    """(rows, const operand site) when `b` looks its answer up in a constant table of (&str, Format) rows."""
    for bi, blk in enumerate(b.blocks):
        ops = []
        for s_ in blk["stmts"]:
            if s_["k"] == "assign" and s_["rv"]["k"] == "use":
                ops.append(s_["rv"]["op"])
        if blk["term"]["k"] == "call":
            ops += blk["term"]["args"]
        for o in ops:
            rows = _const_rows(o) if o.get("k") == "const" else None
            if rows:
                return rows, bi
    return None, None


def _extension_fn(binc):
    """[(body, {literal: Format variant}, default, form)]: the extension lookup, written as a match over string
    literals (form 'match') or as a search through a constant table of (&str, Format) rows (form 'lookup')."""
    cands = []
    for b in binc.bodies:
        if b.local_ty(0) == "std::option::Option<xt::Format>" and b.raw["def_kind"] in ("Fn", "AssocFn"):
            table, default = format_table(binc, b)
            if table:
                cands.append((b, table, default, "match"))
                continue
            rows, _ = _lookup_table(binc, b)
            if rows:
                tb = {}
                dup = False
                for lit, var in rows:
                    dup = dup or lit in tb
                    tb.setdefault(lit, var)
                # the answer for an unknown extension: nothing in the function (or its closures) builds a
                # Format of its own, and no fallback combinator supplies one
                bodies = [b] + list(binc.closures_of(b))
                own = any(s_["k"] == "assign" and s_["rv"]["k"] == "aggregate" and s_["rv"].get("adt") == "xt::Format" for x in bodies for blk in x.blocks for s_ in blk["stmts"])
                own = own or any(o.get("k") == "const" and o.get("ty") == "xt::Format" for x in bodies for blk in x.blocks for s_ in blk["stmts"] if s_["k"] == "assign" and s_["rv"]["k"] == "use" for o in [s_["rv"]["op"]])
                fb = any((fn_of(t) or {}).get("name", "").startswith("unwrap_or") or (fn_of(t) or {}).get("name") in ("or", "or_else", "map_or", "map_or_else") for x in bodies for _, t in x.calls())
                cands.append((b, tb, "None" if not own and not fb and not dup else "?", "lookup"))
    return cands


@rule("R14.1", 4, "source format = -f, else extension, else detection: dataflow into every translate_* call; detection only on None", ["C14"])
def r14_1(ctx):
    from r_bin import _returns_call

    v = cliview.view(ctx.facts)
    sup = v.sup
    binc = ctx.bin
    ext = _extension_fn(binc)
    ctx.need(len(ext) == 1, f"expected one extension lookup (fn -> Option<Format> with a literal table), found {len(ext)}")
    ext_fn = ext[0][0]
    pn, pb, pt, parse_fn = v.parse[0]
    pv = vocab.bin_vocab(ctx.facts)["path"]

    def is_primary(node, op):
        p = strace_deep(sup, node, op, extra=UNWRAPS, stop_at=(pt,))
        return bool(p.origin and p.origin[0] == "call" and p.origin[2] is pt and p.has("field")), [s_[1] for s_ in p.steps if s_[0] == "field"]

    def is_ext_lookup(node, op):
        """The operand is the extension lookup's answer: a call of the lookup function, or (when the fallback is
        written inside the lookup function itself) the local that receives the lookup table's result."""
        s2 = strace(sup, node, op)
        if s2.origin and s2.origin[0] == "call" and ((fn_of(s2.origin[2]) or {}).get("resolved") or (fn_of(s2.origin[2]) or {}).get("def")) == ext_fn.id:
            return True
        body = sup.body_of(node)
        if body.id == ext_fn.id and s2.origin and s2.origin[0] == "multi" and all(s_[0] == "use" for s_ in s2.steps):
            defs = s2.origin[2]
            return bool(defs) and all(k_ == "assign" and p_["rv"]["k"] == "aggregate" and p_["rv"].get("adt") == "std::option::Option" for _, _, k_, p_ in defs)
        return False

    def classify(node, op, depth=0):
        """(ok, detail) for the value of `from` read by `op` at `node`."""
        tr = strace_deep(sup, node, op)
        if tr.origin and tr.origin[0] == "const":
            return False, "`from` is a constant: -f and the extension are ignored"
        if tr.origin and tr.origin[0] == "call" and all(s_[0] in ("use", "enter_caller", "enter_callee") for s_ in tr.steps):
            oc = tr.origin[2]
            onode = (tr.origin_node[0], tr.origin[1])
            f = fn_of(oc) or {}
            if f.get("def") not in OPTION_FALLBACK:
                return False, f"`from` is produced by {f.get('def')} (not a recognised option-fallback idiom: or_else / or)"
            prim_ok, pfield = is_primary(onode, oc["args"][0])
            sec_ok = False
            if f["def"].endswith("or_else"):
                for c in f.get("closures", []):
                    cb = binc.by_id.get(c)
                    if cb:
                        r_ok, _ = _returns_call(cb, lambda tt: ((fn_of(tt) or {}).get("resolved") or (fn_of(tt) or {}).get("def")) == ext_fn.id)
                        sec_ok = r_ok
            else:
                sec_ok = is_ext_lookup(onode, oc["args"][1])
            if prim_ok and sec_ok:
                return True, f"{f['def'].rsplit('::', 1)[-1]}(primary = parsed field {pfield}, secondary = extension lookup)"
            if prim_ok:
                return False, "the fallback operand is not the extension lookup"
            return False, "the primary operand is not the parsed -f option (precedence swapped or -f ignored)"
        if tr.origin and tr.origin[0] == "multi" and depth < 2:
            # several definitions (early return for standard input, fallback for files): each must be the fallback
            # form, or the -f option alone on a path that only standard input takes (it has no extension)
            onode = tr.origin_node
            body = sup.body_of(onode)
            dets = []
            for dbb, idx, kind, payload in tr.origin[2]:
                if kind == "assign" and payload["rv"]["k"] == "use":
                    dnode = (onode[0], dbb)
                    ok_d, det_d = classify(dnode, payload["rv"]["op"], depth + 1)
                    if not ok_d:
                        prim_ok, _ = is_primary(dnode, payload["rv"]["op"])
                        stdin_only = False
                        for sb in sorted(body.reach()):
                            for s_ in body.blocks[sb]["stmts"]:
                                if s_["k"] == "assign" and s_["rv"]["k"] == "discr" and pv["path"] in s_["rv"]["p"]["ty"]:
                                    e = enum_edge(body, sb, pv["stdin_idx"])
                                    if e and body.edge_dominates(e[0], e[1], e[2], dbb):
                                        stdin_only = True
                        if not (prim_ok and stdin_only):
                            return False, det_d
                        dets.append("-f alone for standard input")
                    else:
                        dets.append(det_d)
                elif kind == "call":
                    f = fn_of(payload) or {}
                    if f.get("def") in OPTION_FALLBACK:
                        dnode = (onode[0], dbb)
                        prim_ok, pfield = is_primary(dnode, payload["args"][0])
                        sec_ok = is_ext_lookup(dnode, payload["args"][1]) if not f["def"].endswith("or_else") else any(_returns_call(binc.by_id[c], lambda tt: ((fn_of(tt) or {}).get("resolved") or (fn_of(tt) or {}).get("def")) == ext_fn.id)[0] for c in f.get("closures", []) if c in binc.by_id)
                        if not (prim_ok and sec_ok):
                            return False, "the primary operand is not the parsed -f option (precedence swapped or -f ignored)" if not prim_ok else "the fallback operand is not the extension lookup"
                        dets.append(f"{f['def'].rsplit('::', 1)[-1]}(primary = parsed field {pfield}, secondary = extension lookup)")
                    else:
                        return False, f"`from` is produced by {f.get('def')}"
                else:
                    return False, "`from` has a definition of unrecognised form"
            return bool(dets), "; ".join(sorted(set(dets)))
        return False, f"`from` argument originates from {tr.origin[0] if tr.origin else '?'}"

    for n, b, t in v.translate:
        key = f"{fn_of(t)['name']}@{_variant_key(t)}"
        ok, detail = classify(n, t["args"][-1])
        if not ok and fn_of(t)["name"] == "translate_reader":
            # standard input has no extension: the -f option alone is its whole resolution
            rtr_ = strace(sup, n, t["args"][1])
            reads_stdin = bool(rtr_.origin and rtr_.origin[0] == "call" and (fn_of(rtr_.origin[2]) or {}).get("def") == "std::io::Stdin::lock")
            prim_ok_, pfield_ = is_primary(n, t["args"][-1])
            if reads_stdin and prim_ok_:
                ok, detail = True, f"-f alone (parsed field {pfield_}) for a call that reads standard input"
        ctx.ob(f"{key}:from-is-f-then-extension", ok, v.site(n), detail)
    # the parsed field that feeds `from` is the accumulator touched in the -f arm only
    okf, det = _from_field_is_dash_f(binc, parse_fn)
    ctx.ob("parsed-from-is-dash-f", okf, site(parse_fn), det)
    _detect_only_on_none(ctx)


def _unreachable_with_format(lib, det_call):
    """The detection call cannot be reached from any function that takes an `Option<Format>` while that argument is
    `Some(..)`: decided path-sensitively on the function's supergraph (the Option may have been turned into a
    crate-local enum, matched in a helper, or consumed by `map_or_else`), for every such function that reaches the call."""
    entries = 0
    for e in lib.bodies:
        if e.raw["def_kind"] == "Closure":
            continue
        params = [k for k in range(1, e.nargs + 1) if "Option<Format>" in e.local_ty(k) or "Option<crate::Format>" in e.local_ty(k)]
        if not params:
            continue
        sup = Super(lib, e, depth=4)
        dn = [n for n, _, tt in sup.calls() if tt is det_call]
        if not dn:
            continue
        entries += 1
        ps = PathSens(sup, payloads=False)
        start = {((), k): ("var", 1) for k in params}
        reached = ps.explore([(sup.entry, start)])
        if ps.overflow or any(n in reached for n in dn):
            return False
    return entries >= 1


def _detect_only_on_none(ctx):
    det_fn = common.detect_function(ctx.facts)
    lib = ctx.lib
    nn = 0

    def none_guarded(b, bb, depth=0):
        """The block is reached only through the None edge of an Option<Format> parameter of b, or b is a
        helper all of whose callers call it only under such a guard."""
        for sb in b.reach():
            tt = b.blocks[sb]["term"]
            if tt["k"] != "switch":
                continue
            for s in b.blocks[sb]["stmts"]:
                if s["k"] == "assign" and s["rv"]["k"] == "discr" and "Option<Format>" in s["rv"]["p"]["ty"]:
                    root = trace(b, {"k": "copy", "p": {"l": s["rv"]["p"]["l"], "pr": []}})
                    from_param = 1 <= s["rv"]["p"]["l"] <= b.nargs or bool(root.origin and root.origin[0] == "arg")
                    e = enum_edge(b, sb, 0)
                    if from_param and e and b.edge_dominates(e[0], e[1], e[2], bb):
                        return True
        if depth >= 3:
            return False
        callers = []
        for cb in lib.bodies:
            for cbb, ct in cb.calls():
                cf = fn_of(ct) or {}
                if (cf.get("resolved") or cf.get("def")) == b.id:
                    callers.append((cb, cbb))
        return bool(callers) and all(none_guarded(cb, cbb, depth + 1) for cb, cbb in callers)

    for b in lib.bodies:
        for bb, t in b.calls():
            f = fn_of(t) or {}
            if (f.get("resolved") or f.get("def")) == det_fn.id:
                nn += 1
                ok = none_guarded(b, bb)
                if not ok:
                    ok = _unreachable_with_format(lib, t)
                ctx.ob(f"detect-only-on-none:{b.name}", ok, site(b, bb), "detection is reached only through the None edge of the `from` argument" if ok else "detection can run although a source format was given")
    ctx.ob("detect-call-sites", nn >= 1, site(det_fn), f"{nn} call site(s) of the detection driver")


@rule("R05.7", 2, "format detection (and its look-ahead of up to the TOML cap) runs only when no source format was given: an explicit format streams from the first byte", ["C05", "C14"])
def r05_7(ctx):
    _detect_only_on_none(ctx)


@rule("R14.6", 2, "a source format that was given is honoured for every input: with `Some(format)` the library's translate step cannot return success without having handed the input to that format's entry point (no input-dependent shortcut in front of the dispatch: an 'empty input' or 'blank input' guard belongs on the detection arm)", ["C14", "C06", "C03", "C02"])
def r14_6(ctx):
    lib = ctx.lib
    eps = common.input_entry_points(ctx.facts)
    ep_ids = {b.id for b in eps.values()}
    for fmt_ in eps:
        ep_ids |= {b.id for b in common.input_entry_delegators(ctx.facts, fmt_)}
    n = 0
    for e in lib.bodies:
        if e.raw["def_kind"] == "Closure":
            continue
        params = [k for k in range(1, e.nargs + 1) if "Option<Format>" in e.local_ty(k) or "Option<crate::Format>" in e.local_ty(k)]
        if not params:
            continue
        sup = Super(lib, e, depth=3, follow=lambda f_: (f_.get("resolved") or f_.get("def")) not in ep_ids)
        calls = [nn for nn, _, tt in sup.calls() if ((fn_of(tt) or {}).get("resolved") or (fn_of(tt) or {}).get("def")) in ep_ids]
        if not calls:
            continue
        n += 1
        ps = PathSens(sup, payloads=False)
        start = {((), k): ("var", 1) for k in params}
        reached = ps.explore([(sup.entry, start)], removed_nodes=set(calls))
        # returns of the function itself that can be reached without an entry-point call, and can be Ok
        leaks = []
        for x in sup.exits():
            if x not in reached:
                continue
            sts = reached[x] if isinstance(reached, dict) else []
            can_ok = True
            if sts:
                can_ok = False
                for f_ in sts:
                    v_ = f_.get(((), 0)) if isinstance(f_, dict) else None
                    if not (isinstance(v_, tuple) and v_[0] == "var" and v_[1] == 1):
                        can_ok = True
            if can_ok:
                leaks.append(x)
        ok = not leaks and not ps.overflow
        ctx.ob(f"explicit-format-reaches-its-parser:{e.name}", ok, sup.site(leaks[0]) if leaks else site(e),
               f"with a format given, every successful return of `{e.name}` has passed one of the {len(calls)} entry-point call(s)" if ok else
               f"with a format given, `{e.name}` can return Ok without handing the input to the format's parser: an input-dependent shortcut (empty / blank input) sits in front of the dispatch and silences inputs that are valid in the given format (an empty TOML document, MessagePack made of the bytes 0x09 0x0a 0x0d 0x20)")
    ctx.ob("dispatch-functions", n >= 1, "lib", f"{n} function(s) taking Option<Format> and calling the input entry points")


def _from_field_is_dash_f(binc, parse_fn):
    # the Ok(Cli{..}) aggregate
    aggs = [p for _, _, k, p in parse_fn.whole_defs(0) if k == "assign" and p["rv"]["k"] == "aggregate" and p["rv"].get("variant") == "Ok"]
    for a in aggs:
        tr = trace(parse_fn, a["rv"]["ops"][0])
        if not (tr.origin and tr.origin[0] == "agg"):
            continue
        cli = tr.origin[1]["rv"]
        for fname, op in zip(cli.get("fields", []), cli["ops"]):
            if fname != "from":
                continue
            t2 = trace(parse_fn, op)
            acc = None
            if t2.origin and t2.origin[0] == "multi":
                acc = t2.origin[1]
            elif t2.origin and t2.origin[0] == "agg" and is_place(op):
                # single definition (None) mutated through &mut: the local itself
                cur = op
                for _ in range(4):
                    ds = parse_fn.whole_defs(cur["p"]["l"])
                    if len(ds) == 1 and ds[0][2] == "assign" and ds[0][3]["rv"]["k"] == "use" and is_place(ds[0][3]["rv"]["op"]):
                        cur = ds[0][3]["rv"]["op"]
                    else:
                        break
                acc = cur["p"]["l"]
            if acc is None:
                return False, "Cli.from does not come from an accumulator local"
            # option arms: switch on a char with 'f' and 't' targets
            for bi in sorted(parse_fn.reach()):
                t = parse_fn.blocks[bi]["term"]
                if t["k"] == "switch" and t.get("discr_ty") == "char" and any(vv == ord("f") for vv, _ in t["targets"]):
                    tf = [x for vv, x in t["targets"] if vv == ord("f")][0]
                    touched = {}
                    for ch in ("f", "t"):
                        tg = [x for vv, x in t["targets"] if vv == ord(ch)]
                        if not tg:
                            continue
                        blocks = [x for x in parse_fn.reach() if parse_fn.edge_dominates(bi, ord(ch), tg[0], x)]
                        touched[ch] = any(_mentions(parse_fn, x, acc) for x in blocks)
                    ok = touched.get("f") and not touched.get("t")
                    return bool(ok), f"Cli.from is the accumulator `{parse_fn.local_name(acc)}`, touched in the -f arm: {touched.get('f')}, in the -t arm: {touched.get('t')}"
    return False, "Ok(Cli{..}) aggregate with a `from` field not found"


def _mentions(b, bi, local):
    blk = b.blocks[bi]
    for s in blk["stmts"]:
        if s["k"] == "assign":
            if s["p"]["l"] == local:
                return True
            rv = s["rv"]
            if "p" in rv and rv["p"]["l"] == local:
                return True
    t = blk["term"]
    if t["k"] == "call":
        return any(is_place(a) and a["p"]["l"] == local for a in t["args"])
    return False


def _lookup_obligations(ctx, binc, eb, extra):
    """Obligations of the table-search form of the extension lookup; returns [(bb, term)] of the search call
    (what the stdin arm must not reach)."""
    rows, cbi = _lookup_table(binc, eb)
    finds = [(bb, t) for bb, t in eb.calls() if (fn_of(t) or {}).get("def") in ("std::iter::Iterator::find", "std::iter::Iterator::find_map")]
    ctx.ob("table-searched-once", len(finds) == 1, site(eb), f"{len(finds)} Iterator::find over the table")
    if len(finds) != 1:
        return finds
    fbb, ft = finds[0]
    # front to back over the whole constant table
    it = trace(eb, ft["args"][0], passthrough_extra=("core::slice::<impl [T]>::iter", "std::iter::IntoIterator::into_iter"))
    whole = bool(it.origin and it.origin[0] == "const" and _const_rows(it.origin[1]) == rows) and (fn_of(ft) or {}).get("self_ty", "").startswith(("std::slice::Iter<", "std::array::IntoIter<"))
    ctx.ob("search-covers-whole-table", whole, site(eb, fbb), "find runs over slice::iter() of the constant table" if whole else f"the search does not run over the plain table iterator ({(fn_of(ft) or {}).get('self_ty')})")
    # the predicate compares the row's literal with the extension, ignoring ASCII case
    pred_ok, from_ext, detail = False, False, "predicate closure not found"
    for cid in (fn_of(ft) or {}).get("closures", []):
        cb = binc.by_id.get(cid)
        if cb is None:
            continue
        for cbb, ct in cb.calls():
            cf = fn_of(ct) or {}
            is_ci = cf.get("name") == "eq_ignore_ascii_case"
            is_eq = cf.get("trait") == "std::cmp::PartialEq" and cf.get("name") == "eq"
            if not (is_ci or is_eq) or len(ct["args"]) != 2:
                continue
            sides = [trace(cb, a, passthrough_extra=extra) for a in ct["args"]]
            row_side = [x for x in sides if x.origin == ("arg", 2) and [st[1] for st in x.steps if st[0] == "field"][:1] == ["0"]]
            cap_side = [x for x in sides if x.origin == ("arg", 1)]
            if len(row_side) != 1 or len(cap_side) != 1:
                detail = "the predicate does not compare the row's literal with the captured extension"
                continue
            upv = [st[1] for st in cap_side[0].steps if st[0] == "field"][:1]
            lowered = is_ci or any(st[0] == "call" and ("to_ascii_lowercase" in st[1] or "to_lowercase" in st[1]) for st in cap_side[0].steps)
            # the captured value in the parent: the closure aggregate's operand for that upvar
            for bi2, blk in enumerate(eb.blocks):
                for s_ in blk["stmts"]:
                    if s_["k"] == "assign" and s_["rv"]["k"] == "aggregate" and s_["rv"].get("closure") == cid:
                        names = cb.raw.get("upvars", [])
                        idx = names.index(upv[0]) if upv and upv[0] in names else (0 if len(s_["rv"]["ops"]) == 1 else None)
                        if idx is not None and idx < len(s_["rv"]["ops"]):
                            pt = trace(eb, s_["rv"]["ops"][idx], passthrough_extra=extra + ("std::ops::Try::branch",))
                            from_ext = bool(pt.origin and pt.origin[0] == "call" and (fn_of(pt.origin[2]) or {}).get("def") == "std::path::Path::extension")
                            lowered = lowered or any(st[0] == "call" and ("to_ascii_lowercase" in st[1] or "to_lowercase" in st[1]) for st in pt.steps)
            uni_ = any(st[0] == "call" and "to_lowercase" in st[1] and "ascii" not in st[1] for st in cap_side[0].steps)
            pred_ok = lowered and not uni_
            detail = "the extension is lower-cased with the Unicode `to_lowercase` (U+212A KELVIN SIGN becomes `k`): ASCII lowering is wanted" if uni_ else "row literal compared with Path::extension() ignoring ASCII case" if lowered and from_ext else ("extension compared case-sensitively" if from_ext else "compared text does not derive from Path::extension() (last extension)")
    ctx.ob("lowercased-before-compare:table", pred_ok and from_ext, site(eb, fbb), detail)
    # the answer is the format of the row that was found
    res = trace(eb, {"k": "copy", "p": {"l": 0, "pr": []}}, passthrough_extra=("std::option::Option::<T>::copied", "std::option::Option::<T>::cloned"))
    ans_ok = False
    for dbb, idx, kind, payload in eb.whole_defs(0):
        if kind == "call" and (fn_of(payload) or {}).get("def") == "std::option::Option::<T>::map" and payload["args"]:
            rt = trace(eb, payload["args"][0])
            if rt.origin and rt.origin[0] == "call" and rt.origin[2] is ft:
                for cid in (fn_of(payload) or {}).get("closures", []):
                    cb = binc.by_id.get(cid)
                    if cb:
                        r0 = trace(cb, {"k": "copy", "p": {"l": 0, "pr": []}})
                        if r0.origin == ("arg", 2) and [st[1] for st in r0.steps if st[0] == "field"][:1] == ["1"]:
                            ans_ok = True
    ctx.ob("answer-is-found-rows-format", ans_ok, site(eb), "the function returns the Format of the row the search found" if ans_ok else "the returned format is not the found row's second field")
    return finds


@rule("R14.2", 8, "extension table equals the manual and long help; literals lower-case and the extension is lower-cased; stdin has no extension", ["C14"])
def r14_2(ctx):
    binc = ctx.bin
    ext = _extension_fn(binc)
    ctx.need(len(ext) == 1, "extension lookup not found")
    eb, table, default, form = ext[0]
    man = tables.parse_manual()
    want = {}
    for name, info in man["formats"].items():
        for e in info["extensions"]:
            want[e] = VMAP[name]
    for lit in sorted(set(want) | set(table)):
        ctx.ob(f"ext:{lit}", want.get(lit) == table.get(lit), site(eb), f"manual: .{lit} -> {want.get(lit)}; code: {table.get(lit)}")
        ctx.ob(f"ext-lowercase:{lit}", lit == lit.lower(), site(eb), "pattern literal is lower-case")
    ctx.ob("unknown-extension-none", default == "None", site(eb), f"default arm yields {default}")
    helptext = ""
    for b in binc.bodies:
        for bb, t in b.calls():
            if common.is_io_write_call(t) and fn_of(t)["name"] == "write_fmt" and len(t["args"]) > 1:
                tp = common.template_of(b, t["args"][1])
                if tp and "FORMATS" in tp[1]:
                    helptext = tp[1]
    if helptext:
        blk = helptext.split("FORMATS", 1)[1].split("CAVEATS")[0]
        for name, info in man["formats"].items():
            for e in info["extensions"]:
                ctx.ob(f"longhelp-ext:{e}", f".{e}" in blk, "long help", f"long help mentions .{e}")
    cmps = []
    for bb, t in eb.calls():
        f = fn_of(t) or {}
        if f.get("trait") == "std::cmp::PartialEq" and len(t["args"]) == 2 and t["args"][1].get("k") == "const" and "str" in t["args"][1]:
            cmps.append((bb, t))
    extra = ("std::option::Option::<T>::map", "std::option::Option::<T>::and_then", "to_ascii_lowercase", "to_lowercase", "std::string::String::as_str", "std::ffi::OsStr::to_str", "as_str")
    if form == "lookup":
        cmps = _lookup_obligations(ctx, binc, eb, extra)
    else:
        ctx.ob("literal-comparisons-found", len(cmps) >= len(table), site(eb), f"{len(cmps)} literal comparison(s) in MIR for {len(table)} table row(s)")
    for bb, t in (cmps if form == "match" else []):
        lit = t["args"][1]["str"]
        tr = trace(eb, t["args"][0], passthrough_extra=extra)
        from_ext = bool(tr.origin and tr.origin[0] == "call" and (fn_of(tr.origin[2]) or {}).get("def") == "std::path::Path::extension")
        lowered = any(s[0] == "call" and ("to_ascii_lowercase" in s[1] or "to_lowercase" in s[1]) for s in tr.steps)
        for step in tr.steps:
            if step[0] == "call" and (step[1].startswith("std::option::Option::<T>::map") or step[1].startswith("std::option::Option::<T>::and_then")):
                cf = fn_of(eb.blocks[step[2]]["term"])
                # `.map(str::to_ascii_lowercase)`: the lowering function handed over by name
                if any(a.get("k") == "fn" and ("to_ascii_lowercase" in a.get("def", "") or "to_lowercase" in a.get("def", "")) for a in eb.blocks[step[2]]["term"]["args"]):
                    lowered = True
                for c in cf.get("closures", []):
                    cb = binc.by_id.get(c)
                    if cb and any((fn_of(tt) or {}).get("name") in ("to_ascii_lowercase", "to_lowercase") for _, tt in cb.calls()):
                        lowered = True
        # ASCII lowering only: `str::to_lowercase` also folds U+212A KELVIN SIGN to `k` (and U+0130 to `i` + a combining
        # dot), so an extension that is not in the table (`msgpac` + U+212A) would select a format
        uni = any(s[0] == "call" and "to_lowercase" in s[1] and "ascii" not in s[1] for s in tr.steps)
        for step in tr.steps:
            if step[0] == "call" and (step[1].startswith("std::option::Option::<T>::map") or step[1].startswith("std::option::Option::<T>::and_then")):
                cf = fn_of(eb.blocks[step[2]]["term"])
                if any(a.get("k") == "fn" and "to_lowercase" in a.get("def", "") and "ascii" not in a.get("def", "") for a in eb.blocks[step[2]]["term"]["args"]):
                    uni = True
                for c in cf.get("closures", []):
                    cb = binc.by_id.get(c)
                    if cb and any((fn_of(tt) or {}).get("name") == "to_lowercase" for _, tt in cb.calls()):
                        uni = True
        if uni:
            ctx.ob(f"lowercased-before-compare:{lit}", False, site(eb, bb), "the extension is lower-cased with the Unicode `to_lowercase`, which maps U+212A KELVIN SIGN to ASCII `k`: a file whose extension is not in the table (`msgpac` + U+212A) is forced to a format; the table is ASCII and wants `to_ascii_lowercase` / `eq_ignore_ascii_case`")
            continue
        ctx.ob(f"lowercased-before-compare:{lit}", lowered and from_ext, site(eb, bb),
               "Path::extension() is lower-cased before comparison" if lowered and from_ext else ("extension compared without lower-casing (case-sensitive match)" if from_ext else "compared text does not derive from Path::extension() (last extension)"))
    # stdin: no extension — the Stdin edge of the switch on `self` returns None without any comparison
    okn = False
    for bi in sorted(eb.reach()):
        t = eb.blocks[bi]["term"]
        if t["k"] != "switch":
            continue
        for s in eb.blocks[bi]["stmts"]:
            pv = vocab.bin_vocab(ctx.facts)["path"]
            if s["k"] == "assign" and s["rv"]["k"] == "discr" and pv["path"] in s["rv"]["p"]["ty"]:
                sidx = [pv["stdin_idx"]]
                if not sidx:
                    continue
                edges = [(lab, x) for lab, x in eb.edges(bi) if lab == sidx[0]]
                if not edges:
                    # `[1 -> file, otherwise -> stdin]`
                    if sidx[0] not in [vv for vv, _ in t["targets"]]:
                        edges = [("otherwise", t["otherwise"])]
                for lab, tgt in edges:
                    r = eb.reachable_from(tgt)
                    # the answer on that arm: None, or (when the function also applies the -f fallback) the
                    # Option<Format> it was given, untouched
                    def plain_answer(s2):
                        if not (s2["k"] == "assign" and s2["p"]["l"] == 0 and not s2["p"]["pr"]):
                            return False
                        if s2["rv"]["k"] == "aggregate" and s2["rv"].get("variant") == "None":
                            return True
                        if s2["rv"]["k"] == "use" and is_place(s2["rv"]["op"]):
                            t0 = trace(eb, s2["rv"]["op"])
                            return bool(t0.origin and t0.origin[0] == "arg" and t0.origin[1] >= 2 and all(st_[0] == "use" for st_ in t0.steps) and "Option<xt::Format>" in eb.local_ty(t0.origin[1]))
                        return False

                    none_only = not any(bb in r for bb, _ in cmps) and any(plain_answer(s2) for x in r for s2 in eb.blocks[x]["stmts"])
                    okn = none_only
    ctx.ob("stdin-has-no-extension", okn, site(eb), "the stdin arm yields None without looking at a path")


def _referent(b, op):
    """The local a reference operand points to (`&mut G` through copies/reborrows), or None."""
    cur = op
    for _ in range(6):
        if not is_place(cur) or cur["p"]["pr"]:
            return None
        ds = b.whole_defs(cur["p"]["l"])
        if len(ds) != 1 or ds[0][2] != "assign":
            return None
        rv = ds[0][3]["rv"]
        if rv["k"] == "ref":
            pr = [e for e in rv["p"]["pr"] if e["k"] != "deref"]
            if pr:
                return None
            if not rv["p"]["pr"]:
                return rv["p"]["l"]
            cur = {"k": "copy", "p": {"l": rv["p"]["l"], "pr": []}}
            continue
        if rv["k"] == "use":
            cur = rv["op"]
            continue
        return None
    return None


def _replaced_flag(b, m):
    """The flag G when every definition of local `m` is either the constant `false` or the result of
    `mem::replace(&mut G, true)` (the lowering of `cond && mem::replace(&mut G, true)`), else None."""
    flags = set()
    n_false = 0
    for dbb, idx, kind, payload in b.whole_defs(m):
        if kind == "assign" and payload["rv"]["k"] == "use" and payload["rv"]["op"].get("k") == "const" and payload["rv"]["op"].get("v") is False:
            n_false += 1
        elif kind == "call" and (fn_of(payload) or {}).get("def") == "std::mem::replace" and const_value(payload["args"][1]) is True:
            flags.add(_referent(b, payload["args"][0]))
        else:
            return None
    if len(flags) == 1 and None not in flags:
        return flags.pop()
    return None


def _use_once_handle(ctx, v, sup, ps, sn):
    b = sup.body_of(sn)
    t_sn = b.blocks[sn[1]]["term"]
    if t_sn["k"] != "call" or t_sn["dest"]["pr"]:
        return False
    hl = t_sn["dest"]["l"]
    opt = None
    stores = []
    for bi, blk in enumerate(b.blocks):
        for s_ in blk["stmts"]:
            if s_["k"] == "assign" and not s_["p"]["pr"] and s_["rv"]["k"] == "aggregate" and s_["rv"].get("variant") == "Some" and b.local_ty(s_["p"]["l"]).startswith("std::option::Option<std::io::Stdin"):
                src = trace(b, s_["rv"]["ops"][0]) if s_["rv"]["ops"] else None
                if src is not None and src.origin and src.origin[0] == "call" and src.origin[2] is t_sn and all(x[0] == "use" for x in src.steps):
                    opt = s_["p"]["l"]
                stores.append((s_["p"]["l"], (sn[0], bi)))
    if opt is None:
        return False
    takes = [(sn[0], bb) for bb, t in b.calls() if (fn_of(t) or {}).get("def") == "std::option::Option::<T>::take" and t["args"] and _referent(b, t["args"][0]) == opt]
    if len(takes) != 1:
        return False
    tn = takes[0]
    # the handle is used for nothing else: the Option is only tested, taken and dropped
    other = []
    for bb, t in b.calls():
        f = fn_of(t) or {}
        for a in t["args"]:
            if is_place(a) and (_referent(b, a) == opt or (not a["p"]["pr"] and a["p"]["l"] == opt)) and f.get("def") not in ("std::option::Option::<T>::take", "std::option::Option::<T>::is_none", "std::option::Option::<T>::is_some"):
                other.append(f.get("def"))
    done = False
    for gn in sorted(v.nodes, key=str):
        if gn[0] != sn[0]:
            continue
        t = b.blocks[gn[1]]["term"]
        if t["k"] != "switch":
            continue
        tr = trace(b, t["discr"])
        zero = [x for vv, x in t["targets"] if vv == 0]
        clear_edge = set_edge = None
        if tr.origin and tr.origin[0] == "call" and (fn_of(tr.origin[2]) or {}).get("def") in ("std::option::Option::<T>::is_none", "std::option::Option::<T>::is_some") and tr.origin[2]["args"] and _referent(b, tr.origin[2]["args"][0]) == opt and zero:
            e_false = (gn, 0, (gn[0], zero[0]))
            e_true = (gn, "otherwise", (gn[0], t["otherwise"]))
            if fn_of(tr.origin[2])["name"] == "is_none":
                clear_edge, set_edge = e_false, e_true
            else:
                clear_edge, set_edge = e_true, e_false
        if clear_edge is None or not ps.edge_dominates(clear_edge[0], clear_edge[1], clear_edge[2], tn):
            continue
        done = True
        oname = b.local_name(opt) or f"_{opt}"
        ctx.ob("guard-dominates-stdin", True, v.site(gn), f"the one stdin handle lives in `{oname}: Option<Stdin>`; it is taken out only on the edge where it is still there (use-once handle)")
        r, terms, ok = _only_exit(v, ("edge", set_edge), 1)
        ctx.ob("second-use-exits-1", ok, v.site(gn), "second use of stdin ends in exit(1)" if ok else "second use of stdin is not refused")
        ctx.ob("flag-set-before-read", not other, v.site(tn), f"standard input is read only through the handle `{oname}.take()` hands out (the Option is empty from then on)" if not other else f"`{oname}` is also used by {other}: the handle can be reached without taking it")
        inside = [n_ for l_, n_ in stores if l_ == opt and sup.on_cycle(n_)]
        ctx.ob("stdin-not-reachable-again", not inside and not sup.on_cycle(sn), v.site(sn), "the handle is created once, outside the input loop, and never put back" if not inside and not sup.on_cycle(sn) else f"`{oname}` is refilled inside the input loop")
        ctx.ob("flag-cleared-only-before-loop", not inside, site(b), f"`{oname} = Some(..)` only outside the input loop" if not inside else f"`{oname}` is refilled inside the input loop")
        break
    return done


@rule("R14.3", 5, "standard input is read at most once: the only stdin() site is dominated by a set-once bool guard whose set edge exits 1", ["C14", "C15", "C13"])
def r14_3(ctx):
    v = cliview.view(ctx.facts)
    sup, ps = v.sup, v.ps
    binc = ctx.bin
    all_sites = [(b, bb) for b in binc.bodies for bb, t in b.calls() if (fn_of(t) or {}).get("def") == "std::io::stdin"]
    # one read site inside the input loop (guarded below); further sites are acceptable only where nothing can follow
    # them that reads standard input again (`if no operands { translate stdin; return }`)
    looped = [x for x in v.stdin if sup.on_cycle(x[0])]
    single = [x for x in v.stdin if not sup.on_cycle(x[0])]
    once_ok = True
    for x in single:
        after = v.reach_after(x[0])
        if any(y[0] in after for y in v.stdin):
            once_ok = False
    ok_sites = len(all_sites) == len(v.stdin) and len(v.stdin) >= 1 and len(looped) <= 1 and once_ok
    ctx.ob("single-stdin-site", ok_sites, site(v.main), f"{len(all_sites)} std::io::stdin() site(s), {len(v.stdin)} reachable from main: {len(looped)} in the input loop, {len(single)} after which no further read of standard input is reachable" if ok_sites else f"{len(all_sites)} std::io::stdin() site(s), {len(v.stdin)} reachable from main, {len(looped)} inside a loop: standard input can be read at more than one place in one run")
    if not ok_sites:
        return
    if not looped:
        if len(v.stdin) == 1:
            looped = list(v.stdin)  # the historical shape: one site, judged below
        else:
            return
    sn = looped[0][0]
    found = False
    # idiom (i): `if G { bail }  G = true`;  idiom (ii): `if mem::replace(&mut G, true) { bail }`
    for gn in sorted(v.nodes, key=str):
        b = sup.body_of(gn)
        t = b.blocks[gn[1]]["term"]
        if t["k"] != "switch" or t.get("discr_ty") != "bool":
            continue
        tr = trace(b, t["discr"])
        zero = [x for vv, x in t["targets"] if vv == 0]
        if not zero:
            continue
        g = None
        idiom = None
        if tr.origin and tr.origin[0] == "multi" and b.local_name(tr.origin[1]):
            g, idiom = tr.origin[1], "test-then-set"
            # `let again = <cond> && mem::replace(&mut G, true);`: the tested local is only ever `false` or the
            # previous value of G, which the same call sets
            via = _replaced_flag(b, tr.origin[1])
            if via is not None:
                g, idiom = via, "mem::replace"
        elif tr.origin and tr.origin[0] == "call" and (fn_of(tr.origin[2]) or {}).get("def") == "std::mem::replace" and const_value(tr.origin[2]["args"][1]) is True:
            g = _referent(b, tr.origin[2]["args"][0])
            idiom = "mem::replace"
        through_param = None
        if g is None and idiom == "mem::replace":
            # `mem::replace(flag, true)` with `flag: &mut bool` lent by the caller
            at_ = trace(b, tr.origin[2]["args"][0])
            if at_.origin and at_.origin[0] == "arg" and b.local_ty(at_.origin[1]) == "&mut bool" and all(s_[0] in ("use", "ref", "deref") for s_ in at_.steps):
                through_param = at_.origin[1]
                g, idiom = through_param, "mem::replace through &mut"
        if g is None and tr.origin and tr.origin[0] == "arg" and b.local_ty(tr.origin[1]) == "&mut bool" and any(s_[0] == "deref" for s_ in tr.steps) and all(s_[0] in ("use", "deref") for s_ in tr.steps):
            # the flag lives in the caller and is lent to this function as `&mut bool`
            through_param = tr.origin[1]
            g, idiom = through_param, "test-then-set through &mut"
        if g is None:
            continue
        false_edge = (gn, 0, (gn[0], zero[0]))
        if not ps.edge_dominates(false_edge[0], false_edge[1], false_edge[2], sn):
            continue
        found = True
        gname = b.local_name(g) or f"_{g}"
        ctx.ob("guard-dominates-stdin", True, v.site(gn), f"stdin() is reached only through the clear edge of `{gname}` ({idiom})")
        r, terms, ok = _only_exit(v, ("edge", (gn, "otherwise", (gn[0], t["otherwise"]))), 1)
        ctx.ob("second-use-exits-1", ok, v.site(gn), "second use of stdin ends in exit(1)" if ok else "second use of stdin is not refused")
        setters, clears = [], []
        for bi, blk in enumerate(b.blocks):
            for s in blk["stmts"]:
                direct = not s.get("p", {}).get("pr") if s["k"] == "assign" else False
                via_deref = s["k"] == "assign" and through_param is not None and [e_["k"] for e_ in s["p"]["pr"]] == ["deref"]
                if s["k"] == "assign" and ((through_param is None and direct) or via_deref) and s["p"]["l"] == g and s["rv"]["k"] == "use" and s["rv"]["op"].get("k") == "const":
                    (setters if s["rv"]["op"].get("v") is True else clears).append((gn[0], bi))
        owner_name = None
        if through_param is not None:
            # the lender's own variable: cleared (initialised) there, outside the loop
            res = sup.caller_operand(gn, through_param)
            if res:
                (cpath, cbb), caller, cop = res
                owner = _referent(caller, cop)
                if owner is not None:
                    owner_name = caller.local_name(owner)
                    for bi, blk in enumerate(caller.blocks):
                        for s in blk["stmts"]:
                            if s["k"] == "assign" and not s["p"]["pr"] and s["p"]["l"] == owner and s["rv"]["k"] == "use" and s["rv"]["op"].get("k") == "const":
                                (setters if s["rv"]["op"].get("v") is True else clears).append((cpath, bi))
        if idiom.startswith("mem::replace"):
            armed = True
        else:
            armed = sn not in ps.reach_from_edge(false_edge[0], false_edge[1], false_edge[2], removed_nodes=setters)
        ctx.ob("flag-set-before-read", armed, v.site(sn), f"`{gname}` is set before stdin() on every path" if armed else f"`{gname}` is not set before reading stdin")
        # the same fact decided semantically: with the flag's value tracked along every path (constant stores and
        # mem::replace on the flag are modelled), no path leads from a completed stdin() call to stdin() again
        again = sn in v.reach_after(sn) if through_param is None else False
        ctx.ob("stdin-not-reachable-again", not again, v.site(sn), "decided structurally (the flag is lent as &mut bool: its value is not tracked across the call)" if through_param is not None else "no feasible path reaches stdin() a second time" if not again else "a path from the first stdin() read reaches stdin() again")
        cl_ok = all(not sup.on_cycle(c) for c in clears) and len(clears) >= 1
        ctx.ob("flag-cleared-only-before-loop", cl_ok, site(b), f"`{gname} = false` only outside the input loop" if cl_ok else f"`{gname}` is reset inside the input loop")
    if not found:
        # idiom (iii): the flag is a two-state field of a session-like struct, tested and set by a method
        import flagstate

        for adt_path, a in binc.adts.items():
            if a["crate"] != "xt" or a["kind"] != "struct" or found:
                continue
            for fl in flagstate.flags_of(binc, adt_path):
                for tst in flagstate.tests(sup, fl):
                    ce, se = tst["edges"][flagstate.CLEAR], tst["edges"][flagstate.SET]
                    if not ps.edge_dominates(ce[0], ce[1], ce[2], sn):
                        continue
                    found = True
                    gname = fl.field
                    ctx.ob("guard-dominates-stdin", True, v.site(tst["node"]), f"stdin() is reached only through the clear edge of `{gname}` (field of {adt_path})")
                    r, terms, ok = _only_exit(v, ("edge", se), 1)
                    ctx.ob("second-use-exits-1", ok, v.site(tst["node"]), "second use of stdin ends in exit(1)" if ok else "second use of stdin is not refused")
                    import r_c08

                    setters = r_c08._set_nodes(sup, fl)
                    armed = (tst["how"] == "replace" and tst.get("wrote") == flagstate.SET) or sn not in ps.reach_from_edge(ce[0], ce[1], ce[2], removed_nodes=setters)
                    ctx.ob("flag-set-before-read", armed, v.site(sn), f"`{gname}` is set before stdin() on every path" if armed else f"`{gname}` is not set before reading stdin")
                    ws = flagstate.writes(binc, fl)
                    cl_ok = all(role == flagstate.SET for _, _, role, _ in ws) and not flagstate.mut_borrow_escapes(binc, fl) and bool(ws)
                    ctx.ob("flag-cleared-only-before-loop", cl_ok, adt_path, f"`{gname}` is only ever set after construction" if cl_ok else f"`{gname}` can be reset")
    if not found:
        # idiom (iv): the handle itself is the token. `let mut stdin = Some(io::stdin())` once, outside the loop; the
        # input's turn does `if stdin.is_none() { bail }` .. `stdin.take()` and reads through what it took: after the
        # first turn there is no handle left to read from
        found = _use_once_handle(ctx, v, sup, ps, sn)
    if not found:
        ctx.ob("guard-dominates-stdin", False, v.site(sn), "no set-once bool guard dominates the stdin() site")
    # "-" -> stdin; no file arguments -> one stdin input
    dash = False
    for b in binc.bodies:
        if b.raw.get("impl_trait") == "std::convert::From" and vocab.bin_vocab(ctx.facts)["path"]["path"] in b.local_ty(0):
            for bb, t in b.calls():
                f = fn_of(t) or {}
                if f.get("trait", "").startswith("std::cmp::PartialEq"):
                    has_dash = False
                    for a in t["args"]:
                        x = trace(b, a)
                        if x.origin and x.origin[0] == "const" and x.origin[1].get("str") == "-":
                            has_dash = True
                        if x.origin and x.origin[0] == "call":
                            for a2 in x.origin[2]["args"]:
                                y = trace(b, a2)
                                if a2.get("str") == "-" or (y.origin and y.origin[0] == "const" and y.origin[1].get("str") == "-"):
                                    has_dash = True
                    sw = b.blocks[t["target"]]["term"]
                    if has_dash and sw["k"] == "switch":
                        tb = sw["otherwise"]
                        dash = any(s["k"] == "assign" and s["rv"]["k"] == "aggregate" and s["rv"].get("adt") == vocab.bin_vocab(ctx.facts)["path"]["path"] and s["rv"].get("variant") == vocab.bin_vocab(ctx.facts)["path"]["stdin"] for s in b.blocks[tb]["stmts"])
    ctx.ob("dash-means-stdin", dash, "bin", "path \"-\" maps to the stdin variant")
    empty = False
    for n, b, t in v.calls:
        f = fn_of(t) or {}
        if f.get("name") == "is_empty" and "PathBuf" in f.get("full", ""):
            sw = b.blocks[t["target"]]["term"]
            if sw["k"] == "switch":
                r = b.reachable_from(sw["otherwise"], removed_nodes=[x for vv, x in sw["targets"]])
                empty = any(s["k"] == "assign" and s["rv"]["k"] == "aggregate" and s["rv"].get("adt") == vocab.bin_vocab(ctx.facts)["path"]["path"] and s["rv"].get("variant") == vocab.bin_vocab(ctx.facts)["path"]["stdin"] for x in r for s in b.blocks[x]["stmts"])
                # or the arm translates standard input right there
                empty = empty or any(b.blocks[x]["term"]["k"] == "call" and (fn_of(b.blocks[x]["term"]) or {}).get("def") == "std::io::stdin" for x in r)
    ctx.ob("no-files-means-stdin", empty, site(v.main), "an empty path list yields one stdin input")


def _reused_buffer_fresh(v, node, t):
    """For `translate_slice(&buf, ..)` with `buf` a `Vec<u8>` local of the frame that runs the input loop:
    (ok, detail) - ok when no feasible path leads from this call back to it (a later input) without passing a reset of
    that very buffer (`clear()`, `truncate(0)`); None when the argument is not such a buffer."""
    sup = v.sup
    tr = strace(sup, node, t["args"][1], extra=("std::ops::Deref::deref",))
    if not (tr.origin and tr.origin[0] in ("call", "multi", "rvalue")):
        return None
    if tr.origin[0] == "call":
        l = tr.origin[2]["dest"]["l"] if not tr.origin[2]["dest"]["pr"] else None
    elif tr.origin[0] == "multi":
        l = tr.origin[1]
    else:
        l = tr.origin[1]["p"]["l"] if isinstance(tr.origin[1], dict) and "p" in tr.origin[1] and not tr.origin[1]["p"]["pr"] else None
    ob = sup.body_of(tr.origin_node)
    if l is None or not ob.local_ty(l).startswith("std::vec::Vec<u8"):
        return None
    home = (tr.origin_node[0], l)
    resets = []
    for n2, b2, t2 in v.calls:
        f2 = fn_of(t2) or {}
        if not (f2.get("def", "").startswith("std::vec::Vec") and f2.get("name") in ("clear", "truncate") and t2["args"]):
            continue
        if f2["name"] == "truncate" and not (len(t2["args"]) == 2 and const_value(t2["args"][1]) == 0):
            continue
        r2 = strace(sup, n2, t2["args"][0])
        l2 = None
        if r2.origin and r2.origin[0] == "call" and not r2.origin[2]["dest"]["pr"]:
            l2 = r2.origin[2]["dest"]["l"]
        elif r2.origin and r2.origin[0] == "multi":
            l2 = r2.origin[1]
        if l2 is not None and (r2.origin_node[0], l2) == home:
            resets.append(n2)
    again = v.reach_after(node, removed_nodes=resets)
    ok = node not in again
    return (ok, f"between two uses of the shared buffer it is always reset ({len(resets)} reset site(s))" if ok else "the shared input buffer can reach this call again without having been reset: a later input would be translated from an earlier input's bytes")


@rule("R14.4", 6, "mmap failure falls back to the reader; open errors are returned; each input variant feeds the matching translate_* call unchanged", ["C14", "C05"])
def r14_4(ctx):
    v = cliview.view(ctx.facts)
    sup = v.sup
    ctx.ob("mmap-attempted", len(v.mmap) == 1, site(v.main), f"{len(v.mmap)} Mmap::map call(s) reachable from main")
    for n, b, t in v.mmap:
        sw = b.blocks[t["target"]]["term"]
        if sw["k"] != "switch":
            ctx.ob("mmap-result-branched", False, v.site(n), "Mmap::map result is not branched on")
            continue
        err_t = sw["otherwise"] if any(vv == 0 for vv, _ in sw["targets"]) else [x for vv, x in sw["targets"] if vv == 1][0]
        r = b.reachable_from(err_t)
        bad = []
        for x in r:
            for s in b.blocks[x]["stmts"]:
                if s["k"] == "assign" and s["p"]["l"] == 0 and s["rv"]["k"] == "aggregate" and s["rv"].get("variant") == "Err":
                    bad.append(x)
            tt = b.blocks[x]["term"]
            if tt["k"] == "call" and tt["dest"]["l"] == 0 and (fn_of(tt) or {}).get("name") == "from_residual":
                bad.append(x)
        filev = any(s["k"] == "assign" and s["rv"]["k"] == "aggregate" and s["rv"].get("adt") == vocab.bin_vocab(ctx.facts)["opened"]["path"] and s["rv"].get("variant") == vocab.bin_vocab(ctx.facts)["opened"]["file"] for x in r for s in b.blocks[x]["stmts"])
        ctx.ob("mmap-failure-falls-back", not bad and filev, v.site(n), "mmap failure yields the file-reader variant" if not bad and filev else "mmap failure becomes an error (FIFOs / process substitution would fail)")
    for n, b, t in v.file_open:
        inspected, starts = v.err_starts(n, t)
        ctx.ob("open-error-handled", inspected, v.site(n), "File::open failure is propagated to the error report")
    for n, b, t in v.translate:
        f = fn_of(t)
        vk = _variant_key(t)
        key = f"{f['name']}@{vk}"
        tr = strace(sup, n, t["args"][1])
        from_lock = bool(tr.origin and tr.origin[0] == "call" and (fn_of(tr.origin[2]) or {}).get("def") == "std::io::Stdin::lock")
        if f["name"] != "translate_slice" and "Stdin" not in vk and "File" not in vk:
            # the call sits in a helper generic over the reader: one instance per calling context, told apart by
            # what the reader is there
            vk = f"{vk}:{'Stdin' if from_lock else 'File'}"
            key = f"{f['name']}@{vk}"
        if f["name"] == "translate_slice" and not any(s[0] == "downcast" for s in tr.steps):
            fresh = _reused_buffer_fresh(v, n, t)
            if fresh is not None:
                # a byte buffer that outlives one input (a scratch Vec lent to `open`): it must be reset for every
                # input it is used for
                ctx.ob(f"{key}:buffer-reset-per-input", fresh[0], v.site(n), fresh[1])
                rtr = strace_deep(sup, n, t["args"][0], stop_at=tuple(x[2] for x in v.new))
                same = bool(rtr.origin and rtr.origin[0] == "call" and v.new and rtr.origin[2] is v.new[0][2])
                ctx.ob(f"{key}:buffer:same-translator", same, v.site(n), "uses the translator constructed before the loop" if same else "translate_* is called on a different translator")
                continue
        if f["name"] == "translate_slice":
            ok = any(s[0] == "downcast" and s[1] == vocab.bin_vocab(ctx.facts)["opened"]["mmap"] for s in tr.steps) and all(s[0] in ("use", "ref", "deref", "field", "downcast", "enter_caller", "agg_field") or (s[0] == "call" and ("Deref" in s[1] or s[1] == "std::ops::Try::branch")) for s in tr.steps)
            ctx.ob(f"{key}:map-passed-as-is", ok, v.site(n), "the mapping is passed as a slice through Deref only" if ok else f"slice argument is transformed: {tr.kinds()}")
        elif "Stdin" in vk:
            ok = bool(tr.origin and tr.origin[0] == "call" and (fn_of(tr.origin[2]) or {}).get("def") == "std::io::Stdin::lock")
            ctx.ob(f"{key}:reads-stdin", ok, v.site(n), "reader is the locked standard input")
        else:
            ok = any(s[0] == "downcast" and s[1] == vocab.bin_vocab(ctx.facts)["opened"]["file"] for s in tr.steps) and all(s[0] in ("use", "field", "downcast", "enter_caller", "agg_field") or (s[0] == "call" and s[1] == "std::ops::Try::branch") for s in tr.steps)
            ctx.ob(f"{key}:file-passed-as-is", ok, v.site(n), "the opened file is the reader" if ok else f"reader argument is transformed: {tr.kinds()}")
        rtr = strace_deep(sup, n, t["args"][0], stop_at=tuple(x[2] for x in v.new))
        same = bool(rtr.origin and rtr.origin[0] == "call" and v.new and rtr.origin[2] is v.new[0][2])
        ctx.ob(f"{key}:same-translator", same, v.site(n), "uses the translator constructed before the loop" if same else "translate_* is called on a different translator")


@rule("R16.3", 2, "stdout is written only through the wrapper: StdoutLock occurs only inside the wrapper type; the sink's stdout handle has no other consumer", ["C16"])
def r16_3(ctx):
    from r_bin import wrapper_impl

    v = cliview.view(ctx.facts)
    sup = v.sup
    m, wty, used, imps = wrapper_impl(ctx.facts)
    idx_lock = wty.find("StdoutLock")
    wrappers = [i["self_adt"] for i in used]
    inside = any(wty.find(w) >= 0 and idx_lock > wty.find(w) for w in wrappers)
    ctx.ob("stdoutlock-inside-wrapper", inside and idx_lock >= 0, site(m), f"sink type {wty}")
    pn, pb, pt, parse_fn = v.parse[0]
    sink_sites = [(n, b, t) for n, b, t in v.stdout_gets if not v.in_context_of(n, parse_fn.id)]
    ctx.ob("single-sink-stdout", len(sink_sites) == 1, site(m), f"{len(sink_sites)} std::io::stdout() call(s) outside the help/version arms")
    locks = [(n, b, t) for n, b, t in v.calls if (fn_of(t) or {}).get("def") == "std::io::Stdout::lock" and not v.in_context_of(n, parse_fn.id)]
    ctx.ob("single-lock", len(locks) == 1, site(m), f"{len(locks)} Stdout::lock call(s) outside the help/version arms")
    for n, b, t in locks:
        ld = t["dest"]["l"]
        us = uses_of_local(b, ld)
        kinds = []
        for ub, ui, how in us:
            if isinstance(how, tuple) and how[0] == "callarg":
                kinds.append(fn_of(b.blocks[ub]["term"])["def"])
            elif how == "drop":
                continue
            else:
                kinds.append(str(how))
        ctx.ob("lock-flows-only-into-sink", len(kinds) == 1, v.site(n), f"the lock is consumed by {kinds}")


_DECODING = ("lexopt::ValueExt::parse", "lexopt::ValueExt::parse_with", "lexopt::ValueExt::string", "std::ffi::OsString::into_string", "std::ffi::OsStr::to_str", "std::ffi::OsStr::to_string_lossy", "core::str::<impl str>::parse")
_LOSSLESS = ("std::convert::From::from", "std::convert::Into::into", "std::path::PathBuf::from", "std::ops::Try::branch")


@rule("R13.6", 1, "operands are taken as the OS strings they are: the value the argument parser adds to its list of input paths comes from lexopt's `Value` payload through lossless conversions only (no UTF-8 decoding that would turn a file name that is not valid UTF-8 into a usage error)", ["C13", "C14"])
def r13_6(ctx):
    binc = ctx.bin
    parsers = [b for b in binc.bodies if any((fn_of(t) or {}).get("def", "").startswith("lexopt::Parser::next") or (fn_of(t) or {}).get("def") == "lexopt::Parser::next" for _, t in b.calls())]
    ctx.need(parsers, "argument parser (a body calling lexopt::Parser::next) not found")
    n = 0
    for b in parsers:
        for bb, t in b.calls():
            f = fn_of(t) or {}
            if f.get("name") != "push" or not f.get("def", "").startswith("std::vec::Vec") or len(t["args"]) != 2:
                continue
            ety = (f.get("args") or [""])[0]
            if "PathBuf" not in ety and "OsString" not in ety and "Path" not in ety:
                continue
            n += 1
            bad = None
            cur = t["args"][1]
            ok = False
            for _ in range(8):
                tr = trace(b, cur, passthrough_extra=("std::ops::Try::branch",))
                if any(s_[0] == "downcast" and s_[1] == "Value" for s_ in tr.steps):
                    ok = True
                    break
                if not (tr.origin and tr.origin[0] == "call"):
                    break
                d = (fn_of(tr.origin[2]) or {}).get("def", "")
                if d in _DECODING:
                    bad = d
                    break
                if (d in _LOSSLESS or (fn_of(tr.origin[2]) or {}).get("trait") in ("std::convert::From", "std::convert::Into")) and tr.origin[2]["args"]:
                    cur = tr.origin[2]["args"][0]
                    continue
                break
            ctx.ob(f"operand-undecoded:{b.name}:{n}", ok and bad is None, site(b, bb),
                   "the operand is the parser's Value payload, converted losslessly" if ok and bad is None else
                   (f"the operand goes through `{bad}`: a file name that is not valid UTF-8 is rejected as a usage error (exit 2, nothing translated) instead of being opened" if bad else "the value added to the input paths does not derive from the parser's Value payload"))
    ctx.ob("operand-pushes", n >= 1, site(parsers[0]), f"{n} place(s) where an operand is added to the list of input paths")


# open(2) flags that std sets anyway (or that change nothing for a read-only open): O_CLOEXEC on Linux
_HARMLESS_OPEN_FLAGS = (0, 0o2000000)


@rule("R14.5", 2, "input files are opened the plain way: read-only and blocking. `OpenOptions` may spell out `read(true)` and flags std sets anyway; a flag that changes what `open`/`read` do (O_NONBLOCK: a FIFO whose writer is late reads as empty or fails with EAGAIN) or a write mode is refused", ["C14", "C05", "C02"])
def r14_5(ctx):
    import deny

    n = 0
    for crate in (ctx.lib, ctx.bin):
        for entry, b, bb, t in deny.hits(crate.bodies, "open-modes"):
            n += 1
            f = fn_of(t) or {}
            v = None
            if len(t["args"]) >= 2:
                v = const_value(t["args"][1])
                if v is None and is_place(t["args"][1]):
                    tr = trace(b, t["args"][1])
                    if tr.origin and tr.origin[0] == "const" and all(s_[0] in ("use", "cast") for s_ in tr.steps):
                        v = tr.origin[1].get("v")
            if entry == "custom_flags":
                ok = isinstance(v, int) and not isinstance(v, bool) and v in _HARMLESS_OPEN_FLAGS
                det = f"custom_flags({v:#o}) — set by std for every open anyway" if ok else f"custom_flags({v if v is None else oct(v)}): the input is no longer opened with the plain blocking read-only semantics the reader path relies on (with O_NONBLOCK a FIFO or process substitution whose writer has not delivered yet reads as end of input or fails with EAGAIN)"
            else:
                ok = v is False
                det = f"{f.get('name')}(false)" if ok else f"the input is opened with `{f.get('name')}({v})`: not a read-only open"
            ctx.ob(f"open-mode:{crate.kind}:{b.name}:{f.get('name')}", ok, site(b, bb), det)
    ctx.ob("open-mode-sites", True, "lib+bin", f"{n} OpenOptions modifier(s) beyond read(true) in xt", trivial=n == 0)
    deny.control_obligations(ctx, "open-modes")
