"""Extra, verdict-neutral work of the thorough tier: the checker self-test banks (seeded violations and
benign variants that name this property) and, for C04, a clippy cross-reference of the panic-edge
inventory. Results go into the evidence file only; the verdict never depends on them."""
import concurrent.futures
import importlib.util
import os
import subprocess
import time

import factgen

VERIF = factgen.VERIF


def _load_runner():
    spec = importlib.util.spec_from_file_location("selftest_run", os.path.join(VERIF, "selftest", "run.py"))
    m = importlib.util.module_from_spec(spec)
    spec.loader.exec_module(m)
    return m


def selftest(pid, jobs=8):
    if os.environ.get("XT_SELFTEST") or os.environ.get("XT_REPO"):
        return {"selftest": "skipped (nested or redirected run)"}
    run = _load_runner()
    work = []
    for bank in ("violations", "benign"):
        bd = os.path.join(VERIF, "selftest", bank)
        if not os.path.isdir(bd):
            continue
        for f in sorted(os.listdir(bd)):
            if not f.endswith(".patch"):
                continue
            meta = run.parse_header(os.path.join(bd, f))
            if pid in meta["property"]:
                work.append((bank, os.path.join(bd, f)))
    # seeded changes from independent sub-agents that name this property
    sd = os.path.join(VERIF, "seeded")
    t0 = time.time()
    for k in range(jobs):
        run.SLOTS.put(k)
    res = []

    def one(w):
        bank, path = w
        # restrict the run to this property's check
        meta = run.parse_header(path)
        r = run.run_one(bank, path, only=pid)
        return r

    # run_one checks every property listed in the header; keep only this property's verdict
    with concurrent.futures.ThreadPoolExecutor(max_workers=jobs) as ex:
        for r in ex.map(one, work):
            res.append(r)
    fired = [r["name"] for r in res if r["bank"] == "violations" and r.get("results", {}).get(pid, {}).get("fired")]
    missed = [r["name"] for r in res if r["bank"] == "violations" and r["status"] != "skipped" and not r.get("results", {}).get(pid, {}).get("fired")]
    quiet = [r["name"] for r in res if r["bank"] == "benign" and r.get("results", {}).get(pid, {}).get("rc") == 0]
    noisy = [r["name"] for r in res if r["bank"] == "benign" and r["status"] != "skipped" and r.get("results", {}).get(pid, {}).get("rc") != 0]
    skipped = [r["name"] for r in res if r["status"] == "skipped"]
    return {
        "selftest": {
            "what": "seeded-violation and benign patches naming this property, each applied to a scratch copy of /repo and checked there (verdict-neutral)",
            "fired": len(fired),
            "violations_total": len(fired) + len(missed),
            "missed": missed,
            "quiet": len(quiet),
            "benign_total": len(quiet) + len(noisy),
            "noisy": noisy,
            "skipped": skipped,
            "wall_s": round(time.time() - t0, 1),
        }
    }


def clippy_crossref():
    """clippy's restriction lints over the lib as an independent opinion on panic-capable source sites."""
    if os.environ.get("XT_SELFTEST") or os.environ.get("XT_REPO"):
        return {}
    env = factgen.env_offline()
    env["CARGO_TARGET_DIR"] = os.path.join(factgen.CACHE, "target-clippy")
    lints = ["unwrap_used", "expect_used", "indexing_slicing", "panic", "unreachable", "arithmetic_side_effects"]
    cmd = ["cargo", "+nightly", "clippy", "--offline", "--lib", "--bins", "--message-format=short", "--"] + [x for l in lints for x in ("-W", "clippy::" + l)]
    try:
        r = subprocess.run(cmd, cwd=factgen.REPO, env=env, stdout=subprocess.PIPE, stderr=subprocess.STDOUT, text=True, timeout=600)
    except Exception as e:  # pragma: no cover
        return {"clippy_crossref": f"not run: {e}"}
    counts = {}
    sites = set()
    for line in r.stdout.splitlines():
        for l in lints:
            if "clippy::" + l in line or (l.replace("_", " ") in line and "warning" in line):
                pass
        if line.startswith("src/") and "warning" in line:
            loc = line.split(" ")[0].rstrip(":")
            sites.add(loc)
    return {"clippy_crossref": {"lints": lints, "warning_sites": len(sites), "sample": sorted(sites)[:10], "rc": r.returncode}}


def extras(pid):
    out = {}
    out.update(selftest(pid))
    if pid == "C04":
        out.update(clippy_crossref())
    return out
