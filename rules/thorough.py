"""Extra, verdict-neutral work of the thorough tier (self-test banks, cross-references)."""


def extras(pid):
    return {}
