"""Anchors shared by several rule modules, located by shape (trait impls, foreign API use)."""
import re
from engine import AnchorLost
from model import Super, PathSens, fn_of, trace, strace, is_place, site

FOREIGN_FMT = {
    "json": ("serde_json",),
    "msgpack": ("rmp_serde", "rmp"),
    "toml": ("toml",),
    "yaml": ("serde_yaml",),
}

_cache = {}


def memo(facts, key, fn):
    k = (id(facts), key)
    if k not in _cache:
        _cache[k] = fn()
    return _cache[k]


def local_trait_impls(crate, trait_name):
    """impl facts whose trait path is the crate-local trait `trait_name`."""
    return [i for i in crate.impls if i.get("trait") == trait_name]


def method_body(crate, impl, name):
    for it in impl["items"]:
        if it["name"] == name:
            return crate.by_id.get(it["def"])
    return None


def foreign_crates_called(crate, body, depth=2):
    s = Super(crate, body, depth=depth)
    out = set()
    for _, _, t in s.calls():
        f = fn_of(t)
        if f:
            out.add(f["crate"])
    return out


def output_trait(facts):
    """The crate-local sink trait, recognised by the shape of its methods, not by its name:
    one method generic over a `serde::Deserializer` (role 'from'), one generic over `serde::Serialize`
    (role 'value'), one non-generic `-> io::Result<()>` (role 'flush').
    Returns {'path': trait path, 'from': name, 'value': name, 'flush': name}."""

    def build():
        found = []
        for tr in facts.lib.raw.get("traits", []):
            roles = {}
            for it in tr["items"]:
                preds = " ".join(it.get("predicates", []))
                if "serde::Deserializer<" in preds or "serde::de::Deserializer<" in preds:
                    roles.setdefault("from", []).append(it["name"])
                elif "serde::Serialize" in preds or "serde::ser::Serialize" in preds:
                    roles.setdefault("value", []).append(it["name"])
                elif it.get("n_type_params") == 0 and it.get("n_inputs") == 1 and it.get("ret_ty") == "std::result::Result<(), std::io::Error>":
                    roles.setdefault("flush", []).append(it["name"])
            if all(len(roles.get(r, [])) == 1 for r in ("from", "value", "flush")):
                found.append({"path": tr["path"], "from": roles["from"][0], "value": roles["value"][0], "flush": roles["flush"][0]})
        if len(found) != 1:
            raise AnchorLost(f"expected one crate-local sink trait (deserializer method, value method, flush), found {len(found)}")
        return found[0]

    return memo(facts, "output_trait", build)


def output_role(facts, f):
    """'from' / 'value' / 'flush' when the callee `f` is a method of the sink trait, else None."""
    if not f:
        return None
    ot = output_trait(facts)
    if f.get("trait") != ot["path"]:
        return None
    for r in ("from", "value", "flush"):
        if f.get("name") == ot[r]:
            return r
    return None


def output_impls(facts):
    """{fmt: {'impl':..., 'adt':..., 'transcode_from': Body, 'transcode_value': Body, 'flush': Body}}
    for the four format output types: impls of the crate-local sink trait on a local ADT (not a
    reference), classified by the third-party serializer crate their entry points call. The keys name
    roles (see output_trait), whatever the methods are called in the source."""

    def build():
        lib = facts.lib
        ot = output_trait(facts)
        out = {}
        for imp in local_trait_impls(lib, ot["path"]):
            if imp["self_ty"].startswith("&"):
                continue
            tf = method_body(lib, imp, ot["from"])
            tv = method_body(lib, imp, ot["value"])
            fl = method_body(lib, imp, ot["flush"])
            if not (tf and tv and fl):
                raise AnchorLost(f"sink impl for {imp['self_ty']} lacks one of its three methods")
            crates = foreign_crates_called(lib, tf) | foreign_crates_called(lib, tv)
            fmts = [f for f, cs in FOREIGN_FMT.items() if any(c in crates for c in cs)]
            if len(fmts) != 1:
                raise AnchorLost(f"cannot classify sink impl {imp['self_ty']}: serializer crates {sorted(crates)}")
            out[fmts[0]] = {
                "impl": imp,
                "adt": imp.get("self_adt"),
                "transcode_from": tf,
                "transcode_value": tv,
                "flush": fl,
            }
        if set(out) != set(FOREIGN_FMT):
            raise AnchorLost(f"expected sink impls for 4 formats, found {sorted(out)}")
        return out

    return memo(facts, "output_impls", build)


def dispatcher_impl(facts):
    """The `Output` impl on a reference type (the static dispatcher)."""
    lib = facts.lib
    imps = [i for i in local_trait_impls(lib, output_trait(facts)["path"]) if i["self_ty"].startswith("&")]
    if len(imps) != 1:
        raise AnchorLost(f"expected exactly one sink impl on a reference (the dispatcher), found {len(imps)}")
    return imps[0]


def is_io_write_call(t, methods=("write", "write_all", "write_fmt", "write_vectored", "write_all_vectored")):
    f = fn_of(t)
    return bool(f and f.get("trait") == "std::io::Write" and f["name"] in methods)


def input_entry_points(facts):
    """{fmt: Body} — the four callees of the match on the source format in Translator::translate,
    classified by the parser crate they call."""

    def build():
        lib = facts.lib
        tr = None
        for b in lib.bodies:
            # the body that calls detect and then dispatches: it calls >= 4 distinct local fns named 'transcode'
            pass
        # locate by: local functions taking input::Handle as first arg and a generic Output, named by module
        out = {}
        cands = {}
        for b in lib.bodies:
            if b.raw["def_kind"] != "Fn":
                continue
            if b.nargs < 2:
                continue
            import vocab

            if not vocab.ty_is(b.local_ty(1), vocab.lib_vocab(facts)["handle"]):
                continue
            if not b.raw.get("ret_ty", "").startswith("std::result::Result<(), error::Error"):
                continue
            crates = foreign_crates_called(lib, b, depth=2)
            fmts = [f for f, cs in FOREIGN_FMT.items() if cs[0] in crates]
            if len(fmts) != 1:
                raise AnchorLost(f"cannot classify input entry point {b.id}: {sorted(crates)}")
            cands.setdefault(fmts[0], []).append(b)
        for fmt, bs in cands.items():
            if len(bs) > 1:
                # `transcode(input, output)` delegating to `transcode_with_limit(input, output, limit)`: the body that
                # does the work is the one the others call; the others are recorded as its delegators
                ids_ = {b.id for b in bs}
                called = {(fn_of(t) or {}).get("resolved") or (fn_of(t) or {}).get("def") for b in bs for _, t in b.calls()} & ids_
                workers = [b for b in bs if b.id in called and not any(((fn_of(t) or {}).get("resolved") or (fn_of(t) or {}).get("def")) in ids_ - {b.id} for _, t in b.calls())]
                if len(workers) != 1:
                    raise AnchorLost(f"several {fmt} input entry points and no single worker among them: {sorted(ids_)}")
                out[fmt] = workers[0]
                _cache[(id(facts), "input_entry_delegators:" + fmt)] = [b for b in bs if b.id != workers[0].id]
            else:
                out[fmt] = bs[0]
        if set(out) != set(FOREIGN_FMT):
            raise AnchorLost(f"expected 4 input entry points (fn(Handle, impl Output) -> Result<()>), found {sorted(out)}")
        return out

    return memo(facts, "input_entry_points", build)


def input_entry_delegators(facts, fmt):
    """Entry-point-shaped functions of `fmt` that only hand their arguments on to the entry point proper."""
    input_entry_points(facts)
    return _cache.get((id(facts), "input_entry_delegators:" + fmt), [])


_PREFIX_ACC = {}


def is_prefix_accessor(lib, cb):
    """The look-ahead accessor of the detection input: a same-crate function of (input, size) that returns the first
    bytes of the input as `io::Result<&[u8]>`, or as an `io::Result` of a small struct that carries that slice next to
    other facts about it (`Prefix { bytes, complete }`)."""
    if cb is None:
        return False
    key = (id(lib), cb.id)
    if key in _PREFIX_ACC:
        return _PREFIX_ACC[key]
    rt = str(cb.raw.get("ret_ty", ""))
    res = rt.startswith("std::result::Result<&[u8], std::io::Error>")
    if not res and cb.nargs == 2 and cb.local_ty(2) == "usize":
        m = re.match(r"^std::result::Result<([A-Za-z0-9_:]+)(<[^>]*>)?, std::io::Error>$", rt)
        a = lib.adts.get(m.group(1)) if m else None
        if a and a.get("kind") == "struct" and a.get("crate") == "xt":
            fs = a["variants"][0]["fields"]
            res = len(fs) <= 3 and sum(1 for f_ in fs if f_["ty"].replace("'", "").replace(" ", "").endswith("[u8]") and f_["ty"].startswith("&")) == 1
    _PREFIX_ACC[key] = res
    return res


def trial_functions(facts):
    """{fmt: Body} — the four detection trials: fn(Ref) -> io::Result<bool>."""

    def build():
        lib = facts.lib
        out = {}
        for b in lib.bodies:
            if b.raw["def_kind"] != "Fn" or b.nargs < 1:
                continue
            import vocab

            if not vocab.ty_is(b.local_ty(1), vocab.lib_vocab(facts)["ref"]):
                continue
            if not b.raw.get("ret_ty", "").startswith("std::result::Result<bool, std::io::Error>"):
                continue
            crates = foreign_crates_called(lib, b, depth=2)
            fmts = [f for f, cs in FOREIGN_FMT.items() if cs[0] in crates]
            if len(fmts) != 1:
                # the YAML trial uses only local code (chunker + libyaml)
                if "unsafe_libyaml" in foreign_crates_called(lib, b, depth=6):
                    fmts = ["yaml"]
                else:
                    raise AnchorLost(f"cannot classify detection trial {b.id}: {sorted(crates)}")
            out[fmts[0]] = b
        if set(out) != set(FOREIGN_FMT):
            raise AnchorLost(f"expected 4 detection trials (fn(Ref) -> io::Result<bool>), found {sorted(out)}")
        return out

    return memo(facts, "trial_functions", build)


class TrialSeq:
    """The detection driver seen as an ordered sequence of trials, whether it is written as straight-line
    code (`if json::input_matches(input.borrow_mut())? { return Ok(Some(Format::Json)) } ...`) or as a loop
    over a constant table of (Format, fn) pairs."""

    def __init__(self):
        self.driver = None
        self.form = None
        self.order = []  # formats in the order their trials run
        self.entries = {}  # fmt -> {site, fresh, fresh_detail, rewinds, acc_site, selected, sel_detail}
        self.stray = []  # (variant, site): a Format chosen without its own trial
        self.problems = []  # structural surprises (fail closed)
        self.dispatcher = None  # form C: the function that runs the trial named by its Format argument

    def before(self, a, b):
        return a in self.order and b in self.order and self.order.index(a) < self.order.index(b)


def _guard_adt(lib):
    import r_c09

    return r_c09._capture_adts(lib)[1]


def _borrow_info(lib, body, call_bb, arg):
    """(fresh_ok, origin_bb, accessor_body, rewinds): the trial's input comes from its own call of a
    same-crate accessor returning a Ref, and that accessor goes through the rewinding guard."""
    tr = trace(body, arg)
    import vocab

    ok = bool(tr.origin and tr.origin[0] == "call" and (fn_of(tr.origin[2]) or {}).get("local") and vocab.ty_is(body.local_ty(tr.origin[2]["dest"]["l"]), vocab.lib_vocab(lib.facts)["ref"]))
    if not ok:
        return False, None, None, False
    acc = lib.by_id.get(fn_of(tr.origin[2]).get("resolved") or fn_of(tr.origin[2])["def"])
    guard = _guard_adt(lib)
    via_guard = False
    if acc is not None:
        for _, _, tt in Super(lib, acc, depth=2).calls():
            if (fn_of(tt) or {}).get("impl_self_adt") == guard:
                via_guard = True
    return True, tr.origin[1], acc, via_guard


def trial_sequence(facts):
    def build():
        lib = facts.lib
        trials = trial_functions(facts)
        ids = {b.id: f for f, b in trials.items()}
        ts = TrialSeq()
        # form A: a function calling all four trials directly; form C: that function merely dispatches on a
        # Format it is given (one trial per arm) and the sequence is a constant array of Formats walked by its
        # only caller
        for b in lib.bodies:
            called = {(fn_of(t) or {}).get("resolved") or (fn_of(t) or {}).get("def") for _, t in b.calls()}
            if set(ids) <= called:
                arms = _dispatch_arms(lib, b, ids)
                if arms is not None:
                    _build_dispatch(lib, ts, ids, b, arms)
                    return ts
                ts.driver, ts.form = b, "inline"
                _build_inline(lib, ts, ids)
                return ts
        # form B: a constant table of (Format, fn pointer) pairs walked by a loop
        for cid, cb in lib.const_bodies.items():
            rows = _table_rows(cb)
            if rows is None:
                continue
            fns = [r[1] for r in rows]
            if not (set(ids) <= set(fns)):
                continue
            users = [b for b in lib.bodies if any(_mentions_const(b, cid))]
            if len(users) != 1:
                raise AnchorLost(f"detection table {cid} is used by {len(users)} functions")
            ts.driver, ts.form = users[0], "table"
            _build_table(lib, ts, ids, cid, cb, rows)
            return ts
        raise AnchorLost("no detection driver found: neither a function calling all four trials nor a constant (Format, fn) table holding them")

    return memo(facts, "trial_sequence", build)


def _mentions_const(b, cid):
    for bi, blk in enumerate(b.blocks):
        for s in blk["stmts"]:
            if s["k"] == "assign":
                rv = s["rv"]
                ops = [rv.get("op"), rv.get("a"), rv.get("b")] + list(rv.get("ops", []))
                for o in ops:
                    if isinstance(o, dict) and o.get("k") == "const" and o.get("def") == cid:
                        yield (bi, "stmt")
        t = blk["term"]
        if t["k"] == "call":
            for a in t["args"]:
                if a.get("k") == "const" and a.get("def") == cid:
                    yield (bi, "call")


def _table_rows(cb):
    """[(variant, fn_def)] of a const initialiser of the form [(Enum::V, f as fn(..)), ...], or None."""
    arr = [p for _, _, k, p in cb.whole_defs(0) if k == "assign" and p["rv"]["k"] == "aggregate" and p["rv"].get("agg") == "array"]
    if len(arr) != 1:
        return None
    rows = []
    for op in arr[0]["rv"]["ops"]:
        tr = trace(cb, op)
        if not (tr.origin and tr.origin[0] == "agg" and tr.origin[1]["rv"].get("agg") == "tuple" and len(tr.origin[1]["rv"]["ops"]) == 2):
            return None
        a, f = tr.origin[1]["rv"]["ops"]

        def _is_fn(o_):
            if o_.get("k") == "fn":
                return True
            if is_place(o_):
                ds_ = cb.whole_defs(o_["p"]["l"])
                return len(ds_) == 1 and ds_[0][2] == "assign" and ds_[0][3]["rv"]["k"] == "cast" and ds_[0][3]["rv"]["op"].get("k") == "fn"
            return False

        swapped = _is_fn(a) and not _is_fn(f)
        if swapped:
            a, f = f, a
        ta = trace(cb, a)
        variant = None
        if ta.origin and ta.origin[0] == "agg":
            variant = ta.origin[1]["rv"].get("variant")
        elif ta.origin and ta.origin[0] == "const":
            variant = ta.origin[1].get("variant")
        fdef = None
        if is_place(f):
            ds = cb.whole_defs(f["p"]["l"])
            if len(ds) == 1 and ds[0][2] == "assign" and ds[0][3]["rv"]["k"] == "cast" and ds[0][3]["rv"]["op"].get("k") == "fn":
                fdef = ds[0][3]["rv"]["op"]["def"]
        elif f.get("k") == "fn":
            fdef = f["def"]
        if variant is None or fdef is None:
            return None
        rows.append((variant, fdef, 1 if swapped else 0))
    return rows


def _format_aggregates(det):
    out = []
    for bi in sorted(det.reach()):
        for s in det.blocks[bi]["stmts"]:
            if s["k"] == "assign" and s["rv"]["k"] == "aggregate" and s["rv"].get("adt") == "Format":
                out.append((bi, s["rv"]["variant"]))
    return out


def _build_inline(lib, ts, ids):
    det = ts.driver
    trial_calls = {}
    borrow_blocks = {}
    for bb, t in det.calls():
        f = fn_of(t) or {}
        r = f.get("resolved") or f.get("def")
        if r not in ids:
            continue
        fmt = ids[r]
        if fmt in trial_calls:
            ts.problems.append(f"the {fmt} trial is called more than once")
        trial_calls[fmt] = (bb, t)
        ok, src_bb, acc, rew = _borrow_info(lib, det, bb, t["args"][0])
        fresh = ok and src_bb not in borrow_blocks.values()
        borrow_blocks[fmt] = src_bb
        ts.entries[fmt] = {"site": site(det, bb), "fresh": fresh, "rewinds": rew, "acc_site": site(acc) if acc else site(det, bb), "selected": False, "sel_site": site(det, bb)}
    # order: by dominance
    fmts = list(trial_calls)
    fmts.sort(key=lambda f_: sum(1 for g in fmts if g != f_ and det.dominates(trial_calls[g][0], trial_calls[f_][0])))
    total = all(det.dominates(trial_calls[fmts[i]][0], trial_calls[fmts[i + 1]][0]) for i in range(len(fmts) - 1))
    if not total:
        ts.problems.append("the trials are not totally ordered by dominance")
    ts.order = fmts
    for bi, variant in _format_aggregates(det):
        v = variant.lower()
        if v not in trial_calls:
            ts.stray.append((variant, site(det, bi)))
            continue
        tb, tt = trial_calls[v]
        ok = False
        for sb in det.reach():
            sw = det.blocks[sb]["term"]
            if sw["k"] != "switch" or sw.get("discr_ty") != "bool":
                continue
            tr = trace(det, sw["discr"])
            if tr.origin and tr.origin[0] == "call" and tr.origin[2] is tt and any(st[0] == "downcast" and st[1] == "Continue" for st in tr.steps):
                if det.edge_dominates(sb, "otherwise", sw["otherwise"], bi):
                    ok = True
        if ok:
            ts.entries[v]["selected"] = True
        else:
            ts.stray.append((variant, site(det, bi)))
        ts.entries[v]["sel_site"] = site(det, bi)


def _build_table(lib, ts, ids, cid, cb, rows):
    det = ts.driver
    # rows pair each Format with its own trial
    order = []
    paired = {}
    fmt_index = rows[0][2] if rows else 0  # which tuple field holds the Format (the fn pointer is the other one)
    fn_index = 1 - fmt_index
    for variant, fdef, _ in rows:
        fmt = ids.get(fdef)
        if fmt is None:
            ts.problems.append(f"table row ({variant}, {fdef}) is not a detection trial")
            continue
        if fmt in order:
            ts.problems.append(f"the {fmt} trial appears twice in the table")
        order.append(fmt)
        paired[fmt] = variant.lower() == fmt
    ts.order = order
    if _build_table_find_map(lib, ts, ids, cid, cb, order, paired, fmt_index, fn_index):
        return
    # the table is walked front to back: into_iter()/iter() on the constant, then Iterator::next on exactly
    # that iterator type (an adaptor such as rev()/skip() would change the receiver type)
    nexts = []
    for bb, t in det.calls():
        f = fn_of(t) or {}
        if f.get("trait") == "std::iter::Iterator" and f.get("name") == "next":
            st = f.get("self_ty", "")
            tr = trace(det, t["args"][0], passthrough_extra=("std::iter::IntoIterator::into_iter", "::iter"))
            from_table = False
            if tr.origin and tr.origin[0] == "const" and tr.origin[1].get("def") == cid:
                from_table = True
            if tr.origin and tr.origin[0] == "multi":
                for _, _, k, p in tr.origin[2]:
                    if k == "assign" and p["rv"]["k"] == "use":
                        t2 = trace(det, p["rv"]["op"], passthrough_extra=("std::iter::IntoIterator::into_iter", "::iter"))
                        if t2.origin and t2.origin[0] == "const" and t2.origin[1].get("def") == cid:
                            from_table = True
            if from_table:
                plain = st.startswith("std::array::IntoIter<") or st.startswith("std::slice::Iter<")
                nexts.append((bb, t, plain, st))
    if len(nexts) != 1:
        ts.problems.append(f"expected one Iterator::next over the detection table, found {len(nexts)}")
        return
    nbb, nt, plain, st = nexts[0]
    if not plain:
        ts.problems.append(f"the detection table is walked through {st}: the order of trials is not the table order")
    nres = nt["dest"]["l"]

    def from_item(op, field_index):
        tr = trace(det, op)
        if not (tr.origin and tr.origin[0] == "call" and tr.origin[2] is nt):
            return False
        fields = [s_[1] for s_ in tr.steps if s_[0] == "field"]
        return any(s_[0] == "downcast" and s_[1] == "Some" for s_ in tr.steps) and fields[:1] == [str(field_index)] and len(fields) == 2

    # the indirect call through the row's fn pointer
    calls = []
    for bb, t in det.calls():
        fo = t.get("func")
        if fo and fo.get("k") != "fn" and is_place(fo) and from_item(fo, fn_index):
            calls.append((bb, t))
    if len(calls) != 1:
        ts.problems.append(f"expected one call through the table's fn pointer, found {len(calls)}")
        return
    cbb, ct = calls[0]
    ok, src_bb, acc, rew = _borrow_info(lib, det, cbb, ct["args"][0])
    fresh = ok and src_bb is not None and det.dominates(nbb, src_bb) and det.on_cycle(src_bb)
    # selection: Some(format) with `format` the row's first field, on the true edge of this call's result
    sel_ok = False
    sel_site = site(det, cbb)
    for bi in sorted(det.reach()):
        for s in det.blocks[bi]["stmts"]:
            if s["k"] == "assign" and s["rv"]["k"] == "aggregate" and s["rv"].get("variant") == "Some" and "Option<Format>" in s["p"]["ty"]:
                sel_site = site(det, bi)
                if not from_item(s["rv"]["ops"][0], fmt_index):
                    ts.stray.append(("<not the row's format>", site(det, bi)))
                    continue
                good = False
                for sb in det.reach():
                    sw = det.blocks[sb]["term"]
                    if sw["k"] != "switch" or sw.get("discr_ty") != "bool":
                        continue
                    tr = trace(det, sw["discr"])
                    if tr.origin and tr.origin[0] == "call" and tr.origin[2] is ct and any(st_[0] == "downcast" and st_[1] == "Continue" for st_ in tr.steps):
                        if det.edge_dominates(sb, "otherwise", sw["otherwise"], bi):
                            good = True
                if good:
                    sel_ok = True
                else:
                    ts.stray.append(("<row format>", site(det, bi)))
    for bi, variant in _format_aggregates(det):
        ts.stray.append((variant, site(det, bi)))
    for fmt in order:
        ts.entries[fmt] = {"site": site(det, cbb), "fresh": fresh, "rewinds": rew, "acc_site": site(acc) if acc else site(det, cbb),
                           "selected": sel_ok and paired.get(fmt, False), "sel_site": sel_site if paired.get(fmt, False) else site(cb)}


def _build_table_find_map(lib, ts, ids, cid, cb, order, paired, fmt_index, fn_index):
    """The table searched with `TABLE.into_iter().find_map(|(..)| trial(input.borrow_mut()).map(|m| m.then_some(format))
    .transpose()).transpose()`: find_map visits the rows in order and stops at the first `Some`, which the closure
    yields for a match (`Some(Ok(format))`) or an I/O error (`Some(Err(e))`). Fills ts.entries and returns True when
    the driver has this shape; returns False (nothing filled) otherwise."""
    det = ts.driver
    fm = [(bb, t) for bb, t in det.calls() if (fn_of(t) or {}).get("trait") == "std::iter::Iterator" and (fn_of(t) or {}).get("name") == "find_map"]
    if len(fm) != 1:
        return False
    fbb, ft = fm[0]
    st = (fn_of(ft) or {}).get("self_ty", "")
    src = trace(det, ft["args"][0], passthrough_extra=("std::iter::IntoIterator::into_iter", "::iter"))
    if not (src.origin and src.origin[0] == "const" and src.origin[1].get("def") == cid):
        return False
    if not (st.startswith("std::array::IntoIter<") or st.startswith("std::slice::Iter<")):
        ts.problems.append(f"the detection table is searched through {st}: the order of trials is not the table order")
    cls = [lib.by_id.get(c) for c in (fn_of(ft) or {}).get("closures", [])]
    cls = [c for c in cls if c is not None]
    if len(cls) != 1:
        ts.problems.append("find_map over the detection table without a single local closure")
        return True
    cl = cls[0]

    def item_field(body, op, idx):
        tr = trace(body, op)
        fields = [s_[1] for s_ in tr.steps if s_[0] == "field"]
        return bool(tr.origin == ("arg", 2) and fields[:1] == [str(idx)] and len(fields) == 1)

    calls = [(bb, t) for bb, t in cl.calls() if t.get("func") and t["func"].get("k") != "fn" and is_place(t["func"]) and item_field(cl, t["func"], fn_index)]
    if len(calls) != 1:
        ts.problems.append(f"expected one call through the table's fn pointer in the find_map closure, found {len(calls)}")
        return True
    cbb, ct = calls[0]
    ok, src_bb, acc, rew = _borrow_info(lib, cl, cbb, ct["args"][0])
    fresh = ok and src_bb is not None  # the closure body runs once per row: a borrow made in it is that row's own
    # the closure's answer: transpose(map(trial result, |matched| matched.then_some(row format)))
    sel_ok = False
    r0 = trace(cl, {"k": "copy", "p": {"l": 0, "pr": []}})
    if r0.origin and r0.origin[0] == "call" and "::transpose" in (fn_of(r0.origin[2]) or {}).get("def", "") and all(x[0] == "use" for x in r0.steps):
        m0 = trace(cl, r0.origin[2]["args"][0])
        if m0.origin and m0.origin[0] == "call" and (fn_of(m0.origin[2]) or {}).get("def") == "std::result::Result::<T, E>::map" and all(x[0] == "use" for x in m0.steps):
            mt = m0.origin[2]
            recv = trace(cl, mt["args"][0])
            inner = [lib.by_id.get(c) for c in (fn_of(mt) or {}).get("closures", [])]
            inner = [c for c in inner if c is not None]
            if recv.origin and recv.origin[0] == "call" and recv.origin[2] is ct and all(x[0] == "use" for x in recv.steps) and len(inner) == 1:
                ib = inner[0]
                i0 = trace(ib, {"k": "copy", "p": {"l": 0, "pr": []}})
                if i0.origin and i0.origin[0] == "call" and (fn_of(i0.origin[2]) or {}).get("def", "").endswith("then_some") and len(i0.origin[2]["args"]) == 2:
                    cond = trace(ib, i0.origin[2]["args"][0])
                    val = trace(ib, i0.origin[2]["args"][1])
                    # the captured value is the row's Format: the environment slot was filled from the item's format field
                    cap_ok = False
                    if val.origin == ("arg", 1):
                        for bi_, blk_ in enumerate(cl.blocks):
                            for s_ in blk_["stmts"]:
                                if s_["k"] == "assign" and s_["rv"]["k"] == "aggregate" and s_["rv"].get("agg") == "closure":
                                    cap_ok = cap_ok or any(is_place(o_) and item_field(cl, {"k": "copy", "p": {"l": _ref_target(cl, o_), "pr": []}}, fmt_index) for o_ in s_["rv"]["ops"] if _ref_target(cl, o_) is not None)
                    sel_ok = bool(cond.origin == ("arg", 2) and all(x[0] == "use" for x in cond.steps) and cap_ok)
    # the driver hands the search result on: Option<Result<Format>> -> Result<Option<Format>>
    d0 = trace(det, {"k": "copy", "p": {"l": 0, "pr": []}})
    hands_on = bool(d0.origin and d0.origin[0] == "call" and "::transpose" in (fn_of(d0.origin[2]) or {}).get("def", "") and trace(det, d0.origin[2]["args"][0]).origin == ("call", fbb, ft))
    if not hands_on:
        ts.problems.append("the result of the table search is not handed on as it is")
    for bi, variant in _format_aggregates(det) + _format_aggregates(cl):
        ts.stray.append((variant, site(det, bi)))
    for fmt in order:
        ts.entries[fmt] = {"site": site(cl, cbb), "fresh": fresh, "rewinds": rew, "acc_site": site(acc) if acc else site(cl, cbb),
                           "selected": sel_ok and hands_on and paired.get(fmt, False), "sel_site": site(cl, cbb) if paired.get(fmt, False) else site(cb)}
    return True


def _ref_target(body, op):
    """Local that a `&x` / `&mut x` operand (single definition) refers to, or None."""
    if not is_place(op) or op["p"]["pr"]:
        return None
    ds = body.whole_defs(op["p"]["l"])
    if len(ds) == 1 and ds[0][2] == "assign" and ds[0][3]["rv"]["k"] == "ref" and not ds[0][3]["rv"]["p"]["pr"]:
        return ds[0][3]["rv"]["p"]["l"]
    return None


def _dispatch_arms(lib, d, ids):
    """{Format variant: trial format} when `d` runs every trial on its own arm of a match over one of its
    parameters (an enum value naming the format to try), handing its own input parameter to the trial; else
    None."""
    from model import enum_edge

    arms = {}
    for p in range(1, d.nargs + 1):
        adt = lib.adts.get(d.local_ty(p))
        if not (adt and adt["kind"] == "enum"):
            continue
        sws = []
        for sb in sorted(d.reach()):
            blk = d.blocks[sb]
            t = blk["term"]
            if t["k"] != "switch" or not is_place(t["discr"]):
                continue
            dl = t["discr"]["p"]["l"]
            if any(s_["k"] == "assign" and s_["p"]["l"] == dl and s_["rv"]["k"] == "discr" and not s_["rv"]["p"]["pr"] and s_["rv"]["p"]["l"] == p for s_ in blk["stmts"]):
                sws.append(sb)
        if len(sws) != 1:
            continue
        sb = sws[0]
        for bb, t in d.calls():
            f = fn_of(t) or {}
            r = f.get("resolved") or f.get("def")
            if r not in ids:
                continue
            tr = trace(d, t["args"][0]) if t["args"] else None
            if not (tr and tr.origin and tr.origin[0] == "arg" and all(s_[0] == "use" for s_ in tr.steps)):
                return None
            on = []
            for var in adt["variants"]:
                e = enum_edge(d, sb, var["idx"])
                if e and d.edge_dominates(e[0], e[1], e[2], bb):
                    on.append(var["name"])
            if len(on) != 1 or on[0] in arms:
                return None
            arms[on[0]] = ids[r]
        if len(arms) == len(ids):
            return {"param": p, "arms": arms, "adt": adt["path"]}
        arms = {}
    return None


def _variant_rows(cb):
    """[variant] of a const initialiser of the form [Enum::A, Enum::B, ...], or None."""
    arr = [p for _, _, k, p in cb.whole_defs(0) if k == "assign" and p["rv"]["k"] == "aggregate" and p["rv"].get("agg") == "array"]
    if len(arr) != 1:
        return None
    rows = []
    for op in arr[0]["rv"]["ops"]:
        tr = trace(cb, op)
        v = None
        if tr.origin and tr.origin[0] == "agg":
            v = tr.origin[1]["rv"].get("variant")
        elif tr.origin and tr.origin[0] == "const":
            v = tr.origin[1].get("variant")
        if v is None:
            return None
        rows.append(v)
    return rows


def _build_dispatch(lib, ts, ids, disp, info):
    """Form C: `for candidate in TABLE { if dispatch(input.borrow_mut(), candidate)? { return Ok(Some(candidate)) } }`."""
    arms = info["arms"]
    sites = [(b, bb, t) for b in lib.bodies for bb, t in b.calls() if ((fn_of(t) or {}).get("resolved") or (fn_of(t) or {}).get("def")) == disp.id]
    if len(sites) != 1:
        raise AnchorLost(f"the trial dispatcher {disp.name} is called from {len(sites)} sites")
    det, cbb, ct = sites[0]
    ts.driver, ts.form = det, "dispatch"
    ts.dispatcher = disp
    # the Format handed to the dispatcher is the item of an Iterator::next over a constant array of Formats
    nexts = []
    for bb, t in det.calls():
        f = fn_of(t) or {}
        if f.get("trait") == "std::iter::Iterator" and f.get("name") == "next":
            st = f.get("self_ty", "")
            srcs = []
            tr = trace(det, t["args"][0], passthrough_extra=("std::iter::IntoIterator::into_iter", "::iter"))
            if tr.origin and tr.origin[0] == "const":
                srcs.append(tr.origin[1].get("def"))
            if tr.origin and tr.origin[0] == "multi":
                for _, _, k, p in tr.origin[2]:
                    if k == "assign" and p["rv"]["k"] == "use":
                        t2 = trace(det, p["rv"]["op"], passthrough_extra=("std::iter::IntoIterator::into_iter", "::iter"))
                        if t2.origin and t2.origin[0] == "const":
                            srcs.append(t2.origin[1].get("def"))
            for cid in srcs:
                cb = lib.const_bodies.get(cid)
                rows = _variant_rows(cb) if cb is not None else None
                if rows is not None:
                    plain = st.startswith("std::array::IntoIter<") or st.startswith("std::slice::Iter<")
                    nexts.append((bb, t, plain, st, rows, cb))
    if len(nexts) != 1:
        ts.problems.append(f"expected one Iterator::next over a constant array of formats in {det.name}, found {len(nexts)}")
        return
    nbb, nt, plain, st, rows, cb = nexts[0]
    if not plain:
        ts.problems.append(f"the format table is walked through {st}: the order of trials is not the table order")

    def from_item(op):
        tr = trace(det, op)
        if not (tr.origin and tr.origin[0] == "call" and tr.origin[2] is nt):
            return False
        fields = [s_[1] for s_ in tr.steps if s_[0] == "field"]
        return any(s_[0] == "downcast" and s_[1] == "Some" for s_ in tr.steps) and len(fields) == 1

    order = []
    for v in rows:
        fmt = arms.get(v)
        if fmt is None:
            ts.problems.append(f"table entry {v} has no trial arm in {disp.name}")
            continue
        if fmt in order:
            ts.problems.append(f"the {fmt} trial appears twice in the table")
        order.append(fmt)
    ts.order = order
    pidx = info["param"] - 1
    if not (len(ct["args"]) > pidx and from_item(ct["args"][pidx])):
        ts.problems.append(f"the format handed to {disp.name} is not the table's current entry")
    in_args = [a for i, a in enumerate(ct["args"]) if i != pidx]
    ok, src_bb, acc, rew = _borrow_info(lib, det, cbb, in_args[0]) if in_args else (False, None, None, False)
    fresh = ok and src_bb is not None and det.dominates(nbb, src_bb) and det.on_cycle(src_bb)
    sel_ok = False
    sel_site = site(det, cbb)
    for bi in sorted(det.reach()):
        for s_ in det.blocks[bi]["stmts"]:
            if s_["k"] == "assign" and s_["rv"]["k"] == "aggregate" and s_["rv"].get("variant") == "Some" and "Option<Format>" in s_["p"]["ty"]:
                sel_site = site(det, bi)
                if not from_item(s_["rv"]["ops"][0]):
                    ts.stray.append(("<not the table's current entry>", site(det, bi)))
                    continue
                good = False
                for sb in det.reach():
                    sw = det.blocks[sb]["term"]
                    if sw["k"] != "switch" or sw.get("discr_ty") != "bool":
                        continue
                    tr = trace(det, sw["discr"])
                    if tr.origin and tr.origin[0] == "call" and tr.origin[2] is ct and any(st_[0] == "downcast" and st_[1] == "Continue" for st_ in tr.steps):
                        if det.edge_dominates(sb, "otherwise", sw["otherwise"], bi):
                            good = True
                if good:
                    sel_ok = True
                else:
                    ts.stray.append(("<table entry>", site(det, bi)))
    for bi, variant in _format_aggregates(det):
        ts.stray.append((variant, site(det, bi)))
    for bi, variant in _format_aggregates(disp):
        ts.stray.append((variant, site(disp, bi)))
    tsite = {}
    for bb, t in disp.calls():
        r = (fn_of(t) or {}).get("resolved") or (fn_of(t) or {}).get("def")
        if r in ids:
            tsite[ids[r]] = site(disp, bb)
    for v, fmt in arms.items():
        if fmt not in order:
            continue
        paired = v.lower() == fmt
        ts.entries[fmt] = {"site": tsite.get(fmt, site(det, cbb)), "fresh": fresh, "rewinds": rew, "acc_site": site(acc) if acc else site(det, cbb),
                           "selected": sel_ok and paired, "sel_site": sel_site if paired else tsite.get(fmt, site(disp))}


def detect_function(facts):
    """The detection driver (see TrialSeq)."""
    return trial_sequence(facts).driver


def bin_main(facts):
    b = facts.bin.by_id.get("main")
    if not b:
        raise AnchorLost("bin crate has no `main`")
    return b


def template_of(body, op):
    """Literal format template reaching a fmt::Arguments operand: returns (kind, text/bytes) or None.
    kind 'str' for Arguments::from_str(const), 'tmpl' for Arguments::new(&[u8;N] template, args)."""
    tr = trace(body, op)
    if tr.origin and tr.origin[0] == "call":
        t = tr.origin[2]
        f = fn_of(t)
        if f and f["def"].startswith("std::fmt::Arguments") or (f and "fmt::Arguments" in f["def"]):
            a0 = t["args"][0] if t["args"] else None
            if a0 is not None:
                tr2 = trace(body, a0)
                if tr2.origin and tr2.origin[0] == "const":
                    c = tr2.origin[1]
                    if f["name"] in ("from_str", "from_str_nonconst") and "str" in c:
                        return ("str", c["str"])
                    if "bytes" in c:
                        return ("tmpl", decode_template(c["bytes"]))
    return None


def template_of_s(sup, node, op):
    """Like template_of, for an operand read at `node` of a supergraph: the fmt::Arguments may have been
    built by a caller and passed down (a diverging `fail(args: fmt::Arguments) -> !` helper).
    Returns (kind, text, origin_node, origin_term) or None."""
    tr = strace(sup, node, op)
    if tr.origin and tr.origin[0] == "call":
        t = tr.origin[2]
        f = fn_of(t)
        if f and "fmt::Arguments" in f["def"]:
            onode = (tr.origin_node[0], tr.origin[1])
            a0 = t["args"][0] if t["args"] else None
            if a0 is not None:
                tr2 = strace(sup, onode, a0)
                if tr2.origin and tr2.origin[0] == "const":
                    c = tr2.origin[1]
                    if f["name"] in ("from_str", "from_str_nonconst") and "str" in c:
                        return ("str", c["str"], onode, t)
                    if "bytes" in c:
                        return ("tmpl", decode_template(c["bytes"]), onode, t)
    return None


def decode_template(bs, with_args=False):
    """Decode core::fmt's template byte sequence (see library/core/src/fmt/mod.rs of this toolchain):
    literal pieces are <len><bytes> (len < 0x80) or 0x80 <u16 le len> <bytes>; placeholders are a
    byte with the two top bits set followed by optional flags(4)/width(2)/precision(2)/arg_index(2)
    fields; 0 ends the template. Returns the text with '{}' per placeholder (and, with_args, the list
    of argument indices in order of appearance)."""
    out = []
    args = []
    i = 0
    n = len(bs)
    next_arg = 0
    while i < n:
        b = bs[i]
        i += 1
        if b == 0:
            break
        if b < 0x80:
            out.append(bytes(bs[i : i + b]).decode("utf-8", "replace"))
            i += b
        elif b == 0x80:
            ln = bs[i] | (bs[i + 1] << 8)
            i += 2
            out.append(bytes(bs[i : i + ln]).decode("utf-8", "replace"))
            i += ln
        else:
            if b & 1:
                i += 4
            if b & 2:
                i += 2
            if b & 4:
                i += 2
            if b & 8:
                next_arg = bs[i] | (bs[i + 1] << 8)
                i += 2
            out.append("{}")
            args.append(next_arg)
            next_arg += 1
    text = "".join(out)
    return (text, args) if with_args else text


def chunker(facts):
    """The YAML document chunker, located by shape: the crate-local Iterator whose `next` (with its
    same-crate helpers) drives the libyaml parser. Returns {'next': Body, 'adt': path, 'sup': Super,
    'bodies': [Body...], 'loop': Body owning the match over libyaml event types}."""

    def build():
        lib = facts.lib
        found = []
        for b in lib.bodies:
            if b.raw.get("impl_trait") != "std::iter::Iterator" or b.name != "next":
                continue
            sup = Super(lib, b, depth=3)
            if any((fn_of(t) or {}).get("crate") == "unsafe_libyaml" for _, _, t in sup.calls()):
                found.append((b, sup))
        if len(found) != 1:
            raise AnchorLost(f"expected one Iterator driving the libyaml parser (the YAML chunker), found {len(found)}")
        b, sup = found[0]
        bodies = []
        for n in sorted(sup.nodes(), key=str):
            x = sup.body_of(n)
            if x not in bodies:
                bodies.append(x)
        loop = None
        for x in bodies:
            for t in lib.tables_of(x.id):
                if t["form"] != "match":
                    continue
                names = set()
                for arm in t["arms"]:
                    names |= _pat_paths(arm["pat"])
                if any(n.endswith("YAML_DOCUMENT_END_EVENT") for n in names):
                    loop = x
        if loop is None:
            raise AnchorLost("no match over libyaml event types (YAML_DOCUMENT_END_EVENT) in the chunker")
        return {"next": b, "adt": b.raw.get("impl_self_adt"), "sup": sup, "bodies": bodies, "loop": loop}

    return memo(facts, "chunker", build)


def chunker_event_edges(facts):
    """{event name: [(switch node, label, dst node)]} over the chunker's supergraph: the edges its dispatch on
    the libyaml event type takes for each event (a `match` on the event type lowers to a switch on the
    discriminant of `yaml_event_type_t`); 'otherwise' collects the events without an arm of their own."""

    def build():
        lib = facts.lib
        ch = chunker(facts)
        sup = ch["sup"]
        adt = lib.adts.get("unsafe_libyaml::yaml_event_type_t")
        if not adt:
            raise AnchorLost("no facts for unsafe_libyaml::yaml_event_type_t")
        names = {v.get("discr", v["idx"]): v["name"] for v in adt["variants"]}
        out = {}
        per_switch = []
        for n in sorted(sup.nodes(), key=str):
            body = sup.body_of(n)
            blk = body.blocks[n[1]]
            t = blk["term"]
            if t["k"] != "switch" or not is_place(t["discr"]):
                continue
            dl = t["discr"]["p"]["l"]
            if not any(s_["k"] == "assign" and not s_["p"]["pr"] and s_["p"]["l"] == dl and s_["rv"]["k"] == "discr" and "yaml_event_type_t" in s_["rv"]["p"].get("ty", "") for s_ in blk["stmts"]):
                continue
            mine = {}
            taken = set()
            for v, x in t["targets"]:
                mine.setdefault(names.get(v, f"#{v}"), []).append((n, v, (n[0], x)))
                taken.add(v)
            for v, nm in names.items():
                if v not in taken:
                    mine.setdefault(nm, []).append((n, "otherwise", (n[0], t["otherwise"])))
            per_switch.append((n, mine))
        # a second dispatch nested under an arm of another one (an accessor that looks at the event type again,
        # inlined under the DOCUMENT_END arm, say) is entered only by the events of that arm: its edges for every other
        # event are infeasible and are left out
        for n2, mine2 in per_switch:
            allowed = None
            for n1, mine1 in per_switch:
                if n1 == n2:
                    continue
                reach_by_event = {}
                for nm, es in mine1.items():
                    r = set()
                    for _, _, dst in es:
                        r |= set(sup.reachable_from(dst, removed_nodes=[n1]))
                    reach_by_event[nm] = n2 in r
                if any(reach_by_event.values()) and not all(reach_by_event.values()):
                    ok_names = {nm for nm, v_ in reach_by_event.items() if v_}
                    allowed = ok_names if allowed is None else (allowed & ok_names)
            for nm, es in mine2.items():
                if allowed is None or nm in allowed:
                    out.setdefault(nm, []).extend(es)
        if "YAML_DOCUMENT_END_EVENT" not in out:
            raise AnchorLost("no dispatch on the libyaml event type in the chunker")
        return out

    return memo(facts, "chunker_event_edges", build)


def _pat_paths(pat):
    k = pat.get("k")
    if k == "or":
        out = set()
        for a in pat["alts"]:
            out |= _pat_paths(a)
        return out
    if k == "path":
        return {pat["res"]}
    if k in ("ref", "box", "derefpat", "binding") and "sub" in pat:
        return _pat_paths(pat["sub"])
    return set()


def is_chunker_next(facts, f):
    """The callee `f` is Iterator::next of the chunker type."""
    if not f or f.get("trait") != "std::iter::Iterator" or f.get("name") != "next":
        return False
    adt = chunker(facts)["adt"] or ""
    return adt.rsplit("::", 1)[-1] in f.get("self_ty", "") or (f.get("resolved") or "") == chunker(facts)["next"].id


# serde's own `impl Serialize for <primitive>`: `x.serialize(s)` is exactly `s.serialize_<method>(x)`
_PRIMITIVE_SERIALIZE = {"()": "serialize_unit", "bool": "serialize_bool", "char": "serialize_char", "str": "serialize_str", "std::string::String": "serialize_str",
                        **{t: "serialize_" + t for t in ("i8", "i16", "i32", "i64", "i128", "u8", "u16", "u32", "u64", "u128", "f32", "f64")}}


def ser_method_name(f):
    """The serde::Serializer method a call amounts to: the method itself, or for `Serialize::serialize` on a primitive
    (`().serialize(s)`, `n.serialize(s)`) the one method serde's impl for that type calls; otherwise the plain name."""
    if not f:
        return None
    if f.get("trait") == "serde::Serialize" and f.get("name") == "serialize":
        st = (f.get("self_ty") or "").lstrip("&").strip()
        if st.startswith("mut "):
            st = st[4:]
        return _PRIMITIVE_SERIALIZE.get(st, "serialize")
    return f.get("name")


def chunk_readers(facts):
    """The capturing reader under the YAML parser: `impl io::Read` bodies whose `read` appends what it read to a Vec
    (extend_from_slice). When more than one reader in the crate does that (a detection-time capture reader written the
    same way), the one that belongs to the chunker — same source file as the chunker's `next` — is meant."""
    lib = facts.lib
    crs = [b for b in lib.bodies if b.raw.get("impl_trait") == "std::io::Read" and b.name == "read" and any((fn_of(t) or {}).get("name") == "extend_from_slice" for _, t in b.calls())]
    if len(crs) > 1:
        try:
            home = chunker(facts)["next"].file
        except Exception:
            home = None
        near = [b for b in crs if b.file == home]
        if len(near) >= 1:
            crs = near
    return crs


def accessor_const(lib, body, op, depth=0):
    """Integer value of an operand that is a constant, a copy of one, or the result of a same-crate one-argument
    accessor (`CUTOFF.size_hint()`, `fn size_hint(self) -> usize { self.0 }`) applied to a constant whose decoded value
    is that integer (a newtype around it); else None."""
    from model import const_value as _cv

    v = _cv(op)
    if isinstance(v, int) and not isinstance(v, bool):
        return v
    if not is_place(op) or depth > 3:
        return None
    tr = trace(body, op)
    if tr.origin and tr.origin[0] == "const" and all(s_[0] in ("use", "field") for s_ in tr.steps):
        v = tr.origin[1].get("v")
        return v if isinstance(v, int) and not isinstance(v, bool) else None
    if tr.origin and tr.origin[0] == "call" and all(s_[0] in ("use", "cast") for s_ in tr.steps):
        ct = tr.origin[2]
        f = fn_of(ct) or {}
        if f.get("def") in ("core::slice::<impl [T]>::len", "core::str::<impl str>::len") and ct["args"]:
            # `MARK.len()` of a constant byte string / str
            at = trace(body, ct["args"][0])
            if at.origin and at.origin[0] == "const" and all(s_[0] in ("use", "ref", "deref") for s_ in at.steps):
                dec = at.origin[1].get("decoded")
                if isinstance(dec, dict) and isinstance(dec.get("seq"), list):
                    return len(dec["seq"])
                if isinstance(dec, dict) and isinstance(dec.get("str"), str):
                    return len(dec["str"].encode())
                if isinstance(at.origin[1].get("str"), str):
                    return len(at.origin[1]["str"].encode())
            return None
        cb = lib.by_id.get(f.get("resolved") or f.get("def")) if f.get("local") else None
        if cb is not None and cb.nargs == 1 and len(ct["args"]) == 1:
            rets = cb.whole_defs(0)
            if len(rets) == 1 and rets[0][2] == "assign" and rets[0][3]["rv"]["k"] == "use" and is_place(rets[0][3]["rv"]["op"]):
                rp = rets[0][3]["rv"]["op"]["p"]
                if rp["l"] == 1 and all(e["k"] in ("field", "deref") for e in rp["pr"]) and len([e for e in rp["pr"] if e["k"] == "field"]) <= 1:
                    return accessor_const(lib, body, ct["args"][0], depth + 1)
    return None
