"""Anchors shared by several rule modules, located by shape (trait impls, foreign API use)."""
from engine import AnchorLost
from model import Super, PathSens, fn_of, trace, strace, is_place, site

FOREIGN_FMT = {
    "json": ("serde_json",),
    "msgpack": ("rmp_serde", "rmp"),
    "toml": ("toml",),
    "yaml": ("serde_yaml",),
}

_cache = {}


def memo(facts, key, fn):
    k = (id(facts), key)
    if k not in _cache:
        _cache[k] = fn()
    return _cache[k]


def local_trait_impls(crate, trait_name):
    """impl facts whose trait path is the crate-local trait `trait_name`."""
    return [i for i in crate.impls if i.get("trait") == trait_name]


def method_body(crate, impl, name):
    for it in impl["items"]:
        if it["name"] == name:
            return crate.by_id.get(it["def"])
    return None


def foreign_crates_called(crate, body, depth=2):
    s = Super(crate, body, depth=depth)
    out = set()
    for _, _, t in s.calls():
        f = fn_of(t)
        if f:
            out.add(f["crate"])
    return out


def output_impls(facts):
    """{fmt: {'impl':..., 'adt':..., 'transcode_from': Body, 'transcode_value': Body, 'flush': Body}}
    for the four format output types: impls of the crate-local `Output` trait on a local ADT (not a
    reference), classified by the third-party serializer crate their entry points call."""

    def build():
        lib = facts.lib
        out = {}
        for imp in local_trait_impls(lib, "Output"):
            if imp["self_ty"].startswith("&"):
                continue
            tf = method_body(lib, imp, "transcode_from")
            tv = method_body(lib, imp, "transcode_value")
            fl = method_body(lib, imp, "flush")
            if not (tf and tv and fl):
                raise AnchorLost(f"Output impl for {imp['self_ty']} lacks one of transcode_from/transcode_value/flush")
            crates = foreign_crates_called(lib, tf) | foreign_crates_called(lib, tv)
            fmts = [f for f, cs in FOREIGN_FMT.items() if any(c in crates for c in cs)]
            if len(fmts) != 1:
                raise AnchorLost(f"cannot classify Output impl {imp['self_ty']}: serializer crates {sorted(crates)}")
            out[fmts[0]] = {
                "impl": imp,
                "adt": imp.get("self_adt"),
                "transcode_from": tf,
                "transcode_value": tv,
                "flush": fl,
            }
        if set(out) != set(FOREIGN_FMT):
            raise AnchorLost(f"expected Output impls for 4 formats, found {sorted(out)}")
        return out

    return memo(facts, "output_impls", build)


def dispatcher_impl(facts):
    """The `Output` impl on a reference type (the static dispatcher)."""
    lib = facts.lib
    imps = [i for i in local_trait_impls(lib, "Output") if i["self_ty"].startswith("&")]
    if len(imps) != 1:
        raise AnchorLost(f"expected exactly one Output impl on a reference (the dispatcher), found {len(imps)}")
    return imps[0]


def is_io_write_call(t, methods=("write", "write_all", "write_fmt", "write_vectored", "write_all_vectored")):
    f = fn_of(t)
    return bool(f and f.get("trait") == "std::io::Write" and f["name"] in methods)


def input_entry_points(facts):
    """{fmt: Body} — the four callees of the match on the source format in Translator::translate,
    classified by the parser crate they call."""

    def build():
        lib = facts.lib
        tr = None
        for b in lib.bodies:
            # the body that calls detect and then dispatches: it calls >= 4 distinct local fns named 'transcode'
            pass
        # locate by: local functions taking input::Handle as first arg and a generic Output, named by module
        out = {}
        for b in lib.bodies:
            if b.raw["def_kind"] != "Fn":
                continue
            if b.nargs != 2:
                continue
            if "Handle" not in b.local_ty(1):
                continue
            if not b.raw.get("ret_ty", "").startswith("std::result::Result<(), error::Error"):
                continue
            crates = foreign_crates_called(lib, b, depth=2)
            fmts = [f for f, cs in FOREIGN_FMT.items() if cs[0] in crates]
            if len(fmts) != 1:
                raise AnchorLost(f"cannot classify input entry point {b.id}: {sorted(crates)}")
            out[fmts[0]] = b
        if set(out) != set(FOREIGN_FMT):
            raise AnchorLost(f"expected 4 input entry points (fn(Handle, impl Output) -> Result<()>), found {sorted(out)}")
        return out

    return memo(facts, "input_entry_points", build)


def trial_functions(facts):
    """{fmt: Body} — the four detection trials: fn(Ref) -> io::Result<bool>."""

    def build():
        lib = facts.lib
        out = {}
        for b in lib.bodies:
            if b.raw["def_kind"] != "Fn" or b.nargs != 1:
                continue
            if "Ref<" not in b.local_ty(1) and not b.local_ty(1).endswith("Ref"):
                continue
            if not b.raw.get("ret_ty", "").startswith("std::result::Result<bool, std::io::Error>"):
                continue
            crates = foreign_crates_called(lib, b, depth=2)
            fmts = [f for f, cs in FOREIGN_FMT.items() if cs[0] in crates]
            if len(fmts) != 1:
                # the YAML trial uses only local code (chunker + libyaml)
                if "unsafe_libyaml" in foreign_crates_called(lib, b, depth=6):
                    fmts = ["yaml"]
                else:
                    raise AnchorLost(f"cannot classify detection trial {b.id}: {sorted(crates)}")
            out[fmts[0]] = b
        if set(out) != set(FOREIGN_FMT):
            raise AnchorLost(f"expected 4 detection trials (fn(Ref) -> io::Result<bool>), found {sorted(out)}")
        return out

    return memo(facts, "trial_functions", build)


def detect_function(facts):
    """The detection driver: the local fn that calls all four trials."""
    trials = trial_functions(facts)
    ids = {b.id for b in trials.values()}
    lib = facts.lib
    for b in lib.bodies:
        called = {fn_of(t)["def"] for _, t in b.calls() if fn_of(t)}
        if ids <= called:
            return b
    raise AnchorLost("no function calls all four detection trials")


def bin_main(facts):
    b = facts.bin.by_id.get("main")
    if not b:
        raise AnchorLost("bin crate has no `main`")
    return b


def template_of(body, op):
    """Literal format template reaching a fmt::Arguments operand: returns (kind, text/bytes) or None.
    kind 'str' for Arguments::from_str(const), 'tmpl' for Arguments::new(&[u8;N] template, args)."""
    tr = trace(body, op)
    if tr.origin and tr.origin[0] == "call":
        t = tr.origin[2]
        f = fn_of(t)
        if f and f["def"].startswith("std::fmt::Arguments") or (f and "fmt::Arguments" in f["def"]):
            a0 = t["args"][0] if t["args"] else None
            if a0 is not None:
                tr2 = trace(body, a0)
                if tr2.origin and tr2.origin[0] == "const":
                    c = tr2.origin[1]
                    if f["name"] in ("from_str", "from_str_nonconst") and "str" in c:
                        return ("str", c["str"])
                    if "bytes" in c:
                        return ("tmpl", decode_template(c["bytes"]))
    return None


def decode_template(bs, with_args=False):
    """Decode core::fmt's template byte sequence (see library/core/src/fmt/mod.rs of this toolchain):
    literal pieces are <len><bytes> (len < 0x80) or 0x80 <u16 le len> <bytes>; placeholders are a
    byte with the two top bits set followed by optional flags(4)/width(2)/precision(2)/arg_index(2)
    fields; 0 ends the template. Returns the text with '{}' per placeholder (and, with_args, the list
    of argument indices in order of appearance)."""
    out = []
    args = []
    i = 0
    n = len(bs)
    next_arg = 0
    while i < n:
        b = bs[i]
        i += 1
        if b == 0:
            break
        if b < 0x80:
            out.append(bytes(bs[i : i + b]).decode("utf-8", "replace"))
            i += b
        elif b == 0x80:
            ln = bs[i] | (bs[i + 1] << 8)
            i += 2
            out.append(bytes(bs[i : i + ln]).decode("utf-8", "replace"))
            i += ln
        else:
            if b & 1:
                i += 4
            if b & 2:
                i += 2
            if b & 4:
                i += 2
            if b & 8:
                next_arg = bs[i] | (bs[i + 1] << 8)
                i += 2
            out.append("{}")
            args.append(next_arg)
            next_arg += 1
    text = "".join(out)
    return (text, args) if with_args else text


def chunker(facts):
    """The YAML document chunker, located by shape: the crate-local Iterator whose `next` (with its
    same-crate helpers) drives the libyaml parser. Returns {'next': Body, 'adt': path, 'sup': Super,
    'bodies': [Body...], 'loop': Body owning the match over libyaml event types}."""

    def build():
        lib = facts.lib
        found = []
        for b in lib.bodies:
            if b.raw.get("impl_trait") != "std::iter::Iterator" or b.name != "next":
                continue
            sup = Super(lib, b, depth=3)
            if any((fn_of(t) or {}).get("crate") == "unsafe_libyaml" for _, _, t in sup.calls()):
                found.append((b, sup))
        if len(found) != 1:
            raise AnchorLost(f"expected one Iterator driving the libyaml parser (the YAML chunker), found {len(found)}")
        b, sup = found[0]
        bodies = []
        for n in sorted(sup.nodes(), key=str):
            x = sup.body_of(n)
            if x not in bodies:
                bodies.append(x)
        loop = None
        for x in bodies:
            for t in lib.tables_of(x.id):
                if t["form"] != "match":
                    continue
                names = set()
                for arm in t["arms"]:
                    names |= _pat_paths(arm["pat"])
                if any(n.endswith("YAML_DOCUMENT_END_EVENT") for n in names):
                    loop = x
        if loop is None:
            raise AnchorLost("no match over libyaml event types (YAML_DOCUMENT_END_EVENT) in the chunker")
        return {"next": b, "adt": b.raw.get("impl_self_adt"), "sup": sup, "bodies": bodies, "loop": loop}

    return memo(facts, "chunker", build)


def _pat_paths(pat):
    k = pat.get("k")
    if k == "or":
        out = set()
        for a in pat["alts"]:
            out |= _pat_paths(a)
        return out
    if k == "path":
        return {pat["res"]}
    if k in ("ref", "box", "derefpat", "binding") and "sub" in pat:
        return _pat_paths(pat["sub"])
    return set()


def is_chunker_next(facts, f):
    """The callee `f` is Iterator::next of the chunker type."""
    if not f or f.get("trait") != "std::iter::Iterator" or f.get("name") != "next":
        return False
    adt = chunker(facts)["adt"] or ""
    return adt.rsplit("::", 1)[-1] in f.get("self_ty", "") or (f.get("resolved") or "") == chunker(facts)["next"].id
