"""C09 — format detection is a transparent, total pre-selection step."""
import re

from engine import rule, AnchorLost
from model import enum_edge, Super, PathSens, fn_of, trace, strace, strace_deep, is_place, site, const_value, uses_of_local, kind_tests
import common
import vocab

PARSER_CRATES = {"serde_json", "rmp_serde", "rmp", "serde_yaml", "toml", "toml_edit", "unsafe_libyaml"}


def _is_parserish(lib, f, depth=6):
    """The callee (transitively, through same-crate callees) calls into a third-party parser."""
    if f["crate"] in PARSER_CRATES:
        return True
    full = f.get("full", "") + " ".join(f.get("args", []))
    if any(re.search(r"(^|[^A-Za-z_:])" + c + "::", full) for c in PARSER_CRATES if c != "toml") or re.search(r"(^|[^A-Za-z_:])toml::((de|ser)::|(Deserializer|Value)\b)", full):
        return True
    b = lib.by_id.get(f.get("resolved") or f["def"]) or lib.by_id.get(f["def"])
    if not b:
        return False
    for _, _, t in Super(lib, b, depth=depth).calls():
        g = fn_of(t)
        if g and g["crate"] in PARSER_CRATES:
            return True
    return False


def _origin_calls(body, tr):
    """Call terminators an operand's value can originate from (handles locals with several defs)."""
    if not tr.origin:
        return []
    if tr.origin[0] == "call":
        return [tr.origin[2]]
    if tr.origin[0] == "multi":
        out = []
        for bb, idx, kind, payload in tr.origin[2]:
            if kind == "call":
                out.append(payload)
            elif kind == "assign" and payload["rv"]["k"] == "use":
                out.extend(_origin_calls(body, trace(body, payload["rv"]["op"])))
        return out
    return []


def _expand(body, op, depth=0):
    """Traces of an operand, expanding locals that are assigned by plain moves in several places."""
    tr = trace(body, op)
    if tr.origin and tr.origin[0] == "multi" and depth < 3:
        defs = tr.origin[2]
        if all(k == "assign" and p["rv"]["k"] == "use" and is_place(p["rv"]["op"]) for _, _, k, p in defs):
            out = []
            for bb, idx, k, p in defs:
                for t2 in _expand(body, p["rv"]["op"], depth + 1):
                    t2.steps = tr.steps + t2.steps
                    out.append(t2)
            return out
    return [tr]


def _expand_refs(body, op, depth=0):
    """Like _expand, but also expands locals assigned by `&place` in several places (or-patterns)."""
    tr = trace(body, op)
    if tr.origin and tr.origin[0] == "multi" and depth < 3:
        defs = tr.origin[2]
        out = []
        for bb, idx, k, p in defs:
            if k != "assign":
                return [tr]
            rv = p["rv"]
            if rv["k"] == "use" and is_place(rv["op"]):
                nxt = rv["op"]
            elif rv["k"] == "ref":
                nxt = rv["p"]
            else:
                return [tr]
            for t2 in _expand_refs(body, nxt, depth + 1):
                t2.steps = tr.steps + t2.steps
                out.append(t2)
        return out
    return [tr]


def _err_type(ty):
    """E of the innermost Result<_, E> in a type string."""
    m = re.findall(r"Result<.*, ([^<>]+(?:<[^<>]*>)?)>", ty)
    if not m:
        return None
    return m[-1].strip()


def _kind_discriminators(body, base_local, variant_names):
    """Edges meaning `kind() != <variant>` for io::Error payloads reachable from base_local, whatever the
    spelling of the test (`!=`, `==`, `matches!`, `match`): returns list of (src_bb, label, dst_bb, variant)."""
    edges = []
    sup0 = Super(body.crate, body, depth=0)
    for kt in kind_tests(sup0):
        kc = kt.kind_call
        # the error inspected must be (a payload of) base_local
        locs = set()
        for tr in _expand_refs(body, kc["args"][0]):
            if tr.origin and tr.origin[0] == "multi":
                locs.add(tr.origin[1])
            if tr.origin and tr.origin[0] == "call":
                locs.add(tr.origin[2]["dest"]["l"])
        if base_local not in locs:
            continue
        named = kt.named()
        for lab, dst, ks in kt.edges:
            if ks is None:
                # taken for every kind not named by the test
                for cv in named:
                    edges.append((kt.node[1], lab, dst[1], cv))
    return edges


PARSER_ERRORS = ("serde_json::Error", "rmp_serde::decode::Error", "toml::de::Error", "serde_yaml::Error", "toml_edit::de::Error", "toml_edit::TomlError")
NON_IO_KINDS = ("UnexpectedEof", "InvalidData")


def _assume_parser_failure(ctx, fmt, trial):
    """Assume a parser call of the trial failed with an error that every recognised I/O-category
    discriminator rejects (`is_io()` false, `kind()` equal to UnexpectedEof / InvalidData): no return of the
    trial reachable from there may carry Err. Decided on the trial's supergraph with variant-aware
    exploration, so it does not matter whether the verdict is computed by a `match`, by `?`, in a shared
    helper or in closures handed to combinators. Returns (ok, detail, site_node, sup)."""
    lib = ctx.lib
    sup = Super(lib, trial, depth=3)
    ps = PathSens(sup, payloads=True)
    parser_calls = []
    for n, b, t in sup.calls():
        f = fn_of(t) or {}
        if t["dest"]["pr"] or f.get("local"):
            continue
        ty = b.local_ty(t["dest"]["l"])
        if ty.startswith("std::result::Result<") and any(ty.rstrip(">").endswith(e) or (", " + e) in ty for e in PARSER_ERRORS) and f.get("crate") not in ("std", "core", "alloc"):
            parser_calls.append((n, t, (("var", 1), None)))
        elif common.is_chunker_next(ctx.facts, f) and ty.startswith("std::option::Option<std::result::Result<"):
            parser_calls.append((n, t, (("var", 1), ("var", 1))))
    if not parser_calls:
        return None
    for n, b, t in sup.calls():
        f = fn_of(t) or {}
        if f.get("def") == "serde_json::Error::is_io":
            ps.assume[n] = (("const", 0), None)
        elif f.get("def") == "serde_json::Error::io_error_kind":
            # Some(kind) exactly for the I/O category (serde_json error.rs: `io_error_kind` matches on `ErrorCode::Io`)
            ps.assume[n] = (("var", 0), None)
        elif f.get("trait") == "std::cmp::PartialEq" and "ErrorKind" in f.get("self_ty", "") and f.get("name") in ("eq", "ne"):
            ks = []
            for a in t["args"]:
                tr = strace(sup, n, a)
                if tr.origin and tr.origin[0] == "const":
                    ks.append(tr.origin[1].get("ref_variant") or tr.origin[1].get("variant"))
                elif tr.origin and tr.origin[0] == "agg":
                    ks.append(tr.origin[1]["rv"].get("variant"))
            if any(k_ in NON_IO_KINDS for k_ in ks):
                ps.assume[n] = (("const", 1 if f["name"] == "eq" else 0), None)
    # the same assumption for tests spelled as a match on the kind: kind() yields the non-I/O kind it names
    kadt = lib.adts.get("std::io::ErrorKind")
    for kt in kind_tests(sup):
        if kt.form != "discr" or not kadt:
            continue
        hit = [k_ for k_ in kt.named() if k_ in NON_IO_KINDS]
        if hit:
            idx = [v["idx"] for v in kadt["variants"] if v["name"] == hit[0]]
            if idx:
                ps.assume[kt.kind_node] = (("var", idx[0]), None)
    entry_states = ps.explore([(sup.entry, {})])
    for pn, pt, forced in parser_calls:
        ps.assume[pn] = forced
        starts = []
        for st in entry_states.get(pn, []):
            for lab, m, f2 in ps.step(pn, st):
                if lab not in ("call", "maycall"):
                    starts.append((m, f2))
        reached = ps.explore(starts)
        del ps.assume[pn]
        for rn_ in reached:
            if rn_[0] or sup.root.blocks[rn_[1]]["term"]["k"] != "return":
                continue
            for st in reached[rn_]:
                f_end = dict(st)
                for s_ in sup.root.blocks[rn_[1]]["stmts"]:
                    ps._stmt(f_end, (), s_)
                if f_end.get(((), 0)) != ("var", 0):
                    return (False, f"after a failure of `{(fn_of(pt) or {}).get('def')}` that no I/O-category test accepts, the trial can still return Err: a syntax error / truncated input becomes a hard detection error", pn, sup)
    return (True, f"{len(parser_calls)} parser call(s): a failure that no I/O-category test accepts always ends in Ok(..)", parser_calls[0][0], sup)


@rule("R09.3", 6, "detection error discipline: a trial returns Err only for the source's own I/O error or a parser error that passed an I/O-category discriminator", ["C09"])
def r09_3(ctx):
    lib = ctx.lib
    trials = common.trial_functions(ctx.facts)
    for fmt, b in sorted(trials.items()):
        n_err = 0
        for dbb, idx, kind, payload in b.whole_defs(0):
            if kind == "call":
                f = fn_of(payload) or {}
                if f.get("def") != "std::ops::FromResidual::from_residual":
                    # the trial returns another call's Result directly (combinators, helpers)
                    n_err += 1
                    chain = ("std::result::Result::<T, E>::",)
                    tr = trace(b, payload["args"][0], passthrough_extra=chain) if payload["args"] else None
                    srcs = ([payload] if not f.get("def", "").startswith("std::result::Result::<T, E>::") else []) + (_origin_calls(b, tr) if tr else [])
                    bad = [fn_of(c)["def"] for c in srcs if fn_of(c) and _is_parserish(lib, fn_of(c))]
                    if bad:
                        # the verdict is computed elsewhere (shared helper / closures): decided semantically below
                        ctx.ob(f"{fmt}:returns-call:{f.get('name')}", True, site(b, dbb), f"verdict delegated to `{f.get('name')}`: see parser-failure-never-hard", trivial=True)
                    else:
                        ctx.ob(f"{fmt}:returns-call:{f.get('name')}", True, site(b, dbb), "returned Result does not carry parser errors")
                    continue
                n_err += 1
                tr = trace(b, payload["args"][0])
                srcs = _origin_calls(b, tr)
                bad = [fn_of(c)["def"] for c in srcs if fn_of(c) and _is_parserish(lib, fn_of(c))]
                ok = bool(srcs) and not bad
                names = [fn_of(c)["def"] for c in srcs if fn_of(c)]
                ctx.ob(f"{fmt}:propagate:{','.join(n.rsplit('::', 1)[-1] for n in names)}", ok, site(b, dbb),
                       f"`?` propagates the source's own read error ({names})" if ok else f"`?` turns every error of {bad} into a hard detection failure")
            elif kind == "assign" and payload["rv"]["k"] == "aggregate" and payload["rv"].get("variant") == "Err":
                n_err += 1
                trs = _expand(b, payload["rv"]["ops"][0])
                srcs = []
                for tr in trs:
                    srcs.extend(_origin_calls(b, tr))
                parser_srcs = [c for c in srcs if fn_of(c) and _is_parserish(lib, fn_of(c))]
                if not parser_srcs:
                    ok = bool(srcs)
                    ctx.ob(f"{fmt}:err:source", ok, site(b, dbb), "error value comes from the input source itself" if ok else "error of unknown provenance")
                    continue
                tr = trs[0]
                bases = {(t_.origin[1] if t_.origin[0] == "multi" else t_.origin[2]["dest"]["l"]) for t_ in trs if t_.origin and t_.origin[0] in ("multi", "call")}
                base = sorted(bases)[0] if bases else 0
                ety = _err_type(b.local_ty(base)) or "?"
                variants = [s[1] for t_ in trs for s in t_.steps if s[0] == "downcast"]
                if len(bases) != 1:
                    ctx.ob(f"{fmt}:err:mixed", False, site(b, dbb), f"error value may come from different results {sorted(bases)}")
                    continue
                key = f"{fmt}:err:{ety.rsplit('::', 2)[-2] if '::' in ety else ety}::{ety.rsplit('::', 1)[-1]}"
                if ety == "serde_json::Error":
                    edges = []
                    for bb, t in b.calls():
                        f = fn_of(t) or {}
                        if f.get("def") == "serde_json::Error::is_io":
                            sw = b.blocks[t["target"]]["term"]
                            if sw["k"] == "switch":
                                edges.append((t["target"], "otherwise", sw["otherwise"]))
                        elif f.get("def") == "serde_json::Error::io_error_kind" and not t["dest"]["pr"]:
                            # `err.io_error_kind()` is Some exactly for I/O errors: its Some edges (however they are
                            # taken: `is_none()`, `is_some()`, a match) play the part of is_io()'s true edge
                            ol = t["dest"]["l"]
                            for sb_ in sorted(b.reach()):
                                sw = b.blocks[sb_]["term"]
                                if sw["k"] != "switch" or not is_place(sw["discr"]) or sw["discr"]["p"]["pr"]:
                                    continue
                                zero_ = [x for v_, x in sw["targets"] if v_ == 0]
                                dt_ = trace(b, sw["discr"])
                                if dt_.origin and dt_.origin[0] == "call" and (fn_of(dt_.origin[2]) or {}).get("def") in ("std::option::Option::<T>::is_none", "std::option::Option::<T>::is_some") and dt_.origin[2]["args"]:
                                    at_ = trace(b, dt_.origin[2]["args"][0])
                                    if at_.origin and at_.origin[0] == "call" and at_.origin[2] is t and zero_:
                                        if fn_of(dt_.origin[2])["name"] == "is_none":
                                            edges.append((sb_, 0, zero_[0]))
                                        else:
                                            edges.append((sb_, "otherwise", sw["otherwise"]))
                                for s_ in b.blocks[sb_]["stmts"]:
                                    if s_["k"] == "assign" and not s_["p"]["pr"] and s_["p"]["l"] == sw["discr"]["p"]["l"] and s_["rv"]["k"] == "discr" and not s_["rv"]["p"]["pr"] and s_["rv"]["p"]["l"] == ol:
                                        one_ = [x for v_, x in sw["targets"] if v_ == 1]
                                        if one_:
                                            edges.append((sb_, 1, one_[0]))
                                        elif zero_:
                                            edges.append((sb_, "otherwise", sw["otherwise"]))
                    ok = bool(edges) and dbb not in b.reachable_from(0, removed_edges=edges)
                    ctx.ob(key, ok, site(b, dbb), "returned only when serde_json classifies it as I/O (is_io() / io_error_kind() is Some)" if ok else "a serde_json syntax/EOF error can become a hard detection error")
                elif ety == "rmp_serde::decode::Error":
                    io_payload = all(any(st[0] == "downcast" and st[1] in ("InvalidMarkerRead", "InvalidDataRead") for st in t_.steps) for t_ in trs)
                    edges = [(s, l, d) for s, l, d, cv in _kind_discriminators(b, base, None) if cv == "UnexpectedEof"]
                    ok = io_payload and bool(edges) and dbb not in b.reachable_from(0, removed_edges=edges)
                    ctx.ob(key, ok, site(b, dbb),
                           "returned only for an I/O payload whose kind() != UnexpectedEof (rmp reports running out of input as UnexpectedEof)" if ok else
                           ("the I/O payload is returned without excluding UnexpectedEof: truncated input / non-MessagePack bytes fail detection with 'failed to fill whole buffer'" if io_payload else "a non-I/O rmp error becomes a hard detection error"))
                elif ety == "std::io::Error":
                    edges = [(s, l, d) for s, l, d, cv in _kind_discriminators(b, base, None) if cv == "InvalidData"]
                    ok = bool(edges) and dbb not in b.reachable_from(0, removed_edges=edges)
                    ctx.ob(key, ok, site(b, dbb), "returned only when kind() != InvalidData (parser/encoding errors are InvalidData)" if ok else "a parser error (InvalidData) can become a hard detection error")
                else:
                    # the error was reshaped on the way (`result.map_err(source_failure)` -> Option<io::Error>): whether
                    # a non-I/O parser failure can reach this site is decided by exploration below
                    ctx.ob(key, True, site(b, dbb), f"error of type {ety}: decided semantically, see parser-failure-never-hard", trivial=True)
        ctx.ob(f"{fmt}:err-paths", True, site(b), f"{n_err} Err-producing site(s) classified", trivial=True)
        res = _assume_parser_failure(ctx, fmt, b)
        if res is None:
            ctx.ob(f"{fmt}:parser-failure-never-hard", False, site(b), "no parser call found in the trial")
        else:
            ok_, det_, pn_, sup_ = res
            ctx.ob(f"{fmt}:parser-failure-never-hard", ok_, sup_.site(pn_), det_)


def _capture_adts(lib):
    """(capture reader, guarding newtype), by role rather than by representation: the capture reader is the
    crate-local struct implementing io::Read that a two-variant local enum lends out as `&mut S` next to a
    plain `&[u8]` (the borrowed detection input); the guard is the local newtype around it."""
    readers = {i.get("self_adt") for i in lib.impls if i.get("trait") == "std::io::Read" and i.get("self_adt")}
    caps = set()
    for path, a in lib.adts.items():
        if a["crate"] != "xt" or a["kind"] != "enum" or len(a["variants"]) != 2:
            continue
        tys = [[f["ty"] for f in v["fields"]] for v in a["variants"]]
        if not all(len(t) == 1 for t in tys):
            continue
        flat = [t[0] for t in tys]
        mem = [t for t in flat if t.startswith("&") and "[u8]" in t and " mut " not in t]
        for t in flat:
            if t.startswith("&") and " mut " in t and mem:
                for r in readers:
                    if r and (r + "<") in t and lib.adts.get(r, {}).get("crate") == "xt":
                        caps.add(r)
    if len(caps) != 1:
        raise AnchorLost(f"capture reader (local io::Read struct lent out as `&mut` next to `&[u8]` by the borrowed-input enum) not found ({sorted(caps)})")
    cap = sorted(caps)[0]
    guard = None
    for path, a in lib.adts.items():
        if a["crate"] != "xt" or a["kind"] != "struct":
            continue
        fs = a["variants"][0]["fields"]
        if len(fs) == 1 and fs[0]["ty"].startswith(cap + "<"):
            guard = path
    if not guard:
        raise AnchorLost("guarding newtype around the capture reader not found")
    return cap, guard


def _is_rewind_call(lib, t):
    f = fn_of(t) or {}
    if f.get("def", "").startswith("std::io::Cursor") and f["name"] == "set_position":
        return const_value(t["args"][1]) == 0
    b = lib.by_id.get(f.get("resolved") or f.get("def"))
    if b and len(b.blocks) <= 4:
        cs = [tt for _, tt in b.calls()]
        return bool(cs) and all((fn_of(tt) or {}).get("name") == "set_position" and const_value(tt["args"][1]) == 0 for tt in cs)
    return False


_CURSOR_READ_ONLY = ("get_ref", "get_mut", "position", "len", "is_empty", "as_slice", "deref", "deref_mut", "as_ref", "index", "index_mut", "by_ref")


def _cursor_touched_between(sup, b, lb, sb, fp, what):
    """Is there a call, on a path from block `lb` (where a length or a position was read) to block `sb`, that can change
    that reading: for a length, a call that receives a `&mut` into the cursor at `fp` (the cursor itself, or the vector
    behind get_mut) and is not a mere view; for a position, set_position / a read / a write / a seek on the cursor."""
    import symlin
    after = b.reachable_from([t for _, t in b.edges(lb)])
    for mb, mt in b.calls():
        if mb == sb or mb not in after or sb not in b.reachable_from([t for _, t in b.edges(mb)]):
            continue
        f = fn_of(mt) or {}
        if f.get("name") in _CURSOR_READ_ONLY:
            continue
        for a in mt["args"]:
            if not is_place(a) or not str(a["p"].get("ty", "")).startswith("&mut"):
                continue
            tr = strace_deep(sup, ((), mb), a, extra=symlin._SLICE_PASS + symlin._VIEWS)
            if tr.origin and tr.origin[0] == "arg" and (tr.origin[1],) + tuple(s[1] for s in reversed(tr.steps) if s[0] == "field") == fp:
                via_vec = any(s[0] == "call" and s[1] in symlin._VIEWS for s in tr.steps)
                if what == "len" or not via_vec:
                    return True
    return False


def _position_follows_copy(lib, b, bb, t):
    """A hand-written replay step: `set_position(E)` on a cursor whose position is moved either to the end of the
    cursor's own buffer (through whatever helpers), or to exactly one past the last byte that a dominating
    `copy_from_slice` took out of that buffer, the copy having started at the cursor's position:
        dst.copy_from_slice(&buf[pos..E]); cursor.set_position(E)
    with `dst` a buffer the function was given. Offsets are compared as symbolic linear forms (symlin), so
    `buf[pos..][..n]` with `E = pos + n` and `buf[pos..pos + dst.len()]` with `E = to` are the same thing.
    Returns the explanation, or None when the position is anything else (replayed bytes skipped or repeated)."""
    import symlin
    sup = Super(lib, b, depth=2)
    node = ((), bb)
    ct = strace_deep(sup, node, t["args"][0])
    if not (ct.origin and ct.origin[0] == "arg"):
        return None
    fp = (ct.origin[1],) + tuple(s[1] for s in reversed(ct.steps) if s[0] == "field")
    log = []
    e = symlin.lin(sup, node, t["args"][1], log=log)
    buf = ("buf", fp)
    # a length or a position that went into E is only worth something if the buffer / the cursor cannot have changed
    # between the reading and this call
    for a, lnode in log:
        lb = lnode[0][0][1] if lnode[0] else lnode[1]
        if (a == ("len", buf) or a == ("pos", fp)) and _cursor_touched_between(sup, b, lb, bb, fp, a[0]):
            return None
    if e == symlin.atom(("len", buf)):
        return "set_position(len of the cursor's own buffer): the cursor is moved to its end"
    pos = symlin.atom(("pos", fp))
    for cb, ctm in b.calls():
        if (fn_of(ctm) or {}).get("name") != "copy_from_slice" or len(ctm["args"]) != 2 or not (b.dominates(cb, bb) and cb != bb):
            continue
        src = symlin.slice_desc(sup, ((), cb), ctm["args"][1])
        dst = symlin.slice_desc(sup, ((), cb), ctm["args"][0])
        if not src or not dst or src[0] != buf or dst[0][0] != "arg":
            continue
        if src[1] == pos and src[2] == e:
            return f"set_position(one past the bytes copied out): the copy takes `{src[1]} .. {src[2]}` of the cursor's buffer into the caller's buffer and the cursor moves to `{e}`"
    return None


@rule("R09.1", 5, "rewind typestate: the capture reader is reachable only through accessors that rewind it first", ["C09"])
def r09_1(ctx):
    lib = ctx.lib
    cap, guard = _capture_adts(lib)
    n_proj = 0
    for b in lib.bodies:
        uses = []
        for bi, blk in enumerate(b.blocks):
            items = [s.get("p") for s in blk["stmts"] if s["k"] == "assign"] + [s["rv"].get("p") for s in blk["stmts"] if s["k"] == "assign" and "p" in s["rv"]]
            for s in blk["stmts"]:
                if s["k"] == "assign" and s["rv"]["k"] in ("use",) and is_place(s["rv"]["op"]):
                    items.append(s["rv"]["op"]["p"])
            for p in items:
                if p and any(e["k"] == "field" and e.get("adt") == guard for e in p["pr"]):
                    uses.append((bi, p))
        if not uses:
            continue
        n_proj += 1
        own = b.raw.get("impl_self_adt") == guard
        ctx.ob(f"field-access:{b.name}", own, site(b), "guarded field touched only by the guard's own methods" if own else "the guarded capture reader is reached around the rewinding accessors")
        if not own:
            continue
        # a method that only reads or writes a plain field inside the guarded reader (`self.0.lookahead = limit`) and
        # never takes a reference to the reader itself hands nothing out
        def _beyond(p_):
            gi = max(i for i, e in enumerate(p_["pr"]) if e["k"] == "field" and e.get("adt") == guard)
            return [e for e in p_["pr"][gi + 1:] if e["k"] == "field"]
        scalar_only = all(_beyond(p_) and not any(w in str(p_.get("ty", "")) for w in (cap.split("<")[0].rsplit("::", 1)[-1], "Cursor", "dyn ")) for _, p_ in uses)
        whole_ref = any(s_["k"] == "assign" and s_["rv"]["k"] in ("ref", "rawptr") and any(e["k"] == "field" and e.get("adt") == guard for e in s_["rv"]["p"]["pr"]) and not _beyond(s_["rv"]["p"]) for blk_ in b.blocks for s_ in blk_["stmts"])
        if scalar_only and not whole_ref and cap.split("<")[0].rsplit("::", 1)[-1] not in str(b.raw.get("ret_ty", "")):
            ctx.ob(f"rewinds-before-exposing:{b.name}", True, site(b), "touches a plain field of the guarded reader only: the reader itself is not handed out", trivial=True)
            continue
        rew = [bb for bb, t in b.calls() if _is_rewind_call(lib, t)]
        ok = bool(rew) and all(any(b.dominates(r, rb) and r != rb for r in rew) for rb in b.return_blocks())
        ctx.ob(f"rewinds-before-exposing:{b.name}", ok, site(b), "rewind dominates every return" if ok else "the accessor hands out the reader without rewinding it")
    ctx.ob("guard-accessors-found", n_proj >= 2, guard, f"{n_proj} bodies project the guarded field")
    # every Cursor::set_position in the crate rewinds to 0
    for b in lib.bodies:
        for bb, t in b.calls():
            f = fn_of(t) or {}
            if f.get("name") == "set_position" and f.get("def", "").startswith("std::io::Cursor"):
                v = const_value(t["args"][1])
                to_end = False
                how = None
                ct_ = trace(b, t["args"][0])
                if not (b.raw.get("impl_self_adt") in (cap, guard) or any(x[0] == "field" and x[2] in (cap, guard) for x in ct_.steps)):
                    # a cursor of the function's own (`Cursor::new(head)` positioned past a mark it has just compared):
                    # not the capture reader's replay cursor, whose typestate this rule is about
                    ctx.ob(f"set_position:{b.name}", True, site(b, bb), "a cursor that is not the capture reader's: outside the rewind typestate", trivial=True)
                    continue
                if v is None and not to_end:
                    how = _position_follows_copy(lib, b, bb, t)
                    to_end = how is not None
                ctx.ob(f"set_position:{b.name}", v == 0 or to_end, site(b, bb), f"set_position({v})" if not to_end else (how or "set_position(len of the cursor's own buffer): the cursor is moved to its end"))
    # the capture reader type is constructed only inside the guard
    for b in lib.bodies:
        for bb, t in b.calls():
            f = fn_of(t) or {}
            callee = lib.by_id.get(f.get("resolved") or f.get("def"))
            if callee and callee.raw.get("impl_self_adt") == cap and callee.local_ty(0).startswith(cap) and callee.nargs == 1 and b.raw.get("impl_self_adt") not in (guard, cap):
                ctx.ob(f"unguarded-construction:{b.name}", False, site(b, bb), "a capture reader is created outside the guarding newtype")


@rule("R09.2", 8, "each trial gets its own fresh (rewound) borrow; only a trial's `true` selects its format", ["C09"])
def r09_2(ctx):
    ts = common.trial_sequence(ctx.facts)
    trials = common.trial_functions(ctx.facts)
    det = ts.driver
    for p in ts.problems:
        ctx.ob(f"driver-shape:{p[:40]}", False, site(det), p)
    for fmt in sorted(trials):
        e = ts.entries.get(fmt)
        if e is None:
            ctx.ob(f"{fmt}:trial-called", False, site(det), "trial is not called by the detection driver")
            continue
        ctx.ob(f"{fmt}:fresh-borrow", e["fresh"], e["site"], "trial input comes from its own borrow of the handle" if e["fresh"] else "trial reuses another trial's (possibly consumed) reader")
        ctx.ob(f"{fmt}:borrow-rewinds", e["rewinds"], e["acc_site"], "borrow goes through the rewinding accessor" if e["rewinds"] else "borrow does not rewind the capture reader")
        ctx.ob(f"select:{fmt}", e["selected"], e["sel_site"], f"the {fmt} format is chosen only on the `true` edge of its own trial" if e["selected"] else f"the {fmt} format is not chosen on (only) the `true` answer of its own trial")
    for variant, st in ts.stray:
        ctx.ob(f"select:{variant.lower()}", False, st, f"Format::{variant} can be chosen without its trial answering true")


def conversion_supers(lib):
    """Supergraphs of the Handle -> Input conversions (`impl From/TryFrom<Handle> for Input`), with the
    same-crate helpers they delegate to inlined."""
    conv = [b for b in lib.bodies if b.raw.get("impl_trait") in ("std::convert::From", "std::convert::TryFrom") and vocab.ty_is(b.local_ty(0), vocab.lib_vocab(lib.facts)["input"]) and b.raw["def_kind"] == "AssocFn"]
    return [(b, Super(lib, b, depth=3)) for b in conv]


@rule("R09.4", 3, "the translator sees prefix then source: chain(captured-prefix cursor, original source); fully buffered input hands over the whole vector", ["C09"])
def r09_4(ctx):
    lib = ctx.lib
    cap, guard = _capture_adts(lib)
    convs = [(b, sup) for b, sup in conversion_supers(lib) if any((fn_of(t) or {}).get("def") == "std::io::Read::chain" for _, _, t in sup.calls())]
    ctx.need(len(convs) == 1, f"Handle -> Input conversion with a Read::chain call not found ({len(convs)})")
    b, sup = convs[0]
    for n, cb, t in sup.calls():
        f = fn_of(t) or {}
        if f.get("def") == "std::io::Read::chain":
            a = f["args"]
            ok = len(a) >= 2 and "Cursor" in a[0] and "Cursor" not in a[1]
            ctx.ob("chain:types", ok, sup.site(n), f"chain::<{a}>: receiver holds the prefix cursor, argument is the source" if ok else f"chain operands swapped: {a}")
            r = strace(sup, n, t["args"][0], extra=("::new",))
            s2 = strace(sup, n, t["args"][1])
            rf = [st[1] for st in r.steps if st[0] == "field"]
            sf = [st[1] for st in s2.steps if st[0] == "field"]
            same = bool(r.origin and s2.origin and r.origin[0] == "call" and s2.origin[0] == "call" and r.origin[2] is s2.origin[2])
            ok2 = same and rf[:1] == ["0"] and sf[:1] == ["1"]
            ctx.ob("chain:operands", ok2, sup.site(n), f"receiver = into_inner().{rf[:1]}, argument = into_inner().{sf[:1]} of the same capture reader")
    names = [(fn_of(t) or {}).get("name") for n, cb, t in sup.calls() if cb.raw.get("impl_self_adt") != cap]
    whole = "into_inner" in names and not any(n in ("position", "remaining_slice", "split_at", "split_off", "drain") for n in names)
    ctx.ob("buffered:whole-vector", whole, site(b), "fully buffered input is handed over with Cursor::into_inner (all captured bytes)" if whole else f"captured bytes are sliced by position: {names}")
    via_guard = any((fn_of(t) or {}).get("impl_self_adt") == guard for _, _, t in sup.calls())
    ctx.ob("conversion-rewinds", via_guard, site(b), "conversion obtains the reader through the rewinding accessor")


_VIEW_CALLS = ("into_inner", "get_ref", "get_mut", "as_slice", "as_ref", "deref", "borrow", "into", "from", "to_vec", "clone", "into_owned", "as_mut")


def _from_capture(lib, cap, b, op, depth=0, seen=None):
    """The operand's value is (a view / a conversion of) what the capture reader holds: walking back through
    copies, references, aggregates and accessor calls reaches a call of a method of the capture reader."""
    seen = seen if seen is not None else set()
    if depth > 12 or not is_place(op):
        return False
    l = op["p"]["l"]
    if l in seen:
        return False
    seen.add(l)
    for dbb, idx, kind, payload in b.whole_defs(l):
        if kind == "call":
            f = fn_of(payload) or {}
            if f.get("impl_self_adt") == cap or (f.get("resolved_impl_self_ty") or "").startswith(cap + "<"):
                return True
            if f.get("name") in _VIEW_CALLS and payload["args"] and _from_capture(lib, cap, b, payload["args"][0], depth + 1, seen):
                return True
        elif kind == "assign":
            rv = payload["rv"]
            ops = []
            if rv["k"] in ("use", "cast"):
                ops = [rv["op"]]
            elif rv["k"] in ("ref", "rawptr", "copyforderef"):
                ops = [{"k": "copy", "p": {"l": rv["p"]["l"], "pr": []}}]
            elif rv["k"] == "aggregate":
                ops = list(rv["ops"])
            for o in ops:
                if _from_capture(lib, cap, b, o, depth + 1, seen):
                    return True
    return False


@rule("R09.10", 2, "what a reader has produced so far is presented as the complete in-memory input only on evidence that the source is exhausted (the EOF flag, or a drain to the end that succeeded)", ["C09", "C02", "C03", "C14"])
def r09_10(ctx):
    lib = ctx.lib
    cap, guard = _capture_adts(lib)
    voc = vocab.lib_vocab(ctx.facts)
    adt = lib.adts[cap]
    flags = [f["name"] for f in adt["variants"][0]["fields"] if f["ty"] == "bool"]
    ctx.need(len(flags) == 1, f"expected one bool field (the EOF flag) in {cap}, found {flags}")
    flag = flags[0]
    # the EOF test: a bool method of the capture reader returning the flag; the drain: a method of the capture
    # reader that runs an unbounded read_to_end on the source
    eof_tests, drains = set(), set()
    for b in lib.bodies:
        if b.raw.get("impl_self_adt") != cap:
            continue
        if b.raw.get("ret_ty") == "bool":
            tr = trace(b, {"k": "copy", "p": {"l": 0, "pr": []}})
            if any(st[0] == "field" and st[1] == flag for st in tr.steps):
                eof_tests.add(b.id)
        for _, t in b.calls():
            f = fn_of(t) or {}
            if f.get("trait") == "std::io::Read" and f.get("name") == "read_to_end" and "Take<" not in (f.get("self_ty") or ""):
                drains.add(b.id)
    ctx.need(eof_tests, "no method of the capture reader returns its EOF flag")
    n = 0
    for b in lib.bodies:
        if b.raw.get("impl_self_adt") == cap:
            continue
        for bi in sorted(b.reach()):
            for s_ in b.blocks[bi]["stmts"]:
                if not (s_["k"] == "assign" and s_["rv"]["k"] == "aggregate" and s_["rv"].get("agg") == "adt" and s_["rv"]["ops"]):
                    continue
                rv = s_["rv"]
                whole = (rv["adt"] == voc["ref"]["path"] and rv.get("variant") == voc["ref"]["mem"]) or (rv["adt"] == voc["input"]["path"] and rv.get("variant") == voc["input"]["mem"]) or (rv["adt"] == "std::borrow::Cow" and "[u8]" in s_["p"].get("ty", ""))
                if not whole or not _from_capture(lib, cap, b, rv["ops"][0]):
                    continue
                n += 1
                ok = False
                why = "not guarded by the capture reader's EOF flag"
                for sb in sorted(b.reach()):
                    sw = b.blocks[sb]["term"]
                    if sw["k"] != "switch" or sw.get("discr_ty") != "bool":
                        continue
                    tr = trace(b, sw["discr"])
                    if tr.origin and tr.origin[0] == "call" and ((fn_of(tr.origin[2]) or {}).get("resolved") or (fn_of(tr.origin[2]) or {}).get("def")) in eof_tests and all(st[0] in ("use", "field", "agg_field") for st in tr.steps):
                        if b.edge_dominates(sb, "otherwise", sw["otherwise"], bi):
                            ok = True
                            why = "built only on the true edge of the capture reader's EOF flag"
                if not ok:
                    import r_bin

                    for cb_, ct in b.calls():
                        f = fn_of(ct) or {}
                        if (f.get("resolved") or f.get("def")) in drains:
                            sws = r_bin.result_switches(b, ct["dest"]["l"])
                            if any(oks and b.dominates(oks[0], bi) for _, _, oks in sws):
                                ok = True
                                why = f"built only after `{f.get('name')}` (unbounded read_to_end of the source) succeeded"
                ctx.ob(f"whole-only-at-eof:{b.name}:{rv.get('variant')}", ok, site(b, bi), why if ok else f"captured bytes are handed out as the complete input ({rv['adt'].rsplit('::', 1)[-1]}::{rv.get('variant')}) {why}: a detector or parser would see a truncated stream as the whole input")
    ctx.ob("whole-input-sites", n >= 2, "lib", f"{n} site(s) present captured reader bytes as complete input")


@rule("R09.11", 2, "the fused prefix reader is a pure pass-through: bytes reach the caller's buffer only through the inner reader's own read on that buffer, and the count returned is that call's (or 0 once the inner reader is gone)", ["C09", "C02", "C03"])
def r09_11(ctx):
    lib = ctx.lib
    fused = [p_ for p_, a in lib.adts.items() if a["crate"] == "xt" and a["kind"] == "struct" and len(a["variants"][0]["fields"]) == 1 and re.match(r"^std::option::Option<[A-Z]\w*>$", a["variants"][0]["fields"][0]["ty"])
             and any(i.get("trait") == "std::io::Read" and i.get("self_adt") == p_ for i in lib.impls)]
    ctx.need(len(fused) == 1, f"fused reader (local io::Read newtype around Option<R>) not found ({fused})")
    reads = [b for b in lib.bodies if b.raw.get("impl_trait") == "std::io::Read" and b.raw.get("impl_self_adt") == fused[0] and b.name == "read"]
    ctx.need(len(reads) == 1, "read method of the fused reader not found")
    b = reads[0]
    inner = []
    others = []
    for bb, t in b.calls():
        f = fn_of(t) or {}
        touches_buf = False
        for i, a in enumerate(t["args"]):
            tr = trace(b, a)
            if tr.origin == ("arg", 2):
                touches_buf = True
        if not touches_buf:
            continue
        if f.get("trait") == "std::io::Read" and f.get("name") == "read" and len(t["args"]) == 2:
            recv = trace(b, t["args"][0])
            buf = trace(b, t["args"][1])
            through_self = recv.origin == ("arg", 1) and any(st[0] == "downcast" and st[1] == "Some" for st in recv.steps)
            whole_buf = buf.origin == ("arg", 2) and all(st[0] in ("use", "ref", "deref") for st in buf.steps)
            inner.append((bb, t, through_self and whole_buf))
        elif f.get("name") in ("is_empty", "len") and f.get("def", "").startswith("core::slice"):
            continue
        else:
            others.append((bb, f.get("def")))
    ok1 = len(inner) == 1 and inner[0][2]
    ctx.ob("inner-read-on-callers-buffer", ok1, site(b, inner[0][0]) if inner else site(b), "one read of the inner reader, on the caller's whole buffer" if ok1 else f"{len(inner)} inner read(s) / not on the caller's whole buffer")
    ctx.ob("no-other-writer-to-buffer", not others, site(b, others[0][0]) if others else site(b), "nothing else touches the caller's buffer" if not others else f"the caller's buffer is also handed to {[d_ for _, d_ in others]}: bytes can be delivered that the inner reader's position does not account for (replayed or skipped input)")
    # every Ok(n) returned: n is the inner read's count or the constant 0
    ok3 = bool(inner)
    det = "every returned count is the inner read's own (or 0 without an inner reader)"
    for dbb, idx, kind, payload in b.whole_defs(0):
        if kind == "assign" and payload["rv"]["k"] == "aggregate" and payload["rv"].get("variant") == "Ok":
            o = payload["rv"]["ops"][0]
            if o.get("k") == "const":
                if o.get("v") != 0:
                    ok3, det = False, f"returns the constant {o.get('v')}"
                continue
            tr = trace(b, o)
            if not (inner and tr.origin and tr.origin[0] == "call" and (tr.origin[2] is inner[0][1] or ((fn_of(tr.origin[2]) or {}).get("def") == "std::ops::Try::branch" and trace(b, tr.origin[2]["args"][0]).origin and trace(b, tr.origin[2]["args"][0]).origin[0] == "call" and trace(b, tr.origin[2]["args"][0]).origin[2] is inner[0][1]))):
                ok3, det = False, "a returned count does not come from the inner read"
        elif kind == "call" and (fn_of(payload) or {}).get("def") == "std::ops::FromResidual::from_residual":
            continue
        elif kind == "call" and inner and payload is inner[0][1]:
            continue
        else:
            ok3, det = False, "return value of unrecognised origin"
    ctx.ob("count-is-inner-count", ok3, site(b), det)
    # the inner reader is let go only on evidence of its end: a read that returned 0
    drops = []
    for bi in sorted(b.reach()):
        for s_ in b.blocks[bi]["stmts"]:
            if s_["k"] == "assign" and s_["p"]["l"] == 1 and s_["p"]["pr"] and s_["p"]["pr"][-1]["k"] == "field" and "Option<" in s_["p"]["pr"][-1].get("ty", ""):
                drops.append((bi, s_))
    for bb, t in b.calls():
        f = fn_of(t) or {}
        if f.get("name") in ("take", "replace") and f.get("def", "").startswith(("std::option::Option", "std::mem::")) and t["args"] and trace(b, t["args"][0]).origin == ("arg", 1):
            drops.append((bb, None))
    zero_edges = []
    for sb in sorted(b.reach()):
        sw = b.blocks[sb]["term"]
        if sw["k"] != "switch" or sw.get("discr_ty") != "bool" or not is_place(sw["discr"]):
            continue
        dl = sw["discr"]["p"]["l"]
        for s_ in b.blocks[sb]["stmts"]:
            if s_["k"] == "assign" and s_["p"]["l"] == dl and s_["rv"]["k"] == "binop" and s_["rv"]["op"] in ("Eq", "Ne") and const_value(s_["rv"]["b"]) == 0:
                nt = trace(b, s_["rv"]["a"])
                from_read = bool(inner and nt.origin and nt.origin[0] == "call" and (nt.origin[2] is inner[0][1] or (fn_of(nt.origin[2]) or {}).get("def") == "std::ops::Try::branch"))
                if from_read:
                    zero = [x for v_, x in sw["targets"] if v_ == 0]
                    if s_["rv"]["op"] == "Eq":
                        zero_edges.append((sb, "otherwise", sw["otherwise"]))
                    elif zero:
                        zero_edges.append((sb, 0, zero[0]))
    for bi, s_ in drops:
        ok4 = any(b.edge_dominates(e[0], e[1], e[2], bi) for e in zero_edges)
        ctx.ob("inner-dropped-only-at-eof", ok4, site(b, bi), "the inner reader is released only after one of its reads returned 0" if ok4 else "the inner reader can be released before it reported its end: bytes it still holds are lost")


@rule("R09.5", 2, "undetected input yields exactly the documented error, and only on the None arm of detection", ["C09"])
def r09_5(ctx):
    lib = ctx.lib
    det = common.detect_function(ctx.facts)
    TEXT = "unable to detect input format"
    sites = []
    for b in lib.bodies:
        for bi, blk in enumerate(b.blocks):
            for s in blk["stmts"]:
                if s["k"] == "assign" and s["rv"]["k"] == "use" and s["rv"]["op"].get("k") == "const" and s["rv"]["op"].get("str") == TEXT:
                    sites.append((b, bi))
            t = blk["term"]
            if t["k"] == "call":
                for a in t["args"]:
                    if a.get("k") == "const" and a.get("str") == TEXT:
                        sites.append((b, bi))
    ctx.ob("message-sites", len(sites) == 1, "lib", f"{len(sites)} site(s) build the text {TEXT!r}")
    for b, bi in sites:
        calls = [(bb, t) for bb, t in b.calls() if ((fn_of(t) or {}).get("resolved") or (fn_of(t) or {}).get("def")) == det.id]
        ok = False
        if calls:
            dbb, dt = calls[0]
            # `detect(..)?.ok_or(TEXT)` / ok_or_else: the text is used only when the Option is None
            bt = b.blocks[bi]["term"]
            if bt["k"] == "call" and (fn_of(bt) or {}).get("def") in ("std::option::Option::<T>::ok_or", "std::option::Option::<T>::ok_or_else") and any(a.get("str") == TEXT for a in bt["args"][1:]):
                tr = trace(b, bt["args"][0])
                if tr.origin and tr.origin[0] == "call" and tr.origin[2] is dt and any(st[0] == "downcast" and st[1] in ("Continue", "Ok") for st in tr.steps):
                    ok = True
            # None edge of the Option inside the detection result
            for sb in b.reach():
                sw = b.blocks[sb]["term"]
                if sw["k"] != "switch":
                    continue
                for s in b.blocks[sb]["stmts"]:
                    if s["k"] == "assign" and s["rv"]["k"] == "discr" and "Option<Format>" in s["rv"]["p"]["ty"]:
                        tr = trace(b, {"k": "copy", "p": s["rv"]["p"]})
                        if tr.origin and tr.origin[0] == "call" and tr.origin[2] is dt:
                            e = enum_edge(b, sb, 0)
                            if e and b.edge_dominates(e[0], e[1], e[2], bi):
                                ok = True
        if not ok:
            # `from.map_or_else(|| detect(..), |f| Ok(Some(f)))?.ok_or(TEXT)`: the Option can only be None when it is
            # detection's own answer (the other closure always yields Some)
            bt = b.blocks[bi]["term"]
            if bt["k"] == "call" and (fn_of(bt) or {}).get("def") in ("std::option::Option::<T>::ok_or", "std::option::Option::<T>::ok_or_else") and any(a.get("str") == TEXT for a in bt["args"][1:]):
                tr = trace(b, bt["args"][0])
                if tr.origin and tr.origin[0] == "call" and (fn_of(tr.origin[2]) or {}).get("def") == "std::option::Option::<T>::map_or_else" and any(st[0] == "downcast" and st[1] in ("Continue", "Ok") for st in tr.steps):
                    kinds = []
                    for cid in (fn_of(tr.origin[2]) or {}).get("closures", []):
                        cbody = lib.by_id.get(cid)
                        if cbody is None:
                            kinds.append(None)
                            continue
                        r0 = trace(cbody, {"k": "copy", "p": {"l": 0, "pr": []}})
                        if r0.origin and r0.origin[0] == "call" and ((fn_of(r0.origin[2]) or {}).get("resolved") or (fn_of(r0.origin[2]) or {}).get("def")) == det.id and all(st[0] == "use" for st in r0.steps):
                            kinds.append("detect")
                        elif r0.origin and r0.origin[0] == "agg" and r0.origin[1]["rv"].get("variant") == "Ok" and r0.origin[1]["rv"]["ops"]:
                            inner = trace(cbody, r0.origin[1]["rv"]["ops"][0])
                            kinds.append("some" if inner.origin and inner.origin[0] == "agg" and inner.origin[1]["rv"].get("variant") == "Some" else None)
                        else:
                            kinds.append(None)
                    ok = "detect" in kinds and all(k_ in ("detect", "some") for k_ in kinds)
        if not ok and b.raw["def_kind"] == "Closure" and b.raw.get("parent") in lib.by_id:
            # `detect(..)?.ok_or_else(|| TEXT.into())`: the closure holding the text runs only on None
            pb = lib.by_id[b.raw["parent"]]
            pcalls = [t for _, t in pb.calls() if ((fn_of(t) or {}).get("resolved") or (fn_of(t) or {}).get("def")) == det.id]
            for _, pt in pb.calls():
                pf = fn_of(pt) or {}
                if b.id in pf.get("closures", []) and pf.get("def") == "std::option::Option::<T>::ok_or_else" and pcalls:
                    tr = trace(pb, pt["args"][0])
                    if tr.origin and tr.origin[0] == "call" and tr.origin[2] is pcalls[0] and any(st[0] == "downcast" and st[1] in ("Continue", "Ok") for st in tr.steps):
                        ok = True
        ctx.ob("message-on-none-arm", ok, site(b, bi), "the error is built only when detection returned None" if ok else "the 'unable to detect' error is not tied to detection returning None")


@rule("R09.8", 1, "a trial's verdict does not depend on whether the same bytes are in memory or behind a reader (no input-kind-specific give-up)", ["C09", "C02", "C10"])
def r09_8(ctx):
    lib = ctx.lib
    trials = common.trial_functions(ctx.facts)
    n = 0
    for fmt, trial in sorted(trials.items()):
        sup = Super(lib, trial, depth=3)
        ps = PathSens(sup)
        ref_adt = None
        for path_, a in lib.adts.items():
            if a["crate"] == "xt" and a["kind"] == "enum" and path_.split("<")[0] in trial.local_ty(1) and len(a["variants"]) == 2:
                ref_adt = a
        ctx.need(ref_adt, f"input enum of the {fmt} trial not found")
        readers = [v_["idx"] for v_ in ref_adt["variants"] if not any("[u8]" in f_["ty"] for f_ in v_["fields"])]
        ctx.need(len(readers) == 1, "reader variant of the trial's input enum not identified")
        redges = []
        for sn in sorted(sup.nodes(), key=str):
            sb = sup.body_of(sn)
            t = sb.blocks[sn[1]]["term"]
            if t["k"] != "switch":
                continue
            for s_ in sb.blocks[sn[1]]["stmts"]:
                if s_["k"] == "assign" and s_["rv"]["k"] == "discr" and ref_adt["path"].split("<")[0] in s_["rv"]["p"]["ty"]:
                    e = enum_edge(sb, sn[1], readers[0])
                    if e:
                        redges.append((sn, e[1], (sn[0], e[2])))
        # size constants handed to the prefix accessor, compared again under the reader arm
        caps = set()
        for nn, bx, t in sup.calls():
            f = fn_of(t) or {}
            cb = lib.by_id.get(f.get("resolved") or f.get("def"))
            if common.is_prefix_accessor(lib, cb) and len(t["args"]) == 2:
                tr = strace(sup, nn, t["args"][1])
                v = const_value(t["args"][1]) if t["args"][1].get("k") == "const" else (tr.origin[1].get("v") if tr.origin and tr.origin[0] == "const" else None)
                if isinstance(v, int):
                    caps.add(v)
        hit = None
        for cn in sorted(sup.nodes(), key=str):
            cbody = sup.body_of(cn)
            for s_ in cbody.blocks[cn[1]]["stmts"]:
                if s_["k"] == "assign" and s_["rv"]["k"] == "binop" and s_["rv"]["op"] in ("Ge", "Gt", "Lt", "Le") and (const_value(s_["rv"]["b"]) in caps or const_value(s_["rv"]["a"]) in caps):
                    if any(ps.edge_dominates(e[0], e[1], e[2], cn) for e in redges):
                        hit = cn
        n += 1
        ctx.ob(f"{fmt}:size-cap-on-reader-arm" if hit else f"{fmt}:same-verdict-for-slice-and-reader", hit is None, sup.site(hit) if hit else site(trial),
               "no give-up that applies to reader input only" if hit is None else
               "the trial gives up at a size cap for reader input only: the same bytes are recognised from a file/slice and rejected from a pipe")
    ctx.ob("trials-examined", n == 4, "lib", f"{n} trial(s) examined", trivial=True)


# arm-specific early "not this format" answers that are known to agree with what the other arm's parser does
GIVE_UP_EQUIVALENT = {
    ("json", "mem", "std::str::from_utf8", "Err"): "bytes that are not UTF-8 are not JSON; serde_json's reader front end rejects the same bytes as invalid UTF-8, so both arms answer 'no match'",
}


@rule("R09.9", 1, "no trial answers 'no match' early for in-memory input only or for reader input only (detection agrees between a slice and a reader of the same bytes)", ["C09", "C02", "C10", "C18"])
def r09_9(ctx):
    import vocab

    lib = ctx.lib
    rv = vocab.lib_vocab(ctx.facts)["ref"]
    ref_adt = lib.adts[rv["path"]]
    trials = common.trial_functions(ctx.facts)
    n_sites = 0
    for fmt, trial in sorted(trials.items()):
        sup = Super(lib, trial, depth=3)
        ps = PathSens(sup)
        arms = {}
        for sn in sorted(sup.nodes(), key=str):
            sb = sup.body_of(sn)
            t = sb.blocks[sn[1]]["term"]
            if t["k"] != "switch":
                continue
            for s_ in sb.blocks[sn[1]]["stmts"]:
                if s_["k"] == "assign" and s_["rv"]["k"] == "discr" and vocab.ty_is(s_["rv"]["p"]["ty"], rv):
                    for role, idx in (("mem", rv["mem_idx"]), ("stream", rv["stream_idx"])):
                        e = enum_edge(sb, sn[1], idx)
                        if e:
                            arms.setdefault(role, []).append((sn, e[1], (sn[0], e[2])))
        if not arms:
            ctx.ob(f"{fmt}:no-arm-switch", True, site(trial), "the trial does not distinguish in-memory from reader input itself", trivial=True)
            continue
        parser_nodes = {n for n, b, t in sup.calls() if (fn_of(t) or {}).get("crate") in PARSER_CRATES or common.is_chunker_next(ctx.facts, fn_of(t))}
        # sites that build Ok(false) without having parsed anything
        before_parse = sup.reachable_from([sup.entry], removed_nodes=parser_nodes)
        for g in sorted(before_parse, key=str):
            gb = sup.body_of(g)
            hit = False
            for s_ in gb.blocks[g[1]]["stmts"]:
                if s_["k"] == "assign" and s_["rv"]["k"] == "aggregate" and s_["rv"].get("variant") == "Ok" and s_["rv"]["ops"] and s_["rv"]["ops"][0].get("k") == "const" and s_["rv"]["ops"][0].get("v") is False and "Result<bool" in s_["p"]["ty"]:
                    hit = True
            if not hit:
                continue
            only = [role for role, es in arms.items() if any(ps.edge_dominates(e[0], e[1], e[2], g) for e in es)]
            if len(only) != 1:
                continue
            role = only[0]
            n_sites += 1
            # the closest test this answer depends on (other than the arm switch itself)
            best = None
            for sn in sorted(sup.nodes(), key=str):
                sb = sup.body_of(sn)
                t = sb.blocks[sn[1]]["term"]
                if t["k"] != "switch" or any(sn == e[0] for es in arms.values() for e in es):
                    continue
                for lab, m in sup.edges(sn):
                    if ps.edge_dominates(sn, lab, m, g):
                        if best is None or sup.dominates(best[0], sn):
                            best = (sn, lab, m, t)
            desc = ("?", "?")
            if best is not None:
                sn, lab, m, t = best
                sb = sup.body_of(sn)
                tr = strace(sup, sn, t["discr"], extra=("std::result::Result::<T, E>::is_ok", "std::result::Result::<T, E>::is_err", "std::option::Option::<T>::is_some", "std::option::Option::<T>::is_none"))
                via = [s_[1].rsplit("::", 1)[-1] for s_ in tr.steps if s_[0] == "call"]
                size_helper = None
                if tr.origin and tr.origin[0] == "call" and (fn_of(tr.origin[2]) or {}).get("local"):
                    # a same-crate predicate that is nothing but a length comparison (`CUTOFF.reached_by(prefix)`)
                    hb_ = lib.by_id.get((fn_of(tr.origin[2]) or {}).get("resolved") or (fn_of(tr.origin[2]) or {}).get("def"))
                    if hb_ is not None and hb_.local_ty(0) == "bool":
                        rds_ = hb_.whole_defs(0)
                        if len(rds_) == 1 and rds_[0][2] == "assign" and rds_[0][3]["rv"]["k"] == "binop" and rds_[0][3]["rv"]["op"] in ("Ge", "Gt", "Lt", "Le", "Eq", "Ne") and any((fn_of(tt_) or {}).get("name") == "len" for _, tt_ in hb_.calls()):
                            size_helper = rds_[0][3]["rv"]["op"]
                if size_helper is not None:
                    desc = ("cmp", size_helper)
                elif tr.origin and tr.origin[0] == "call":
                    cdef = (fn_of(tr.origin[2]) or {}).get("def", "?")
                    if tr.has("discr"):
                        ty = sup.body_of(tr.origin_node).local_ty(tr.origin[2]["dest"]["l"])
                        names = ("Ok", "Err") if ty.startswith("std::result::Result<") else (("None", "Some") if ty.startswith("std::option::Option<") else ("0", "1"))
                        edge_name = names[lab] if isinstance(lab, int) and lab < 2 else ("other" if lab == "otherwise" else str(lab))
                        if lab == "otherwise":
                            listed = [v_ for v_, _ in t["targets"]]
                            rest = [i_ for i_ in (0, 1) if i_ not in listed]
                            edge_name = names[rest[0]] if len(rest) == 1 else "other"
                        desc = (cdef, edge_name)
                    else:
                        desc = (cdef, ":".join(via + ["true" if lab == "otherwise" else "false"]))
                elif tr.origin and tr.origin[0] == "rvalue" and tr.origin[1]["rv"]["k"] == "binop":
                    desc = ("cmp", tr.origin[1]["rv"]["op"])
            if desc[0] == "cmp":
                ctx.ob(f"{fmt}:{role}:gives-up:size-test", True, sup.site(g), "size-dependent give-up: judged by R09.8", trivial=True)
                continue
            why = GIVE_UP_EQUIVALENT.get((fmt, role, desc[0], desc[1]))
            if why is None and role == "stream" and desc[0] == "std::str::Utf8Error::error_len" and desc[1].startswith("is_some") and desc[1].endswith("true"):
                # a *definite* UTF-8 error in what has been captured so far (`error_len()` is Some: an invalid sequence,
                # not one cut short by the end of the block) makes the whole input invalid UTF-8 whatever follows. If the
                # in-memory arm's text goes through a UTF-8 gate that answers 'no match' as well, both arms agree.
                mem_edges = arms.get("mem", [])
                gate = [n_ for n_, _, t_ in sup.calls() if (fn_of(t_) or {}).get("def") in ("std::str::from_utf8", "core::str::from_utf8") and any(n_ in ps.reach_from_edge(e[0], e[1], e[2]) for e in mem_edges)]
                if gate:
                    why = "a definite UTF-8 error in the captured bytes (error_len() is Some) fails the UTF-8 gate the in-memory arm passes through as well, whatever follows in the stream"
            ctx.ob(f"{fmt}:{role}:gives-up:{desc[0].rsplit('::', 1)[-1]}:{desc[1]}", why is not None, sup.site(g),
                   f"reviewed equivalent: {why}" if why else f"the {fmt} trial answers 'no match' for {'in-memory' if role == 'mem' else 'reader'} input only, when `{desc[0]}` yields {desc[1]}: the same bytes are judged differently from a {'reader' if role == 'mem' else 'slice'}")
    ctx.ob("arm-specific-give-ups", True, "lib", f"{n_sites} arm-specific early answer(s) classified", trivial=True)


def _error_flow(lib, b, start, is_result, depth=0):
    """Follow the error held by local `start` of body `b` (the poll's Result when is_result, else the error
    value itself) to every use: returns (problems, wrapped) where wrapped counts io::Error::new(InvalidData, e)
    sites and problems lists (bb, reason) for every way the error can leave unwrapped. A same-crate helper the
    error is handed to is followed into its body."""
    res = start if is_result else None
    problems = []
    wrapped = 0
    work = [start]
    seen = set()
    while work:
        l = work.pop()
        if l in seen:
            continue
        seen.add(l)
        for ub, ui, how in uses_of_local(b, l):
            if how == "drop":
                continue
            if isinstance(how, tuple) and how[0] == "callarg":
                ut = b.blocks[ub]["term"]
                uf = fn_of(ut) or {}
                d = uf.get("def", "")
                if d.startswith("std::io::Error::new"):
                    kind = trace(b, ut["args"][0])
                    kv = None
                    if kind.origin and kind.origin[0] == "agg":
                        kv = kind.origin[1]["rv"].get("variant")
                    elif kind.origin and kind.origin[0] == "const":
                        kv = kind.origin[1].get("variant") or kind.origin[1].get("ref_variant")
                    if kv == "InvalidData":
                        wrapped += 1
                    else:
                        problems.append((ub, f"wrapped with ErrorKind::{kv}"))
                elif d == "std::result::Result::<T, E>::map_err" and l == res:
                    okc = False
                    for c in uf.get("closures", []):
                        cb = lib.by_id.get(c)
                        for cbb, ct in (cb.calls() if cb else []):
                            if (fn_of(ct) or {}).get("def", "").startswith("std::io::Error::new"):
                                kind = trace(cb, ct["args"][0])
                                kv = kind.origin[1]["rv"].get("variant") if kind.origin and kind.origin[0] == "agg" else ((kind.origin[1].get("variant") or kind.origin[1].get("ref_variant")) if kind.origin and kind.origin[0] == "const" else None)
                                payload = trace(cb, ct["args"][1])
                                if kv == "InvalidData" and payload.origin and payload.origin[0] == "arg" and payload.origin[1] == 2:
                                    okc = True
                    if not okc and len(ut["args"]) >= 2 and ut["args"][1].get("k") == "fn":
                        # `map_err(invalid_data)`: a named helper instead of a closure; its own parameter is the payload
                        hb = lib.by_id.get(ut["args"][1].get("def"))
                        for cbb, ct in (hb.calls() if hb else []):
                            if (fn_of(ct) or {}).get("def", "").startswith("std::io::Error::new"):
                                kind = trace(hb, ct["args"][0])
                                kv = kind.origin[1]["rv"].get("variant") if kind.origin and kind.origin[0] == "agg" else ((kind.origin[1].get("variant") or kind.origin[1].get("ref_variant")) if kind.origin and kind.origin[0] == "const" else None)
                                payload = trace(hb, ct["args"][1])
                                if kv == "InvalidData" and payload.origin and payload.origin[0] == "arg" and payload.origin[1] == 1 and hb.nargs == 1:
                                    okc = True
                    if okc:
                        wrapped += 1
                    else:
                        problems.append((ub, "map_err closure does not wrap the error as InvalidData"))
                elif d == "std::ops::Try::branch" and l == res:
                    problems.append((ub, "`?` propagates the parser/encoder error unwrapped"))
                elif l != res and (d.startswith("std::convert::Into") or d.startswith("std::convert::From") or d.startswith("std::boxed::Box")):
                    if not ut["dest"]["pr"]:
                        work.append(ut["dest"]["l"])
                elif l != res:
                    callee = lib.by_id.get(uf.get("resolved") or uf.get("def"))
                    pos = [i for i, a_ in enumerate(ut["args"]) if is_place(a_) and a_["p"]["l"] == l and not a_["p"]["pr"]]
                    if callee is not None and uf.get("local") and len(pos) == 1 and depth < 3:
                        sp, sw_ = _error_flow(lib, callee, pos[0] + 1, False, depth + 1)
                        problems.extend((ub, f"in {callee.name}: {why}") for _, why in sp)
                        wrapped += sw_
                    else:
                        problems.append((ub, f"error handed to {d}"))
            elif how == "stmt":
                st = b.blocks[ub]["stmts"][ui]
                rv = st["rv"]
                if rv["k"] == "discr":
                    continue
                if rv["k"] == "use" and is_place(rv["op"]) and rv["op"]["p"]["l"] == l:
                    proj = [e for e in rv["op"]["p"]["pr"]]
                    if l == res and not any(e["k"] == "downcast" and e["variant"] == "Err" for e in proj):
                        # Ok payload / whole-value move
                        if proj:
                            continue
                    if not st["p"]["pr"] and st["p"]["l"] != 0:
                        work.append(st["p"]["l"])
                    else:
                        problems.append((ub, "error stored or returned without wrapping"))
                elif rv["k"] == "aggregate" and l != res:
                    problems.append((ub, f"error placed in {rv.get('variant') or rv.get('agg')}(..) without the InvalidData wrap"))
                elif rv["k"] in ("ref",) and l != res:
                    work.append(st["p"]["l"]) if not st["p"]["pr"] else None
            elif how == "ret" and l != res:
                problems.append((ub, "error returned without wrapping"))
    return problems, wrapped


@rule("R09.7", 3, "every error leaving the YAML chunker's parser loop is wrapped as ErrorKind::InvalidData (the YAML trial skips exactly that kind): no raw propagation of the parser/encoder error", ["C09", "C12"])
def r09_7(ctx):
    lib = ctx.lib
    ch = common.chunker(ctx.facts)
    bodies = [b for b in ch["bodies"] if b.file == ch["loop"].file]
    n_calls = 0
    for b in bodies:
        for bb, t in b.calls():
            f = fn_of(t) or {}
            callee = lib.by_id.get(f.get("resolved") or f.get("def"))
            # the parser poll: a same-crate method returning Result<Event-like, io::Error> whose supergraph reaches libyaml
            if not (callee and callee.file != b.file and callee.local_ty(0).startswith("std::result::Result<") and "std::io::Error" in callee.local_ty(0)):
                continue
            if not any((fn_of(tt) or {}).get("crate") == "unsafe_libyaml" for _, _, tt in Super(lib, callee, depth=2).calls()):
                continue
            if t["dest"]["pr"]:
                continue
            n_calls += 1
            problems, wrapped = _error_flow(lib, b, t["dest"]["l"], True)
            ok = not problems and wrapped >= 1
            det = f"the poll's error reaches the caller only inside io::Error::new(InvalidData, ..) ({wrapped} wrap site(s))" if ok else ("; ".join(p_[1] for p_ in problems) or "no InvalidData wrap of the poll's error found")
            ctx.ob(f"poll-error-wrapped:{b.name}", ok, site(b, problems[0][0] if problems else bb), det)
    ctx.ob("parser-polls", n_calls >= 1, site(ch["loop"]), f"{n_calls} parser poll(s) in the chunker")
    # the trial's discriminator is that very kind
    yt = common.trial_functions(ctx.facts)["yaml"]
    kinds = []
    ysup = Super(lib, yt, depth=2)
    for kt in kind_tests(ysup):
        # the trial's own tests (in its body, its closures, or a helper of its module): a kind test somewhere inside
        # the reader it pulls its prefix through (a retry on Interrupted) is not the trial's verdict
        if ysup.body_of(kt.node).file != yt.file:
            continue
        kinds.extend(kt.named())
    ctx.ob("trial-skips-InvalidData", kinds == ["InvalidData"], site(yt), f"the YAML trial discriminates on ErrorKind {kinds}")


def _is_empty_of_read_prefix(b, op, ok_edges):
    """`op` holds `x.is_empty()` where x is the part of the caller's buffer that a successful source `read`
    filled: `buf.split_at(n).0` or `buf[..n]` with n the read's Ok payload."""
    tr = trace(b, op)
    if not (tr.origin and tr.origin[0] == "call" and (fn_of(tr.origin[2]) or {}).get("name") == "is_empty" and all(st[0] == "use" for st in tr.steps)):
        return False
    xs = trace(b, tr.origin[2]["args"][0])
    if not (xs.origin and xs.origin[0] == "call"):
        return False
    src = xs.origin[2]
    sf = fn_of(src) or {}
    n_op = None
    if sf.get("name") in ("split_at", "split_at_mut") and len(src["args"]) == 2 and [st[1] for st in xs.steps if st[0] == "field"][:1] == ["0"]:
        n_op = src["args"][1]
    elif sf.get("trait") in ("std::ops::Index", "std::ops::IndexMut") and "RangeTo<" in " ".join(sf.get("args", [])) and len(src["args"]) == 2:
        rt = trace(b, src["args"][1])
        if rt.origin and rt.origin[0] == "agg" and rt.origin[1]["rv"]["ops"]:
            n_op = rt.origin[1]["rv"]["ops"][0]
    if n_op is None:
        return False
    nt = trace(b, n_op, passthrough_extra=("std::ops::Try::branch",))
    return bool(nt.origin and nt.origin[0] == "call" and any(nt.origin[2] is e[1] and e[2] == "read" for e in ok_edges) and any(st[0] == "downcast" and st[1] in ("Continue", "Ok") for st in nt.steps))


def _short_of_take_limit(b, read_call, at_bb):
    """The flag write at block `at_bb` is reached only when the bounded read_to_end returned fewer bytes than the
    limit the Take was created with: `let n = take.read_to_end(..)?; if n < limit { eof = true }`."""
    # the Take's limit operand
    lim_roots = set()
    for tb, tt in b.calls():
        if (fn_of(tt) or {}).get("def") == "std::io::Read::take" and len(tt["args"]) == 2:
            lt = trace(b, tt["args"][1])
            for st in [("origin", lt.origin)] + [(x[0], x) for x in lt.steps]:
                pass
            cur = tt["args"][1]
            for _ in range(6):
                if not is_place(cur):
                    break
                ds = b.whole_defs(cur["p"]["l"])
                if len(ds) == 1 and ds[0][2] == "call":
                    # a value-preserving integer conversion: `u64::try_from(needed).unwrap_or(u64::MAX)`, `needed.into()`
                    cf_ = fn_of(ds[0][3]) or {}
                    if (cf_.get("trait") in ("std::convert::TryFrom", "std::convert::TryInto", "std::convert::From", "std::convert::Into") or cf_.get("def", "").startswith("std::result::Result::<T, E>::unwrap") or cf_.get("def") == "std::result::Result::<T, E>::expect") and ds[0][3]["args"] and is_place(ds[0][3]["args"][0]):
                        cur = ds[0][3]["args"][0]
                        lim_roots.add(cur["p"]["l"])
                        continue
                    break
                if len(ds) != 1 or ds[0][2] != "assign":
                    break
                rv = ds[0][3]["rv"]
                if rv["k"] in ("use", "cast") and is_place(rv["op"]):
                    cur = rv["op"]
                    lim_roots.add(cur["p"]["l"])
                else:
                    break
    if not lim_roots:
        return False
    for sb in sorted(b.reach()):
        blk = b.blocks[sb]
        sw = blk["term"]
        if sw["k"] != "switch" or sw.get("discr_ty") != "bool" or not is_place(sw["discr"]):
            continue
        dl = sw["discr"]["p"]["l"]
        for s_ in blk["stmts"]:
            if not (s_["k"] == "assign" and s_["p"]["l"] == dl and s_["rv"]["k"] == "binop" and s_["rv"]["op"] in ("Lt", "Gt", "Ne")):
                continue
            a_, c_ = s_["rv"]["a"], s_["rv"]["b"]
            if s_["rv"]["op"] == "Gt":
                a_, c_ = c_, a_
            at = trace(b, a_, passthrough_extra=("std::ops::Try::branch",))
            from_read = bool(at.origin and at.origin[0] == "call" and at.origin[2] is read_call and any(st[0] == "downcast" and st[1] in ("Continue", "Ok") for st in at.steps))
            croot = c_
            ok_lim = False
            for _ in range(6):
                if is_place(croot) and not croot["p"]["pr"] and croot["p"]["l"] in lim_roots:
                    ok_lim = True
                    break
                if not is_place(croot):
                    break
                ds = b.whole_defs(croot["p"]["l"])
                if len(ds) == 1 and ds[0][2] == "assign" and ds[0][3]["rv"]["k"] in ("use", "cast") and is_place(ds[0][3]["rv"]["op"]):
                    # (the limit was formed by the same widening: `take(needed as u64)` .. `copied < needed as u64`)
                    croot = ds[0][3]["rv"]["op"]
                else:
                    break
            if from_read and ok_lim and b.edge_dominates(sb, "otherwise", sw["otherwise"], at_bb):
                return True
            # `buf.len() < size` after draining `take(size - buf.len())` into that same buf: fewer bytes arrived than
            # the limit allowed
            if s_["rv"]["op"] in ("Lt", "Gt") and _short_of_requested_total(b, read_call, a_, c_) and b.edge_dominates(sb, "otherwise", sw["otherwise"], at_bb):
                return True
            # `gained < limit` with `gained = buf.len() [after the drain] - buf.len() [before it]`: the growth of the
            # vector the bounded read appended to is the count that read returned
            if ok_lim and _is_growth_of_read_buffer(b, read_call, a_) and b.edge_dominates(sb, "otherwise", sw["otherwise"], at_bb):
                return True
    return False


def _is_growth_of_read_buffer(b, read_call, op):
    """`op` is `len_after - len_before`, both lengths of the vector that `read_call` (a read_to_end) appends to, the
    first measured after that call and the second before it, with nothing else that can touch the vector in between."""
    import symlin
    tr = trace(b, op)
    o = tr.origin
    if not (o and o[0] == "rvalue" and o[1]["rv"]["k"] == "binop" and o[1]["rv"]["op"] in symlin._SUB):
        return False
    rb = [cb for cb, ct in b.calls() if ct is read_call]
    if not rb or len(read_call["args"]) < 2:
        return False
    rb = rb[0]
    sup = Super(b.crate, b, depth=2)
    dest = symlin.slice_desc(sup, ((), rb), read_call["args"][1])
    if not dest or dest[0][0] != "buf":
        return False
    fp = dest[0][1]

    def len_site(x):
        t_ = trace(b, x)
        if not (t_.origin and t_.origin[0] == "call" and (fn_of(t_.origin[2]) or {}).get("name") == "len" and t_.origin[2]["args"] and all(st[0] == "use" for st in t_.steps)):
            return None
        sd = symlin.slice_desc(sup, ((), t_.origin[1]), t_.origin[2]["args"][0])
        if not sd or sd[0] != dest[0] or sd[1] != symlin.Lin() or sd[2] != symlin.atom(("len", dest[0])):
            return None
        return t_.origin[1]

    la, lb = len_site(o[1]["rv"]["a"]), len_site(o[1]["rv"]["b"])
    if la is None or lb is None:
        return False
    if not (b.dominates(rb, la) and la != rb and b.dominates(lb, rb) and lb != rb):
        return False

    def touched(frm, to, skip):
        after = b.reachable_from([t for _, t in b.edges(frm)])
        for mb, mt in b.calls():
            if mb in (to, skip) or mb not in after or to not in b.reachable_from([t for _, t in b.edges(mb)]):
                continue
            if (fn_of(mt) or {}).get("name") in _CURSOR_READ_ONLY:
                continue
            for a in mt["args"]:
                if is_place(a) and str(a["p"].get("ty", "")).startswith("&mut"):
                    t2 = strace_deep(sup, ((), mb), a, extra=symlin._SLICE_PASS + symlin._VIEWS)
                    if t2.origin and t2.origin[0] == "arg" and (t2.origin[1],) + tuple(x[1] for x in reversed(t2.steps) if x[0] == "field") == fp:
                        return True
        return False

    return not touched(lb, rb, None) and not touched(rb, la, None)


def _drained_nothing_with_room(b, read_call, at_bb):
    """The flag write at `at_bb` is reached only when the bounded drain returned 0 bytes although its limit was not 0
    (the Take is created only behind a `limit != 0` edge): nothing could be read with room left, the source has ended."""
    # limit roots, as in _short_of_take_limit
    roots = set()
    take_bb = None
    for tb, tt in b.calls():
        if (fn_of(tt) or {}).get("def") == "std::io::Read::take" and len(tt["args"]) == 2:
            take_bb = tb
            cur = tt["args"][1]
            for _ in range(6):
                if not is_place(cur) or cur["p"]["pr"]:
                    break
                roots.add(cur["p"]["l"])
                ds = b.whole_defs(cur["p"]["l"])
                if len(ds) == 1 and ds[0][2] == "assign" and ds[0][3]["rv"]["k"] in ("use", "cast") and is_place(ds[0][3]["rv"]["op"]):
                    cur = ds[0][3]["rv"]["op"]
                else:
                    break
    if take_bb is None or not roots:
        return False
    nonzero = False
    zero_count = False
    for sb in sorted(b.reach()):
        blk = b.blocks[sb]
        sw = blk["term"]
        if sw["k"] != "switch" or not is_place(sw["discr"]) or sw["discr"]["p"]["pr"]:
            continue
        dl = sw["discr"]["p"]["l"]
        for s_ in blk["stmts"]:
            if not (s_["k"] == "assign" and not s_["p"]["pr"] and s_["p"]["l"] == dl and s_["rv"]["k"] == "binop" and s_["rv"]["op"] in ("Eq", "Ne", "Gt") and const_value(s_["rv"]["b"]) == 0):
                continue
            a_ = s_["rv"]["a"]
            zero_t = [x for v, x in sw["targets"] if v == 0]
            # edge on which the compared value is 0 / is not 0
            if s_["rv"]["op"] == "Eq":
                e_zero, e_nonzero = (sb, sw["otherwise"]), ((sb, zero_t[0]) if zero_t else None)
            else:
                e_zero, e_nonzero = ((sb, zero_t[0]) if zero_t else None), (sb, sw["otherwise"])
            ar = a_
            for _ in range(4):
                if is_place(ar) and not ar["p"]["pr"] and ar["p"]["l"] in roots:
                    break
                ds = b.whole_defs(ar["p"]["l"]) if is_place(ar) and not ar["p"]["pr"] else []
                if len(ds) == 1 and ds[0][2] == "assign" and ds[0][3]["rv"]["k"] in ("use", "cast") and is_place(ds[0][3]["rv"]["op"]):
                    ar = ds[0][3]["rv"]["op"]
                else:
                    break
            if is_place(ar) and not ar["p"]["pr"] and ar["p"]["l"] in roots and e_nonzero and take_bb not in b.reachable_from(0, removed_edges=[e_nonzero]):
                nonzero = True
            at = trace(b, a_, passthrough_extra=("std::ops::Try::branch",))
            if at.origin and at.origin[0] == "call" and at.origin[2] is read_call and any(st[0] == "downcast" and st[1] in ("Continue", "Ok") for st in at.steps) and e_zero and at_bb not in b.reachable_from(0, removed_edges=[e_zero]):
                zero_count = True
    return nonzero and zero_count


def _short_of_requested_total(b, read_call, len_op, total_op):
    """`len_op` is the length of the very Vec the bounded read appended to, `total_op` the value S from which the
    Take's limit was computed as `S - len(that Vec)` (saturating/checked/plain) before the read."""
    lt = trace(b, len_op)
    if not (lt.origin and lt.origin[0] == "call" and (fn_of(lt.origin[2]) or {}).get("name") == "len" and "Vec" in (fn_of(lt.origin[2]) or {}).get("def", "") and lt.origin[2]["args"]):
        return False
    views = ("std::io::Cursor::<T>::get_mut", "std::io::Cursor::<T>::get_ref")

    def vec_field(op):
        t_ = trace(b, op, passthrough_extra=views)
        fs = [x[1] for x in t_.steps if x[0] == "field"]
        return fs[0] if fs and t_.origin and t_.origin[0] == "arg" and t_.origin[1] == 1 else None

    vf = vec_field(lt.origin[2]["args"][0])
    if vf is None or len(read_call["args"]) < 2 or vec_field(read_call["args"][1]) != vf:
        return False
    tt = trace(b, total_op)
    if not (tt.origin and tt.origin[0] == "arg" and all(x[0] == "use" for x in tt.steps)):
        return False
    # the Take's limit
    for tb, tk in b.calls():
        if (fn_of(tk) or {}).get("def") != "std::io::Read::take" or len(tk["args"]) != 2:
            continue
        lim = trace(b, tk["args"][1], passthrough_extra=("cast", "std::convert::TryFrom::try_from", "std::convert::From::from", "std::convert::Into::into", "std::result::Result::<T, E>::unwrap", "std::result::Result::<T, E>::unwrap_or"))
        if lim.origin and lim.origin[0] == "call" and (fn_of(lim.origin[2]) or {}).get("name") in ("saturating_sub", "checked_sub") and len(lim.origin[2]["args"]) == 2:
            x, y = lim.origin[2]["args"]
        elif lim.origin and lim.origin[0] == "rvalue" and lim.origin[1]["rv"]["k"] == "binop" and lim.origin[1]["rv"]["op"].startswith("Sub"):
            x, y = lim.origin[1]["rv"]["a"], lim.origin[1]["rv"]["b"]
        else:
            continue
        tx = trace(b, x)
        ty = trace(b, y)
        if tx.origin == tt.origin and all(q[0] == "use" for q in tx.steps) and ty.origin and ty.origin[0] == "call" and (fn_of(ty.origin[2]) or {}).get("name") == "len" and ty.origin[2]["args"] and vec_field(ty.origin[2]["args"][0]) == vf:
            return True
    return False


def _source_reads(b, src_fields):
    """[(block, terminator, method, through a Take)] of the io::Read calls of body b on the capture reader's source."""
    ok_edges = []
    for cb, ct in b.calls():
        f = fn_of(ct) or {}
        if f.get("trait") == "std::io::Read" and f["name"] in ("read", "read_to_end", "read_exact", "read_to_string"):
            rtr = trace(b, ct["args"][0], passthrough_extra=("std::io::Read::take",))
            on_source = any(st[0] == "field" and st[1] in src_fields for st in rtr.steps)
            is_take = "std::io::Take<" in (f.get("self_ty") or "")
            if not on_source and is_take:
                # Take of the source
                for tb, tt in b.calls():
                    if (fn_of(tt) or {}).get("def") == "std::io::Read::take":
                        t2 = trace(b, tt["args"][0], passthrough_extra=("std::io::Read::by_ref",))
                        if any(st[0] == "field" and st[1] in src_fields for st in t2.steps):
                            on_source = True
            if on_source:
                ok_edges.append((cb, ct, f["name"], is_take))
        elif f.get("def") == "std::io::copy" and len(ct["args"]) == 2:
            # io::copy(&mut source.take(n), &mut vec): drains the bounded source like read_to_end and returns the count
            rtr = trace(b, ct["args"][0], passthrough_extra=("std::io::Read::take", "std::io::Read::by_ref"))
            on_source = any(st[0] == "field" and st[1] in src_fields for st in rtr.steps)
            is_take = any(st[0] == "call" and st[1] == "std::io::Read::take" for st in rtr.steps) or "std::io::Take<" in "".join(f.get("args") or [])
            if on_source:
                ok_edges.append((cb, ct, "read_to_end", is_take))
    return ok_edges


def _read_passthrough_helper(lib, callee):
    """(reader parameter, buffer parameter) when every return of the same-crate function is the unchanged Result of one
    `Read::read(<reader parameter>, <buffer parameter>)` call of its own (a retry-on-Interrupted wrapper); else None."""
    reads = [(bb, t) for bb, t in callee.calls() if (fn_of(t) or {}).get("trait") == "std::io::Read" and (fn_of(t) or {}).get("name") == "read" and len(t["args"]) == 2]
    if len(reads) != 1 or not callee.local_ty(0).startswith("std::result::Result<usize, std::io::Error>"):
        return None
    rb, rt = reads[0]
    ra, ba = trace(callee, rt["args"][0]), trace(callee, rt["args"][1])
    if not (ra.origin and ra.origin[0] == "arg" and ba.origin and ba.origin[0] == "arg"):
        return None
    for _, _, kind, payload in callee.whole_defs(0):
        if kind != "assign" or payload["rv"]["k"] != "use":
            return None
        tr = trace(callee, payload["rv"]["op"])
        if not (tr.origin and tr.origin[0] == "call" and tr.origin[2] is rt and all(s_[0] == "use" for s_ in tr.steps)):
            return None
    return ra.origin[1], ba.origin[1]


def _on_zero_count_arm(lib, b, bi, src_fields):
    """Block bi is dominated by the `0` edge of a switch on the Ok payload of a `read` of the source
    (`match self.source.read(..) { Ok(0) => <here>, .. }`)."""
    for sb in sorted(b.reach()):
        sw = b.blocks[sb]["term"]
        if sw["k"] != "switch" or not is_place(sw["discr"]):
            continue
        zero = [t_ for v_, t_ in sw["targets"] if v_ == 0]
        if not sw["discr"]["p"]["pr"]:
            # `if got == 0 { .. }`: the true edge of a comparison of the count with 0
            dl = sw["discr"]["p"]["l"]
            for s_ in b.blocks[sb]["stmts"]:
                if s_["k"] == "assign" and not s_["p"]["pr"] and s_["p"]["l"] == dl and s_["rv"]["k"] == "binop" and s_["rv"]["op"] == "Eq" and const_value(s_["rv"]["b"]) == 0 and _is_source_read_count(lib, b, s_["rv"]["a"], src_fields):
                    if b.edge_dominates(sb, "otherwise", sw["otherwise"], bi):
                        return True
            continue
        if not zero:
            continue
        if not _is_source_read_count(lib, b, sw["discr"], src_fields):
            continue
        if b.edge_dominates(sb, 0, zero[0], bi):
            return True
    return False


def _is_source_read_count(lib, b, op, src_fields, depth=0):
    """`op` is the byte count of a successful `read` of the source: the Ok payload of that call, here or in a
    same-crate helper every Ok return of which hands back such a count (`let n = self.read_and_capture(buf)?`)."""
    tr = trace(b, op, passthrough_extra=("std::ops::Try::branch",))
    if tr.origin and tr.origin[0] == "arg" and tr.origin[1] == 2 and b.raw["def_kind"] == "Closure" and all(st[0] == "use" for st in tr.steps):
        # `self.source.read(buf).and_then(|n| { .. self.eof = n == 0; .. })`: the closure's parameter is the Ok payload of
        # the Result it is run on
        parent = lib.by_id.get(b.raw.get("parent"))
        if parent is not None:
            for pb, pt in parent.calls():
                pf = fn_of(pt) or {}
                if b.id in (pf.get("closures") or []) and pf.get("def") in ("std::result::Result::<T, E>::and_then", "std::result::Result::<T, E>::map") and pt["args"]:
                    rt_ = trace(parent, pt["args"][0])
                    if rt_.origin and rt_.origin[0] == "call" and all(st[0] == "use" for st in rt_.steps) and any(rt_.origin[2] is e[1] and e[2] == "read" for e in _source_reads(parent, src_fields)):
                        return True
        return False
    if not (tr.origin and tr.origin[0] == "call" and any(st[0] == "downcast" and st[1] in ("Continue", "Ok") for st in tr.steps)):
        return False
    src = tr.origin[2]
    if any(src is e[1] and e[2] == "read" for e in _source_reads(b, src_fields)):
        return True
    f = fn_of(src) or {}
    callee = lib.by_id.get(f.get("resolved") or f.get("def")) if f.get("local") else None
    if callee is None or depth >= 2 or callee.id == b.id:
        return False
    pt = _read_passthrough_helper(lib, callee)
    if pt is not None and len(src["args"]) >= pt[0]:
        # `read_retrying(&mut self.source, buf)?`: the helper hands back the source's own read result
        rtr = trace(b, src["args"][pt[0] - 1])
        return any(st[0] == "field" and st[1] in src_fields for st in rtr.steps)
    good = 0
    for db, _, kind, payload in callee.whole_defs(0):
        if kind == "call":
            if (fn_of(payload) or {}).get("def") == "std::ops::FromResidual::from_residual":
                continue
            return False
        if kind != "assign":
            return False
        rv = payload["rv"]
        if rv["k"] == "aggregate" and rv.get("variant") == "Err":
            continue
        if rv["k"] == "aggregate" and rv.get("variant") == "Ok" and len(rv["ops"]) == 1 and _is_source_read_count_ok(lib, callee, rv["ops"][0], src_fields, depth + 1):
            good += 1
            continue
        return False
    return good > 0


def _is_source_read_count_ok(lib, b, op, src_fields, depth):
    """Inside the helper the count is already unwrapped (`let size = self.source.read(buf)?; .. Ok(size)`)."""
    return _is_source_read_count(lib, b, op, src_fields, depth)


def _writes_captured_flag(lib, b, s, flag, cap):
    """Statement s of closure body b stores through a captured `&mut self.<flag>` (edition-2021 closures capture the
    field, not `self`): `*upvar = ..` where the enclosing function built the closure with `&mut (*self).<flag>` in that
    slot."""
    if b.raw["def_kind"] != "Closure" or s["k"] != "assign" or [e["k"] for e in s["p"]["pr"]] != ["deref"]:
        return False
    tr = trace(b, {"k": "copy", "p": {"l": s["p"]["l"], "pr": []}})
    if not (tr.origin == ("arg", 1) and all(x[0] in ("use", "field", "deref") for x in tr.steps)):
        return False
    fields = [x for x in tr.steps if x[0] == "field"]
    if len(fields) != 1:
        return False
    parent = lib.by_id.get(b.raw.get("parent"))
    if parent is None:
        return False
    # the closure aggregate in the parent and the operand in the captured slot
    env_ty = b.local_ty(1)
    for bi_, blk in enumerate(parent.blocks):
        for st in blk["stmts"]:
            if st["k"] == "assign" and st["rv"]["k"] == "aggregate" and st["rv"].get("agg") == "closure" and parent.local_ty(st["p"]["l"]) in env_ty:
                # which slot: by the upvar's name when the facts carry it, else by position
                ops = st["rv"]["ops"]
                for o in ops:
                    if not is_place(o):
                        continue
                    ds = parent.whole_defs(o["p"]["l"])
                    if len(ds) == 1 and ds[0][2] == "assign" and ds[0][3]["rv"]["k"] == "ref":
                        pr = ds[0][3]["rv"]["p"]["pr"]
                        if pr and pr[-1]["k"] == "field" and pr[-1].get("name") == flag and pr[-1].get("adt") == cap and str(fields[0][1]).endswith(flag):
                            return True
    return False


def _finishing_helper(lib, b, bi, src_fields):
    """The flag write at block bi of body b sits in a helper that is handed the drain's own `io::Result` as a parameter
    (and maybe a bool saying whether the drain stopped short of its limit): `fn finish(&mut self, result, eof)` with the
    write under `Ok(_) if eof`. Judged per call site: the Result argument is the un-`?`ed result of a read_to_end of the
    source made in the caller, and for a bounded (Take) drain the bool argument is `take.limit() > 0`. Returns
    (ok, detail) or None when b is not of that shape."""
    import r_bin

    res_params = [k for k in range(2, b.nargs + 1) if b.local_ty(k).startswith("std::result::Result<usize, std::io::Error>") or b.local_ty(k).startswith("std::result::Result<(), std::io::Error>")]
    if len(res_params) != 1:
        return None
    rp = res_params[0]
    # the write is behind the Ok edge of the parameter
    ok_edge = None
    for sb in sorted(b.reach()):
        sw = b.blocks[sb]["term"]
        if sw["k"] != "switch":
            continue
        for s_ in b.blocks[sb]["stmts"]:
            if s_["k"] == "assign" and s_["rv"]["k"] == "discr" and not s_["rv"]["p"]["pr"] and s_["rv"]["p"]["l"] == rp:
                e = enum_edge(b, sb, 0)
                if e and b.edge_dominates(e[0], e[1], e[2], bi):
                    ok_edge = e
    if ok_edge is None:
        return None
    # an optional bool parameter whose true edge also dominates the write
    bool_param = None
    for k in range(2, b.nargs + 1):
        if b.local_ty(k) != "bool":
            continue
        for sb in sorted(b.reach()):
            sw = b.blocks[sb]["term"]
            if sw["k"] == "switch" and is_place(sw["discr"]) and not sw["discr"]["p"]["pr"]:
                dt = trace(b, sw["discr"])
                if dt.origin == ("arg", k) and all(x[0] == "use" for x in dt.steps) and b.edge_dominates(sb, "otherwise", sw["otherwise"], bi):
                    bool_param = k
    sites_ = [(cb, cbb, ct) for cb in lib.bodies for cbb, ct in cb.calls() if ((fn_of(ct) or {}).get("resolved") or (fn_of(ct) or {}).get("def")) == b.id]
    if not sites_:
        return None
    for cb, cbb, ct in sites_:
        reads = _source_reads(cb, src_fields)
        rt_ = trace(cb, ct["args"][rp - 1])
        hit = [e for e in reads if rt_.origin and rt_.origin[0] == "call" and rt_.origin[2] is e[1] and all(x[0] == "use" for x in rt_.steps)]
        if not hit or hit[0][2] != "read_to_end":
            return False, f"`{b.name}` records end of input for the Result it is given, but at {site(cb, cbb)} that is not the result of a read_to_end of the source"
        if hit[0][3]:
            # bounded drain: the bool must say that the limit was not used up
            if bool_param is None:
                return False, f"`{b.name}` takes a bounded drain's result for end of input without asking whether the limit was used up"
            st_ = None
            bo = ct["args"][bool_param - 1]
            bt = trace(cb, bo)
            if bt.origin and bt.origin[0] == "rvalue" and bt.origin[1]["rv"]["k"] == "binop" and bt.origin[1]["rv"]["op"] in ("Gt", "Ne") and const_value(bt.origin[1]["rv"]["b"]) == 0 and _is_take_limit(cb, bt.origin[1]["rv"]["a"], reads):
                continue
            return False, f"at {site(cb, cbb)} a bounded drain's result is passed with an end-of-input claim that is not `take.limit() > 0`"
    return True, f"EOF recorded by `{b.name}` under `Ok` of the drain's own result ({len(sites_)} call site(s): each passes a read_to_end of the source, bounded ones with `limit() > 0`)"


def _is_take_limit(b, op, ok_edges):
    """The operand is `take.limit()` of a Take that one of the source reads in `ok_edges` went through."""
    tr = trace(b, op)
    if not (tr.origin and tr.origin[0] == "call" and (fn_of(tr.origin[2]) or {}).get("name") == "limit" and "Take" in (fn_of(tr.origin[2]) or {}).get("def", "")):
        return False
    return any(tk_ for _, _, _, tk_ in ok_edges)


def _flag_on_error_is_dead(lib, b, read_call):
    """(ok, why): body b returns the Result of `read_call` itself (as it is, through `?`, or with only its Ok payload
    mapped), and every caller up the chain only propagates a failure."""
    passthrough = ("std::result::Result::<T, E>::map", "std::ops::Try::branch", "std::ops::FromResidual::from_residual", "std::result::Result::<T, E>::map_err")
    rets = 0
    for db, _, kind, payload in b.whole_defs(0):
        rets += 1
        if kind == "assign" and payload["rv"]["k"] == "aggregate" and payload["rv"].get("variant") == "Ok":
            # an Ok(..) return: must lie behind the read's success edge or before the read
            import r_bin

            sws = r_bin.result_switches(b, read_call["dest"]["l"])
            cbb = [bb_ for bb_, t_ in b.calls() if t_ is read_call][0]
            if cbb in b.reachable_from(0) and db in b.reachable_from(cbb) and not any(oks and all(b.dominates(o, db) for o in oks[:1]) for _, _, oks in sws):
                return False, "an `Ok` return is reachable after a failed read"
            continue
        op = {"k": "copy", "p": {"l": 0, "pr": []}}
        if kind == "call":
            tr = trace(b, payload["args"][0], passthrough_extra=passthrough) if payload["args"] else None
            f_ = fn_of(payload) or {}
            if f_.get("def") in passthrough and tr is not None and tr.origin and tr.origin[0] == "call" and tr.origin[2] is read_call:
                continue
            return False, f"the return value comes from `{f_.get('def')}`, not from the failed read"
        if kind == "assign" and payload["rv"]["k"] == "use":
            tr = trace(b, payload["rv"]["op"], passthrough_extra=passthrough)
            if tr.origin and tr.origin[0] == "call" and tr.origin[2] is read_call:
                continue
        return False, "the return value does not derive from the read's own result"
    if not rets:
        return False, "no return value found"
    ok, why = _error_only_propagated(lib, b.id)
    return ok, why


def _uses_of_local(b, l):
    """[(block, 'stmt'|'term', object)] reading local l as a whole (moves/copies of the bare local)."""
    out = []

    def reads(x):
        if isinstance(x, dict):
            if x.get("k") in ("copy", "move") and isinstance(x.get("p"), dict) and x["p"].get("l") == l and not x["p"].get("pr"):
                return True
            return any(reads(v) for k_, v in x.items() if k_ != "p" or True)
        if isinstance(x, list):
            return any(reads(v) for v in x)
        return False

    for bi in sorted(b.reach()):
        for s_ in b.blocks[bi]["stmts"]:
            if s_["k"] == "assign" and reads(s_["rv"]):
                out.append((bi, "stmt", s_))
        t = b.blocks[bi]["term"]
        if reads({k_: v for k_, v in t.items() if k_ in ("args", "discr", "cond")}):
            out.append((bi, "term", t))
    return out


def _error_only_propagated(lib, fid, depth=0, seen=None):
    """Every same-crate caller of function `fid` hands its Result on untouched as far as failure goes: the call's
    value is consumed by `?` alone or returned as it is, and the same holds for the callers of that caller. (So an
    error `fid` returns always ends the whole operation; what `fid` did to its object before returning it is never
    looked at again.) Returns (ok, detail)."""
    seen = seen or set()
    if fid in seen or depth > 5:
        return True, ""
    seen.add(fid)
    for cb in lib.bodies:
        for bb, t in cb.calls():
            f = fn_of(t) or {}
            if (f.get("resolved") or f.get("def")) != fid:
                continue
            if t["dest"]["pr"]:
                return False, f"`{cb.name}` stores the result in a place"
            uses = _uses_of_local(cb, t["dest"]["l"])
            ok = len(uses) == 1 or (t["dest"]["l"] == 0 and not uses)
            if ok and uses:
                ub, kind, obj = uses[0]
                if kind == "term" and obj["k"] == "call" and (fn_of(obj) or {}).get("def") == "std::ops::Try::branch":
                    pass
                elif kind == "stmt" and not obj["p"]["pr"] and obj["p"]["l"] == 0 and obj["rv"]["k"] == "use":
                    pass
                else:
                    ok = False
            if not ok:
                return False, f"`{cb.name}` does something else with the result than `?` or returning it (at line {t.get('line')})"
            root = cb
            while root.raw["def_kind"] == "Closure" and root.raw.get("parent") in lib.by_id:
                return False, f"`{cb.name}` is a closure: who sees its result is not followed"
            sub = _error_only_propagated(lib, cb.id, depth + 1, seen)
            if not sub[0]:
                return sub
    return True, ""


@rule("R09.6", 3, "the capture reader marks end-of-input only on evidence of EOF from a successful source read (never on a short read or an error edge)", ["C09", "C12", "C03", "C02", "C10", "C14", "C01"])
def r09_6(ctx):
    lib = ctx.lib
    cap, guard = _capture_adts(lib)
    adt = lib.adts[cap]
    flags = [f["name"] for f in adt["variants"][0]["fields"] if f["ty"] == "bool"]
    ctx.need(len(flags) == 1, f"expected one bool field (the EOF flag) in {cap}, found {flags}")
    flag = flags[0]
    src_fields = [f["name"] for f in adt["variants"][0]["fields"] if f["ty"] == "R"]
    n = 0
    for b in lib.bodies:
        for bi in sorted(b.reach()):
            for s in b.blocks[bi]["stmts"]:
                if not (s["k"] == "assign" and s["p"]["pr"] and s["p"]["pr"][-1]["k"] == "field" and s["p"]["pr"][-1]["name"] == flag and s["p"]["pr"][-1].get("adt") == cap) and not _writes_captured_flag(lib, b, s, flag, cap):
                    continue
                n += 1
                rv = s["rv"]
                key = f"eof-write:{b.name}"
                # successful source reads in this body: (call block, Ok/Continue edge)
                ok_edges = _source_reads(b, src_fields)
                if rv["k"] == "use" and rv["op"].get("k") == "const":
                    if rv["op"].get("v") is False:
                        ctx.ob(key + ":false", True, site(b, line=s["line"]), "flag cleared", trivial=True)
                        continue
                    # const true on the `Ok(0)` arm of a match on the source's read result
                    if _on_zero_count_arm(lib, b, bi, src_fields):
                        ctx.ob(key + ":zero-length-read", True, site(b, line=s["line"]), "EOF recorded on the Ok(0) arm of the source's read")
                        continue
                    # const true: must follow a successful read_to_end of the source
                    good = False
                    why = "set to true without a successful read_to_end of the source on the path"
                    if not ok_edges:
                        par = _finishing_helper(lib, b, bi, src_fields)
                        if par is not None:
                            ctx.ob(key + ":true-after-read_to_end", par[0], site(b, line=s["line"]), par[1])
                            continue
                    for cb, ct, nm, is_take in ok_edges:
                        if nm != "read_to_end":
                            continue
                        import r_bin

                        sws = r_bin.result_switches(b, ct["dest"]["l"])
                        dom_ok = any(all(b.dominates(o, bi) for o in [x for x in oks][:1]) and oks for sb, errs, oks in sws)
                        if not dom_ok and b.dominates(cb, bi) and cb != bi:
                            # the flag is also written when the read failed: harmless exactly when that failure is
                            # this function's own return value and every caller only passes it on
                            dom_ok, why_e = _flag_on_error_is_dead(lib, b, ct)
                            if not dom_ok:
                                why = "set to true on a path that includes the read's error edge (a failing source would look exhausted): " + why_e
                                continue
                        elif not dom_ok:
                            why = "set to true on a path that includes the read's error edge (a failing source would look exhausted)"
                            continue
                        if is_take:
                            # bounded read: EOF only if the limit was not used up
                            lim = False
                            for lb, lt in b.calls():
                                if (fn_of(lt) or {}).get("name") == "limit" and "Take" in (fn_of(lt) or {}).get("def", ""):
                                    sw = b.blocks[lt["target"]]
                                    for st in sw["stmts"]:
                                        if st["k"] == "assign" and st["rv"]["k"] == "binop" and st["rv"]["op"] in ("Gt", "Ne") and const_value(st["rv"]["b"]) == 0:
                                            te = sw["term"]["otherwise"]
                                            if b.edge_dominates(lt["target"], "otherwise", te, bi):
                                                lim = True
                            if not lim:
                                lim = _short_of_take_limit(b, ct, bi)
                            if not lim:
                                lim = _drained_nothing_with_room(b, ct, bi)
                            if not lim:
                                why = "a bounded (Take) read ended: without checking the remaining limit this may be the cap, not EOF"
                                continue
                        good = True
                    ctx.ob(key + ":true-after-read_to_end", good, site(b, line=s["line"]), "EOF recorded after read_to_end returned Ok" + (" with unused limit" if good and any(e[3] for e in ok_edges) else "") if good else why)
                elif rv["k"] == "binop" and rv["op"] in ("Eq", "Ge") and const_value(rv["a"]) == 0 and not is_place(rv["a"]):
                    # (the same test with the operands the other way round: `0 == n`, `0 >= n`)
                    good = _is_source_read_count(lib, b, rv["b"], src_fields)
                    ctx.ob(key + ":zero-length-read", good, site(b, line=s["line"]), "EOF iff the source's read returned Ok(0)" if good else "EOF derived from something other than the source read's Ok(0)")
                elif rv["k"] == "binop" and ((rv["op"] in ("Eq", "Le") and const_value(rv["b"]) == 0) or (rv["op"] == "Lt" and const_value(rv["b"]) == 1)):
                    # (`n == 0`, and for an unsigned count the same test spelt `n < 1` or `n <= 0`)
                    good = _is_source_read_count(lib, b, rv["a"], src_fields)
                    ctx.ob(key + ":zero-length-read", good, site(b, line=s["line"]), "EOF iff the source's read returned Ok(0)" if good else "EOF derived from something other than the source read's Ok(0)")
                elif rv["k"] == "binop" and rv["op"] in ("Gt", "Ne") and const_value(rv["b"]) == 0 and _is_take_limit(b, rv["a"], ok_edges):
                    # `eof = take.limit() > 0` right after `take.read_to_end(..)`: the cap was not used up
                    drains = [(cb_, ct_) for cb_, ct_, nm_, tk_ in ok_edges if nm_ == "read_to_end" and tk_ and b.dominates(cb_, bi) and cb_ != bi]
                    good, why_v = False, "no bounded read_to_end of the source before this"
                    for cb_, ct_ in drains:
                        import r_bin

                        sws = r_bin.result_switches(b, ct_["dest"]["l"])
                        if any(oks and all(b.dominates(o, bi) for o in oks[:1]) for _, _, oks in sws):
                            good = True
                        else:
                            good, why_v = _flag_on_error_is_dead(lib, b, ct_)
                    ctx.ob(key + ":true-after-read_to_end", good, site(b, line=s["line"]), "EOF iff the bounded read_to_end left part of its limit unused" + ("" if good else ": " + why_v))
                elif rv["k"] == "use" and is_place(rv["op"]) and _is_empty_of_read_prefix(b, rv["op"], ok_edges):
                    ctx.ob(key + ":zero-length-read", True, site(b, line=s["line"]), "EOF iff the part of the buffer the source's read filled is empty (the read returned Ok(0))")
                else:
                    ctx.ob(key + ":unrecognised", False, site(b, line=s["line"]), f"end-of-input flag computed by `{rv['k']} {rv.get('op', '')}`: not one of the recognised EOF tests (Ok(0) from read; Ok from read_to_end) — a short read is not EOF")
    ctx.ob("eof-flag-writes", n >= 2, cap, f"{n} write(s) to `{flag}`")


@rule("R09.12", 3, "a prefix request is filled completely: outside its own `read`, the capture reader pulls from the source only with calls that keep reading until the requested amount or the end of input (read_to_end / io::copy of a Take / read_exact, or `read` in a loop) — one short read is never taken for the whole look-ahead", ["C09", "C02", "C07"])
def r09_12(ctx):
    import r_c03

    lib = ctx.lib
    cap, guard = _capture_adts(lib)
    prefix_ = cap.split("<")[0] + "::"
    own = [b for b in lib.bodies if b.id.startswith(prefix_) or b.id.startswith("<" + cap.split("<")[0])]
    own_ids = {b.id for b in own}
    n = 0
    for b in own:
        if b.id.endswith(" as std::io::Read>::read") or b.raw["def_kind"] == "Closure":
            continue
        # entry points only: helpers that other methods of the capture reader loop over are judged inlined there
        callers = [c for c in lib.bodies if c.id not in own_ids and any(((fn_of(t) or {}).get("resolved") or (fn_of(t) or {}).get("def")) == b.id for _, t in c.calls())]
        if not callers:
            continue
        sup = Super(lib, b, depth=3)
        pulls = []
        for nn, bx, t in sup.calls():
            f = fn_of(t) or {}
            if f.get("trait") in ("std::io::Read", "std::io::BufRead") and f.get("name") in r_c03._PULL_METHODS and r_c03._generic_source_ty(f.get("self_ty")):
                pulls.append((nn, f["name"]))
            elif f.get("def") == "std::io::copy" and r_c03._generic_source_ty((f.get("args") or [""])[0]):
                pulls.append((nn, "copy"))
        if not pulls:
            continue
        n += 1
        single = [(nn, m) for nn, m in pulls if m in ("read", "read_vectored", "fill_buf") and not sup.on_cycle(nn)]
        ctx.ob(f"fills-request:{b.name}", not single, sup.site(single[0][0]) if single else site(b),
               f"{len(pulls)} source read(s), each one draining (read_to_end/read_exact) or repeated in a loop" if not single else
               f"`{b.name}` asks the source once (`{single[0][1]}`) and goes on with whatever arrived: a reader that delivers fewer bytes than requested (a pipe, a socket) leaves the look-ahead short although more input follows — encoding and format detection then decide on a truncated prefix")
        # how much is asked for: a bounded drain `take(limit)` into the capture buffer asks for the whole shortfall,
        # `T - len(captured)` with T the requested total (possibly capped by `min`): the captured length is taken
        # off once. Forms the algebra does not resolve are left to the other obligations.
        import symlin
        for nn, bx, t in sup.calls():
            if (fn_of(t) or {}).get("def") != "std::io::Read::take" or len(t["args"]) != 2 or nn[0]:
                continue
            lim = symlin.lin(sup, nn, t["args"][1])
            lens = [a for a in lim.terms if a[0] == "len" and a[1][0] == "buf"]
            mins = [a for a in lim.terms if a[0] == "min"]
            twice = any(lim.terms[a] < -1 for a in lens) or any(lim.terms.get(a, 0) < 0 and any(x[0] == "len" and x[1] == a[1] and c < 0 for m_ in mins for side in m_[1] for x, c in side.terms.items()) for a in lens)
            if lens or mins:
                ctx.ob(f"asks-for-the-whole-shortfall:{b.name}", not twice, sup.site(nn),
                       f"take({lim}): the captured length is taken off the requested total once" if not twice else
                       f"take({lim}): the captured length is subtracted more than once, so a request made after earlier look-ahead is filled short of what was asked for (and a trial that needs the whole prefix sees a truncated one)")
    ctx.ob("capture-entry-points", n >= 2, cap, f"{n} capture entry point(s) that read from the source examined")
